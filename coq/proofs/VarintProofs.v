From Coq Require Import Lia ZifyBool.
From FA Require Import model.Base model.Varint.
Ltac Zify.zify_post_hook ::= Z.to_euclidean_division_equations.

Definition INT64_MIN : Z := - 2^63.
Definition INT64_MAX : Z := 2^63 - 1.

(** *** zig-zag *)
Lemma land1_mod x : Z.land x 1 = x mod 2.
Proof. change 1 with (Z.ones 1). rewrite Z.land_ones by lia. reflexivity. Qed.

Lemma zigzag_spec n : in_int64 n ->
  zigzag n = if 0 <=? n then 2 * n else - 2 * n - 1.
Proof.
  unfold in_int64, zigzag; intros H.
  rewrite Z.shiftl_mul_pow2, Z.shiftr_div_pow2 by lia.
  destruct (0 <=? n) eqn:E.
  - replace (n / 2 ^ 63) with 0 by (symmetry; apply Z.div_small; lia).
    rewrite Z.lxor_0_r. lia.
  - replace (n / 2 ^ 63) with (-1) by (apply (Z.div_unique n (2^63) (-1) (n + 2^63)); lia).
    rewrite Z.lxor_m1_r. unfold Z.lnot. change (2^1) with 2. lia.
Qed.

Lemma zigzag_nonneg n : in_int64 n -> 0 <= zigzag n < 2^64.
Proof. intros H. rewrite zigzag_spec by exact H. unfold in_int64 in H. destruct (0 <=? n) eqn:E; lia. Qed.

Lemma unzigzag_spec z : 0 <= z ->
  unzigzag z = if z mod 2 =? 0 then z / 2 else - (z / 2) - 1.
Proof.
  intros H. unfold unzigzag. rewrite land1_mod, Z.shiftr_div_pow2 by lia. change (2^1) with 2.
  destruct (z mod 2 =? 0) eqn:E.
  - replace (z mod 2) with 0 by lia. cbn [Z.opp]. apply Z.lxor_0_r.
  - replace (z mod 2) with 1 by lia. change (-(1)) with (-1). rewrite Z.lxor_m1_r. unfold Z.lnot. lia.
Qed.

Theorem unzigzag_zigzag n : in_int64 n -> unzigzag (zigzag n) = n.
Proof.
  intros H. pose proof (zigzag_nonneg n H) as Hz.
  rewrite unzigzag_spec by lia. rewrite zigzag_spec in * by exact H.
  destruct (0 <=? n) eqn:E; destruct (_ mod 2 =? 0) eqn:E2; lia.
Qed.

(** *** base-128 *)
Lemma land127 z : Z.land z 127 = z mod 128.
Proof. change 127 with (Z.ones 7). rewrite Z.land_ones by lia. reflexivity. Qed.

Lemma land128_0 b : 0 <= b < 128 -> Z.land b 128 = 0.
Proof.
  intros H. apply Z.bits_inj'; intros n Hn. rewrite Z.land_spec, Z.bits_0.
  destruct (Z.eq_dec n 7) as [->|Hne].
  - replace (Z.testbit b 7) with false; [reflexivity|].
    symmetry. apply Z.bits_above_log2; [lia|]. destruct (Z.eq_dec b 0) as [->|]; [cbn; lia|].
    apply Z.log2_lt_pow2; lia.
  - replace (Z.testbit 128 n) with false; [apply andb_false_r|].
    symmetry. change 128 with (2^7). apply Z.pow2_bits_false. lia.
Qed.

Lemma lor128 x : 0 <= x < 128 -> Z.lor x 128 = x + 128.
Proof.
  intros H. rewrite <- Z.lxor_lor by (apply land128_0; exact H).
  symmetry. apply Z.add_nocarry_lxor. apply land128_0; exact H.
Qed.

Lemma land128_1 b : 128 <= b < 256 -> Z.land b 128 = 128.
Proof.
  intros H. replace b with (Z.lor (b - 128) 128) by (rewrite lor128; lia).
  rewrite Z.land_lor_distr_l, land128_0 by lia. reflexivity.
Qed.

Lemma small_iff z : 0 <= z -> (Z.land z (Z.lnot 127) =? 0) = (z <? 128).
Proof.
  intros H. destruct (z <? 128) eqn:E.
  - apply Z.eqb_eq. apply Z.bits_inj'; intros n Hn.
    rewrite Z.land_spec, Z.lnot_spec, Z.bits_0 by lia.
    destruct (Z_lt_le_dec n 7).
    + change 127 with (Z.ones 7). rewrite Z.ones_spec_low by lia. apply andb_false_r.
    + replace (Z.testbit z n) with false; [reflexivity|]. symmetry.
      destruct (Z.eq_dec z 0) as [->|]; [apply Z.bits_0|].
      apply Z.bits_above_log2; [lia|]. assert (Z.log2 z < 7) by (apply Z.log2_lt_pow2; lia). lia.
  - apply Z.eqb_neq. intros Hc.
    assert (Hb : Z.testbit (Z.land z (Z.lnot 127)) (Z.log2 z) = true).
    { rewrite Z.land_spec, Z.lnot_spec by (apply Z.log2_nonneg).
      rewrite Z.bit_log2 by lia. cbn [andb].
      change 127 with (Z.ones 7). rewrite Z.ones_spec_high; [reflexivity|].
      split; [lia|]. apply Z.log2_le_pow2; lia. }
    rewrite Hc, Z.bits_0 in Hb. discriminate.
Qed.

(** the emitted bytes, arithmetically *)
Fixpoint varint_arith (f : nat) (z : Z) : bytes :=
  match f with
  | O => [z]
  | S f => if z <? 128 then [z] else (z mod 128 + 128) :: varint_arith f (z / 128)
  end.

Lemma varint_go_arith f z : 0 <= z -> varint_go f z = varint_arith f z.
Proof.
  revert z; induction f as [|f IH]; intros z Hz; cbn [varint_go varint_arith]; [reflexivity|].
  rewrite small_iff by exact Hz. destruct (z <? 128); [reflexivity|].
  rewrite land127, lor128, Z.shiftr_div_pow2 by lia. change (2^7) with 128.
  rewrite IH by lia. reflexivity.
Qed.

Lemma lor_shift acc x s : 0 <= s -> 0 <= acc < 2^s -> 0 <= x ->
  Z.lor acc (Z.shiftl x s) = acc + x * 2^s.
Proof.
  intros Hs Ha Hx.
  assert (Hd : Z.land acc (Z.shiftl x s) = 0).
  { apply Z.bits_inj'; intros n Hn. rewrite Z.land_spec, Z.bits_0.
    destruct (Z_lt_le_dec n s).
    - rewrite Z.shiftl_spec_low by lia. apply andb_false_r.
    - replace (Z.testbit acc n) with false; [reflexivity|]. symmetry.
      destruct (Z.eq_dec acc 0) as [->|]; [apply Z.bits_0|].
      apply Z.bits_above_log2; [lia|]. assert (Z.log2 acc < s) by (apply Z.log2_lt_pow2; lia). lia. }
  rewrite <- Z.lxor_lor by exact Hd. rewrite <- Z.add_nocarry_lxor by exact Hd.
  rewrite Z.shiftl_mul_pow2 by lia. reflexivity.
Qed.

Lemma dec_go_arith f : forall z acc s r, 0 <= z -> z < 2 ^ (7 * Z.of_nat f + 7) ->
  0 <= s -> 0 <= acc < 2^s ->
  varint_dec_go (varint_arith f z ++ r) acc s = Ok (acc + z * 2^s, r).
Proof.
  induction f as [|f IH]; intros z acc s r Hz Hlt Hs Ha; cbn [varint_arith].
  - change (7 * Z.of_nat 0 + 7) with 7 in Hlt. change (2^7) with 128 in Hlt.
    cbn [app varint_dec_go]. rewrite land127, land128_0 by lia. cbn [Z.eqb].
    rewrite Z.mod_small by lia. rewrite lor_shift by lia. reflexivity.
  - destruct (z <? 128) eqn:E.
    + cbn [app varint_dec_go]. rewrite land127, land128_0 by lia. cbn [Z.eqb].
      rewrite Z.mod_small by lia. rewrite lor_shift by lia. reflexivity.
    + cbn [app varint_dec_go]. rewrite land127, land128_1 by lia. cbn [Z.eqb].
      replace ((z mod 128 + 128) mod 128) with (z mod 128) by lia.
      rewrite lor_shift by lia.
      assert (Hp : 2 ^ (s + 7) = 2^s * 128) by (rewrite Z.pow_add_r by lia; reflexivity).
      rewrite IH.
      * f_equal. f_equal. rewrite Hp. lia.
      * lia.
      * replace (7 * Z.of_nat (S f) + 7) with ((7 * Z.of_nat f + 7) + 7) in Hlt by lia.
        rewrite Z.pow_add_r in Hlt by lia. change (2^7) with 128 in Hlt. lia.
      * lia.
      * rewrite Hp. split; [lia|]. assert (0 <= z mod 128 < 128) by lia. nia.
Qed.

Lemma varint_arith_nonempty f z : varint_arith f z <> [].
Proof. destruct f; cbn [varint_arith]; [discriminate|]. destruct (z <? 128); discriminate. Qed.

Lemma log2_fuel z : 0 <= z -> z < 2 ^ (7 * Z.of_nat (Z.to_nat (Z.log2 z)) + 7).
Proof.
  intros Hz. destruct (Z.eq_dec z 0) as [->|Hne]; [cbn; lia|].
  rewrite Z2Nat.id by apply Z.log2_nonneg.
  assert (H := Z.log2_spec z ltac:(lia)).
  eapply Z.lt_le_trans; [apply H|]. apply Z.pow_le_mono_r; [lia|].
  pose proof (Z.log2_nonneg z). lia.
Qed.

Theorem varint_rt z r : 0 <= z -> varint_dec (varint_enc z ++ r) = Ok (z, r).
Proof.
  intros Hz. unfold varint_enc. rewrite varint_go_arith by exact Hz.
  unfold varint_dec.
  destruct (varint_arith (Z.to_nat (Z.log2 z)) z ++ r) eqn:E.
  - exfalso. apply app_eq_nil in E. destruct E as [E _]. exact (varint_arith_nonempty _ _ E).
  - rewrite <- E. rewrite dec_go_arith; [|lia|apply log2_fuel; exact Hz|lia|cbn; lia].
    f_equal. f_equal. cbn. lia.
Qed.

Theorem long_rt n r : in_int64 n -> long_dec (long_enc n ++ r) = Ok (n, r).
Proof.
  intros H. unfold long_dec, long_enc.
  rewrite varint_rt by (apply zigzag_nonneg; exact H). cbn [bind].
  rewrite unzigzag_zigzag by exact H. reflexivity.
Qed.

(** *** decoding is insensitive to what follows the consumed bytes *)
Lemma dec_go_ext p : forall q n s z r,
  varint_dec_go p n s = Ok (z, r) -> varint_dec_go (p ++ q) n s = Ok (z, r ++ q).
Proof.
  induction p as [|b p IH]; intros q n s z r H; cbn [varint_dec_go app] in *; [discriminate|].
  destruct (Z.land b 128 =? 0).
  - injection H as <- <-. reflexivity.
  - apply IH. exact H.
Qed.

Theorem long_ext p q z r : long_dec p = Ok (z, r) -> long_dec (p ++ q) = Ok (z, r ++ q).
Proof.
  unfold long_dec, varint_dec. destruct p as [|b p]; [discriminate|].
  intros H. cbn [app].
  destruct (varint_dec_go (b :: p) 0 0) as [[n r']| |] eqn:E; cbn [bind] in H; try discriminate.
  injection H as <- <-.
  change (b :: p ++ q) with ((b :: p) ++ q). rewrite (dec_go_ext _ _ _ _ _ _ E). reflexivity.
Qed.

(** decoding consumes at least one byte and returns a suffix *)
Lemma dec_go_suffix p : forall n s z r, varint_dec_go p n s = Ok (z, r) ->
  exists pre, pre <> [] /\ p = pre ++ r.
Proof.
  induction p as [|b p IH]; intros n s z r H; cbn [varint_dec_go] in H; [discriminate|].
  destruct (Z.land b 128 =? 0).
  - injection H as _ <-. exists [b]. split; [discriminate|reflexivity].
  - destruct (IH _ _ _ _ H) as (pre & _ & ->). exists (b :: pre). split; [discriminate|reflexivity].
Qed.

Theorem long_dec_suffix p z r : long_dec p = Ok (z, r) -> exists pre, pre <> [] /\ p = pre ++ r.
Proof.
  unfold long_dec, varint_dec. destruct p as [|b p]; [discriminate|].
  destruct (varint_dec_go (b :: p) 0 0) as [[n r']| |] eqn:E; cbn [bind]; try discriminate.
  intros H; injection H as _ <-. eapply dec_go_suffix; exact E.
Qed.

(** *** the varint bytes are the base-128 digits of z (spec statement) *)
Fixpoint digits_value (bs : bytes) : Z :=
  match bs with [] => 0 | b :: bs => b mod 128 + 128 * digits_value bs end.

Fixpoint cont_bits_ok (bs : bytes) : Prop :=
  match bs with
  | [] => False
  | [b] => 0 <= b < 128
  | b :: bs => 128 <= b < 256 /\ cont_bits_ok bs
  end.

Lemma varint_arith_spec f : forall z, 0 <= z -> z < 2 ^ (7 * Z.of_nat f + 7) ->
  digits_value (varint_arith f z) = z /\ cont_bits_ok (varint_arith f z) /\
  (last (varint_arith f z) 0 <> 0 \/ varint_arith f z = [0]).
Proof.
  induction f as [|f IH]; intros z Hz Hf.
  - change (7 * Z.of_nat 0 + 7) with 7 in Hf. change (2^7) with 128 in Hf.
    cbn [varint_arith digits_value cont_bits_ok last]. repeat split; try lia.
    destruct (Z.eq_dec z 0) as [->|Hn]; [right; reflexivity|left; exact Hn].
  - cbn [varint_arith]. destruct (z <? 128) eqn:E.
    + cbn [digits_value cont_bits_ok last]. repeat split; try lia.
      destruct (Z.eq_dec z 0) as [->|Hn]; [right; reflexivity|left; exact Hn].
    + assert (Hf' : z / 128 < 2 ^ (7 * Z.of_nat f + 7)).
      { replace (7 * Z.of_nat (S f) + 7) with ((7 * Z.of_nat f + 7) + 7) in Hf by lia.
        rewrite Z.pow_add_r in Hf by lia. change (2^7) with 128 in Hf. lia. }
      destruct (IH (z / 128) ltac:(lia) Hf') as (Hv & Hc & Hl).
      cbn [digits_value]. rewrite Hv.
      pose proof (varint_arith_nonempty f (z / 128)) as Hne.
      destruct (varint_arith f (z / 128)) as [|b' l'] eqn:El; [contradiction|].
      repeat split; try lia.
      * exact Hc.
      * destruct Hl as [Hl|Hl].
        -- left. exact Hl.
        -- exfalso. injection Hl as -> ->. cbn [digits_value] in Hv. lia.
Qed.

Theorem varint_spec z : 0 <= z ->
  digits_value (varint_enc z) = z /\ cont_bits_ok (varint_enc z) /\
  (last (varint_enc z) 0 <> 0 \/ varint_enc z = [0]).
Proof.
  intros Hz. unfold varint_enc. rewrite varint_go_arith by exact Hz.
  apply varint_arith_spec; [exact Hz|apply log2_fuel; exact Hz].
Qed.

Lemma long_enc_nonempty n : long_enc n <> [].
Proof.
  unfold long_enc, varint_enc. destruct (Z.to_nat _); cbn [varint_go]; [discriminate|].
  destruct (_ =? _); discriminate.
Qed.
