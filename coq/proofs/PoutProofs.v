(** The parser computes [pout] and fills the table with [pout] of the definitions [defs_of]. *)
From Coq Require Import String Ascii Lia.
From FA Require Import model.Base model.Json model.Parse model.SchemaSpec model.Inline model.Canon model.Pout
     proofs.JsonProofs proofs.ParseProofs.
Open Scope string_scope.

(** ---- one-level unfoldings ---- *)
Lemma pout_m_obj kv m ns : pout_m (JObj kv) m ns = pout_obj kv (map (fun p => (fst p, pout_m (snd p))) kv) m ns.
Proof. reflexivity. Qed.

Lemma osubj_map k kv m ns :
  osubj k (map (fun p => (fst p, pout_m (snd p))) kv) m ns = match jget k kv with Some v => pout_m v m ns | None => JNull end.
Proof. unfold osubj. rewrite jget_map. destruct (jget k kv); reflexivity. Qed.

Lemma pout_arr l ns : pout ns (JArr l) = JArr (map (pout ns) l).
Proof. unfold pout, pout_m. rewrite jfold_arr. now rewrite map_map. Qed.

Lemma pout_fields l ns : pout_m (JArr l) PFields ns = JArr (map (fun f => pout_m f PField ns) l).
Proof. unfold pout_m. rewrite jfold_arr. now rewrite map_map. Qed.

Lemma base_is_pbase kv ty : base_of kv ty = pbase kv ty.
Proof. reflexivity. Qed.

Lemma defs_of_m_obj kv m ns :
  defs_of_m (JObj kv) m ns =
  let sub k m ns := match jget k kv with Some v => defs_of_m v m ns | None => [] end in
  match m with
  | PField => sub "type" PSchema ns
  | _ =>
      if type_is kv "array" then sub "items" PSchema ns
      else if type_is kv "map" then sub "values" PSchema ns
      else if type_is kv "enum" || type_is kv "fixed" then [(spec_fullname ns kv, (ns, JObj kv))]
      else if type_is kv "record" || type_is kv "error" then
        (spec_fullname ns kv, (ns, JObj kv)) :: sub "fields" PFields (spec_namespace ns kv)
      else []
  end.
Proof.
  unfold defs_of_m at 1. rewrite jfold_obj. fold defs_of_m. unfold dsub. rewrite !jget_map.
  cbv zeta. destruct m; repeat match goal with |- context [jget ?k kv] => destruct (jget k kv) end; reflexivity.
Qed.

Lemma defs_of_m_arr l m ns :
  defs_of_m (JArr l) m ns = concat (map (fun j => defs_of_m j (match m with PFields => PField | _ => PSchema end) ns) l).
Proof. unfold defs_of_m. rewrite jfold_arr. now rewrite map_map. Qed.

(* the definitions carry the specification's names, in order *)
Lemma defs_names j : forall m ns, map fst (defs_of_m j m ns) = spec_names_m j m ns.
Proof.
  induction j as [| | | | |l IH|kv IH] using json_ind'; intros m ns; try reflexivity.
  - rewrite defs_of_m_arr, spec_names_m_arr, concat_map, map_map. f_equal.
    induction IH as [|x r Hx Hr IHr]; [reflexivity|]. cbn [map]. now rewrite Hx, IHr.
  - assert (IH' : forall k v, jget k kv = Some v -> forall m ns, map fst (defs_of_m v m ns) = spec_names_m v m ns).
    { intros k v G. exact (jget_Forall (fun v => forall m ns, map fst (defs_of_m v m ns) = spec_names_m v m ns) k kv v IH G). }
    rewrite defs_of_m_obj, spec_names_m_obj. cbv zeta.
    destruct m; repeat match goal with
                       | |- context [if ?c then _ else _] => destruct c
                       | |- context [match jget ?k kv with _ => _ end] => let G := fresh "G" in destruct (jget k kv) eqn:G
                       end; cbn [map fst]; try reflexivity; try (f_equal; eapply IH'; eauto); try (eapply IH'; eauto).
Qed.

(** ---- the parser's output is [pout] ---- *)
Definition shaped (wh : bool) (p q : json) : Prop :=
  p = q \/ (wh = true /\ exists kv, q = JObj kv /\ p = mark true kv).

Lemma shaped_false p q : shaped false p q -> p = q.
Proof. intros [E|[E _]]; [exact E|discriminate E]. Qed.

Definition pout_spec (rec : recfun) : Prop :=
  forall j ns wh st d p st', rec j ns wh st d = POk (p, st') -> shaped wh p (pout ns j).

Section PoutStep.
  Variable rec : recfun.
  Hypothesis IH : pout_spec rec.

  Lemma members_pout ns l st ps st' : members_ok rec ns l st ps st' -> ps = map (pout ns) l.
  Proof.
    induction 1 as [|s r st p st1 ps st2 R M IHM]; [reflexivity|].
    cbn [map]. rewrite (shaped_false _ _ (IH _ _ _ _ _ _ _ R)), IHM. reflexivity.
  Qed.

  Lemma field_pout ns fd st p st' : field_ok rec ns fd st p st' -> p = pout_m fd PField ns.
  Proof.
    intros F. destruct F as [fkv nm ty st p st1 N T R].
    rewrite pout_m_obj. unfold pout_obj, attrj, fbase. rewrite osubj_map, N, T.
    now rewrite (shaped_false _ _ (IH _ _ _ _ _ _ _ R)).
  Qed.

  Lemma fields_pout ns l st ps st' : fields_ok rec ns l st ps st' -> ps = map (fun f => pout_m f PField ns) l.
  Proof.
    induction 1 as [|s r st p st1 ps st2 R M IHM]; [reflexivity|].
    cbn [map]. now rewrite (field_pout _ _ _ _ _ R), IHM.
  Qed.

  Lemma node_pout : pout_spec (parse_node rec).
  Proof.
    intros j ns wh st d p st' H. apply parse_node_inv in H.
    destruct H as [s ns wh st d P|s ns wh st d P J|l ns wh st d ps st' M|kv t ns wh st d T P
                   |kv it ns wh st d p st' T I R|kv it ns wh st d p st' T I R
                   |kv ns wh st d ns' full syms ss T SN D SY SS ND parsed
                   |kv ns wh st d ns' full sz T SN D SZ parsed
                   |kv t ns wh st d ns' full fl fs st3 T TT SN D FL FS reckv].
    - left. unfold pout, pout_m. cbn [jfold]. now rewrite P.
    - left. unfold pout, pout_m. cbn [jfold]. now rewrite P.
    - left. rewrite pout_arr. now rewrite (members_pout _ _ _ _ _ M).
    - left. destruct (prim_not_complex _ P) as (N1 & N2 & N3 & N4 & N5 & N6).
      unfold pout. rewrite pout_m_obj. unfold pout_obj. rewrite T, N1, N2, N3, N4, N5, N6, P. cbn [orb]. reflexivity.
    - left. unfold pout. rewrite pout_m_obj. unfold pout_obj. rewrite T. cbn [String.eqb Ascii.eqb Bool.eqb].
      rewrite osubj_map, I. fold (pout ns it). pose proof (shaped_false _ _ (IH _ _ _ _ _ _ _ R)) as EP. subst p. reflexivity.
    - left. unfold pout. rewrite pout_m_obj. unfold pout_obj. rewrite T. cbn [String.eqb Ascii.eqb Bool.eqb].
      rewrite osubj_map, I. fold (pout ns it). pose proof (shaped_false _ _ (IH _ _ _ _ _ _ _ R)) as EP. subst p. reflexivity.
    - left. apply schema_name_spec in SN. destruct SN as (-> & -> & NM). subst parsed.
      unfold pout. rewrite pout_m_obj. unfold pout_obj, attrj. rewrite T, SY. cbn [String.eqb Ascii.eqb Bool.eqb]. reflexivity.
    - left. apply schema_name_spec in SN. destruct SN as (-> & -> & NM). subst parsed.
      unfold pout. rewrite pout_m_obj. unfold pout_obj, attrj. rewrite T, SZ. cbn [String.eqb Ascii.eqb Bool.eqb]. reflexivity.
    - apply schema_name_spec in SN. destruct SN as (-> & -> & NM).
      assert (Q : pout ns (JObj kv) = JObj reckv).
      { unfold pout. rewrite pout_m_obj. unfold pout_obj. rewrite T, jget_map.
        assert (FV : match jget "fields" kv, option_map pout_m (jget "fields" kv) with
                     | Some (JArr _), Some r => r PFields (spec_namespace ns kv) | _, _ => JArr [] end = JArr fs).
        { rewrite (fields_pout _ _ _ _ _ FS). destruct FL as [FL|[FL ->]]; rewrite FL; cbn [option_map]; [apply pout_fields|reflexivity]. }
        rewrite FV. subst reckv. unfold rbase, base_of, pbase.
        destruct TT as [-> | ->]; reflexivity. }
      rewrite Q. destruct wh; [right; eauto|left; reflexivity].
  Qed.
End PoutStep.

Theorem parse_rec_pout f : pout_spec (parse_rec f).
Proof.
  induction f as [|f IH]; cbn [parse_rec].
  - intros j ns wh st d p st' H. discriminate H.
  - apply node_pout. exact IH.
Qed.

(** ---- the table after the parse: untouched names keep their entry, every definition gets [pout] ---- *)
Definition entries_spec (rec : recfun) : Prop :=
  forall j ns wh st d p st', rec j ns wh st d = POk (p, st') -> NoDup (st_names st) ->
    (forall n, ~ In n (spec_names ns j) -> jget n (st_tbl st') = jget n (st_tbl st)) /\
    (forall n nsn node, In (n, (nsn, node)) (defs_of ns j) -> jget n (st_tbl st') = Some (pout nsn node)).

Lemma in_defs_names {A} (n : string) (x : A) (ds : list (string * A)) : In (n, x) ds -> In n (map fst ds).
Proof. intros I. change n with (fst (n, x)). now apply in_map. Qed.

Lemma in_defs_concat n x m ns l :
  In (n, x) (concat (map (fun f => defs_of_m f m ns) l)) -> In n (concat (map (fun f => spec_names_m f m ns) l)).
Proof.
  induction l as [|f r IH]; cbn [map concat]; [auto|]. intros I. apply in_app_or in I. apply in_or_app.
  destruct I as [I|I]; [left|right; auto]. rewrite <- defs_names. eapply in_defs_names; eauto.
Qed.

Section EntriesStep.
  Variable rec : recfun.
  Hypothesis IHn : names_spec rec.
  Hypothesis IHd : nodup_spec rec.
  Hypothesis IHp : pout_spec rec.
  Hypothesis IHe : entries_spec rec.

  Lemma nodup_app_disjoint (a b : list string) x : NoDup (a ++ b) -> In x a -> ~ In x b.
  Proof.
    induction a as [|y a IH]; intros N I; [destruct I|].
    cbn [app] in N. inversion N as [|? ? NI N']; subst. destruct I as [->|I]; [|auto].
    intros Ib. apply NI. apply in_or_app. now right.
  Qed.

  Lemma members_entries ns l st ps st' : members_ok rec ns l st ps st' -> NoDup (st_names st) ->
    NoDup (st_names st') /\
    st_names st' = (st_names st ++ concat (map (spec_names ns) l))%list /\
    (forall n, ~ In n (concat (map (spec_names ns) l)) -> jget n (st_tbl st') = jget n (st_tbl st)) /\
    (forall n nsn node, In (n, (nsn, node)) (concat (map (defs_of ns) l)) -> jget n (st_tbl st') = Some (pout nsn node)).
  Proof.
    induction 1 as [st|s r st p st1 ps st2 R M IHM]; intros N; cbn [map concat].
    - rewrite app_nil_r. repeat split; auto. intros n nsn node [].
    - destruct (IHn _ _ _ _ _ _ _ R) as [A1 _]. pose proof (IHd _ _ _ _ _ _ _ R N) as N1.
      destruct (IHe _ _ _ _ _ _ _ R N) as [a1 b1]. destruct (IHM N1) as (N2 & A2 & a2 & b2).
      split; [exact N2|]. split; [now rewrite A2, A1, app_assoc|]. split.
      + intros n NI. rewrite a2, a1; [reflexivity| |]; intros I; apply NI; apply in_or_app; auto.
      + intros n nsn node I. apply in_app_or in I. destruct I as [I|I]; [|eauto].
        rewrite a2; [eauto|]. rewrite A2 in N2. apply (nodup_app_disjoint _ _ n N2).
        rewrite A1. apply in_or_app. right. unfold spec_names. rewrite <- defs_names. eapply in_defs_names; eauto.
  Qed.

  Lemma field_entries ns fd st p st' : field_ok rec ns fd st p st' -> NoDup (st_names st) ->
    NoDup (st_names st') /\
    st_names st' = (st_names st ++ spec_names_m fd PField ns)%list /\
    (forall n, ~ In n (spec_names_m fd PField ns) -> jget n (st_tbl st') = jget n (st_tbl st)) /\
    (forall n nsn node, In (n, (nsn, node)) (defs_of_m fd PField ns) -> jget n (st_tbl st') = Some (pout nsn node)).
  Proof.
    intros F N. destruct F as [fkv nm ty st p st1 NM T R].
    destruct (IHn _ _ _ _ _ _ _ R) as [A1 _]. pose proof (IHd _ _ _ _ _ _ _ R N) as N1.
    destruct (IHe _ _ _ _ _ _ _ R N) as [a1 b1].
    rewrite spec_names_m_obj, defs_of_m_obj. cbv beta iota zeta. rewrite T. auto.
  Qed.

  Lemma fields_entries ns l st ps st' : fields_ok rec ns l st ps st' -> NoDup (st_names st) ->
    NoDup (st_names st') /\
    st_names st' = (st_names st ++ concat (map (fun f => spec_names_m f PField ns) l))%list /\
    (forall n, ~ In n (concat (map (fun f => spec_names_m f PField ns) l)) -> jget n (st_tbl st') = jget n (st_tbl st)) /\
    (forall n nsn node, In (n, (nsn, node)) (concat (map (fun f => defs_of_m f PField ns) l)) ->
                        jget n (st_tbl st') = Some (pout nsn node)).
  Proof.
    induction 1 as [st|s r st p st1 ps st2 R M IHM]; intros N; cbn [map concat].
    - rewrite app_nil_r. repeat split; auto. intros n nsn node [].
    - destruct (field_entries _ _ _ _ _ R N) as (N1 & A1 & a1 & b1). destruct (IHM N1) as (N2 & A2 & a2 & b2).
      split; [exact N2|]. split; [now rewrite A2, A1, app_assoc|]. split.
      + intros n NI. rewrite a2, a1; [reflexivity| |]; intros I; apply NI; apply in_or_app; auto.
      + intros n nsn node I. apply in_app_or in I. destruct I as [I|I]; [|eauto].
        rewrite a2; [eauto|]. rewrite A2 in N2. apply (nodup_app_disjoint _ _ n N2).
        rewrite A1. apply in_or_app. right. rewrite <- defs_names. eapply in_defs_names; eauto.
  Qed.

  Lemma node_entries : entries_spec (parse_node rec).
  Proof.
    intros j ns wh st d p st' H N. pose proof H as H0. apply parse_node_inv in H.
    destruct H as [s ns wh st d P|s ns wh st d P J|l ns wh st d ps st' M|kv t ns wh st d T P
                   |kv it ns wh st d p st' T I R|kv it ns wh st d p st' T I R
                   |kv ns wh st d ns' full syms ss T SN D SY SS ND parsed
                   |kv ns wh st d ns' full sz T SN D SZ parsed
                   |kv t ns wh st d ns' full fl fs st3 T TT SN D FL FS reckv].
    - split; [auto|intros n nsn node []].
    - split; [auto|intros n nsn node []].
    - destruct (members_entries _ _ _ _ _ M N) as (_ & _ & a & b).
      unfold spec_names, defs_of. rewrite spec_names_m_arr, defs_of_m_arr. split; [exact a|exact b].
    - destruct (prim_not_complex _ P) as (N1 & N2 & N3 & N4 & N5 & N6).
      split; [auto|]. unfold defs_of. rewrite defs_of_m_obj. cbv beta iota zeta.
      rewrite !(type_is_get _ _ _ T), N1, N2, N3, N4, N5, N6. intros n nsn node [].
    - destruct (IHe _ _ _ _ _ _ _ R N) as [a b].
      unfold spec_names, defs_of. rewrite spec_names_m_obj, defs_of_m_obj. cbv beta iota zeta.
      rewrite !(type_is_get _ _ _ T). cbn [String.eqb Ascii.eqb Bool.eqb]. rewrite I. split; [exact a|exact b].
    - destruct (IHe _ _ _ _ _ _ _ R N) as [a b].
      unfold spec_names, defs_of. rewrite spec_names_m_obj, defs_of_m_obj. cbv beta iota zeta.
      rewrite !(type_is_get _ _ _ T). cbn [String.eqb Ascii.eqb Bool.eqb]. rewrite I. split; [exact a|exact b].
    - (* enum *)
      apply schema_name_spec in SN. destruct SN as (-> & -> & NM).
      assert (PO : pout ns (JObj kv) = parsed).
      { subst parsed. unfold pout. rewrite pout_m_obj. unfold pout_obj, attrj. rewrite T, SY. reflexivity. }
      unfold spec_names, defs_of. rewrite spec_names_m_obj, defs_of_m_obj. cbv beta iota zeta.
      rewrite !(type_is_get _ _ _ T). cbn [String.eqb Ascii.eqb Bool.eqb orb set_tbl declared st_tbl]. split.
      + intros n NI. rewrite jget_jset_neq; [reflexivity|]. apply String.eqb_neq. intros ->. apply NI. now left.
      + intros n nsn node [X|[]]. injection X as <- <- <-. rewrite jget_jset_eq. now rewrite PO.
    - (* fixed *)
      apply schema_name_spec in SN. destruct SN as (-> & -> & NM).
      assert (PO : pout ns (JObj kv) = parsed).
      { subst parsed. unfold pout. rewrite pout_m_obj. unfold pout_obj, attrj. rewrite T, SZ. reflexivity. }
      unfold spec_names, defs_of. rewrite spec_names_m_obj, defs_of_m_obj. cbv beta iota zeta.
      rewrite !(type_is_get _ _ _ T). cbn [String.eqb Ascii.eqb Bool.eqb orb set_tbl declared st_tbl]. split.
      + intros n NI. rewrite jget_jset_neq; [reflexivity|]. apply String.eqb_neq. intros ->. apply NI. now left.
      + intros n nsn node [X|[]]. injection X as <- <- <-. rewrite jget_jset_eq. now rewrite PO.
    - (* record / error *)
      apply schema_name_spec in SN. destruct SN as (-> & -> & NM).
      assert (PO : pout ns (JObj kv) = JObj reckv).
      { unfold pout. rewrite pout_m_obj. unfold pout_obj. rewrite T, jget_map.
        assert (FV : match jget "fields" kv, option_map pout_m (jget "fields" kv) with
                     | Some (JArr _), Some r => r PFields (spec_namespace ns kv) | _, _ => JArr [] end = JArr fs).
        { rewrite (fields_pout rec IHp _ _ _ _ _ FS). destruct FL as [FL|[FL ->]]; rewrite FL; cbn [option_map]; [apply pout_fields|reflexivity]. }
        rewrite FV. subst reckv. unfold rbase, base_of, pbase. destruct TT as [-> | ->]; reflexivity. }
      assert (N2 : NoDup (st_names (set_tbl (spec_fullname ns kv) (JObj (rbase kv t (spec_fullname ns kv) ns)) (declared (spec_fullname ns kv) st)))).
      { cbn [set_tbl declared st_names]. now apply nodup_snoc. }
      destruct (fields_entries _ _ _ _ _ FS N2) as (N3 & A3 & a3 & b3).
      cbn [set_tbl declared st_names st_tbl] in A3, a3.
      assert (SF : match jget "fields" kv with
                   | Some v => spec_names_m v PFields (spec_namespace ns kv) | None => [] end
                   = concat (map (fun f => spec_names_m f PField (spec_namespace ns kv)) fl)).
      { destruct FL as [FL|[FL ->]]; rewrite FL; [apply spec_names_m_arr|reflexivity]. }
      assert (DF : match jget "fields" kv with
                   | Some v => defs_of_m v PFields (spec_namespace ns kv) | None => [] end
                   = concat (map (fun f => defs_of_m f PField (spec_namespace ns kv)) fl)).
      { destruct FL as [FL|[FL ->]]; rewrite FL; [apply defs_of_m_arr|reflexivity]. }
      unfold spec_names, defs_of. rewrite spec_names_m_obj, defs_of_m_obj. cbv beta iota zeta.
      rewrite !(type_is_get _ _ _ T), SF, DF.
      assert (TYP : String.eqb t "array" = false /\ String.eqb t "map" = false /\ (String.eqb t "enum" || String.eqb t "fixed") = false /\
                    (String.eqb t "record" || String.eqb t "error") = true) by (destruct TT as [-> | ->]; repeat split; reflexivity).
      destruct TYP as (Y1 & Y2 & Y3 & Y4). rewrite Y1, Y2, Y3, Y4. cbn [set_tbl st_tbl]. split.
      + intros n NI. assert (NE : n <> spec_fullname ns kv) by (intros ->; apply NI; now left).
        rewrite jget_jset_neq by (now apply String.eqb_neq). rewrite a3 by (intros X; apply NI; now right).
        rewrite jget_jset_neq by (now apply String.eqb_neq). reflexivity.
      + intros n nsn node [X|X].
        * injection X as <- <- <-. rewrite jget_jset_eq. now rewrite PO.
        * assert (NE : n <> spec_fullname ns kv).
          { intros ->. rewrite A3 in N3. apply (nodup_app_disjoint _ _ (spec_fullname ns kv) N3).
            - apply in_or_app. right. now left.
            - eapply in_defs_concat; eauto. }
          rewrite jget_jset_neq by (now apply String.eqb_neq). eauto.
  Qed.
End EntriesStep.

(** all four invariants together, by induction on the fuel *)
Theorem parse_rec_entries_pout f : entries_spec (parse_rec f).
Proof.
  induction f as [|f IH]; cbn [parse_rec].
  - intros j ns wh st d p st' H. discriminate H.
  - apply node_entries; [apply parse_rec_names|apply parse_rec_nodup|apply parse_rec_pout|exact IH].
Qed.
