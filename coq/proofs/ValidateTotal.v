(** C10: for schemas whose by-name references all resolve (closed_refs / closed_env, what parse_schema guarantees) the
    validator never raises a foreign exception: it answers True / False (resp. returns / raises ValidationError) or needs
    more fuel; hence the writer's branch search never fails with a foreign exception either. *)
From Coq Require Import String Lia ZifyBool.
From FA Require Import model.Base model.Varint model.Value model.Schema model.Utf8 model.Float model.Codec
                       model.Validate model.Write model.Read model.Conform proofs.VarintProofs proofs.CodecProofs proofs.ElabProofs.

Section NoErr.
  Variable rec : schema -> option pyval -> res bool.

  Lemma all_items_noerr s l : (forall x, rec s (Some x) <> Err) -> all_items rec s l <> Err.
  Proof.
    intros H. induction l as [|x l IH]; cbn [all_items]; [discriminate|].
    specialize (H x). destruct (rec s (Some x)) as [[|]| |]; cbn [bind]; try discriminate; [exact IH|contradiction].
  Qed.
  Lemma all_fields_noerr kv fs : (forall fd ov, In fd fs -> rec (ftype fd) ov <> Err) -> all_fields rec kv fs <> Err.
  Proof.
    induction fs as [|fd fs IH]; intros H; cbn [all_fields]; [discriminate|].
    pose proof (H fd (match dict_get kv (fname fd) with Some v => Some v | None => fdefault fd end) (or_introl eq_refl)) as H0.
    destruct (rec (ftype fd) _) as [[|]| |]; cbn [bind]; try discriminate; [|contradiction].
    apply IH. intros fd0 ov Hin. apply H. right. exact Hin.
  Qed.
  Lemma any_branch_noerr pass v bs : (forall b, In b bs -> rec b (Some v) <> Err) -> any_branch rec pass v bs <> Err.
  Proof.
    induction bs as [|b bs IH]; intros H; cbn [any_branch]; [discriminate|].
    assert (IH' := IH (fun b0 H0 => H b0 (or_intror H0))). destruct (pass b); cbn [negb]; [|exact IH'].
    pose proof (H b (or_introl eq_refl)) as H0. destruct (rec b (Some v)) as [[|]| |]; cbn [bind]; try discriminate; [exact IH'|contradiction].
  Qed.
  Lemma hinted_noerr name v bs : (forall b, In b bs -> rec b (Some v) <> Err) -> hinted rec name v bs <> Err.
  Proof.
    induction bs as [|b bs IH]; intros H; cbn [hinted]; [discriminate|].
    assert (IH' := IH (fun b0 H0 => H b0 (or_intror H0))). destruct name; try exact IH'.
    destruct (bytes_eqb (branch_name b) s); [apply H; left; reflexivity|exact IH'].
  Qed.
End NoErr.

Lemma closed_lookup e n s : closed_env e = true -> lookup e n = Some s -> closed_refs e s = true.
Proof. unfold closed_env. intros H Hl. rewrite forallb_forall in H. destruct (lookup_in _ _ _ Hl) as [k Hin]. exact (H _ Hin). Qed.

Theorem validate_no_err o e : closed_env e = true -> forall f s ov, closed_refs e s = true -> validate f o e s ov <> Err.
Proof.
  intros He. induction f as [|f IH]; intros s ov Hs; [discriminate|]. cbn [validate].
  destruct ov as [v|]; [|destruct (strict o); [discriminate|apply IH; exact Hs]].
  destruct s; try discriminate; cbn [closed_refs] in Hs.
  - destruct (as_sequence v); [|discriminate]. apply all_items_noerr. intros x. apply IH. exact Hs.
  - destruct v; try discriminate. destruct (forallb is_str_key kv); [|discriminate]. apply all_items_noerr. intros x. apply IH. exact Hs.
  - rewrite forallb_forall in Hs.
    assert (HA : forall x, any_branch (validate f o e) (hint_pass e x) x bs <> Err).
    { intros x. apply any_branch_noerr. intros b Hb. apply IH. apply Hs. exact Hb. }
    destruct v; try apply HA. destruct (disable_tuple o); [apply HA|].
    destruct l as [|name [|x [|? ?]]]; try discriminate. apply hinted_noerr. intros b Hb. apply IH. apply Hs. exact Hb.
  - destruct v; try discriminate.
    destruct (match dict_get kv (s2b "-type") with Some (PStr t) => bytes_eqb t n | Some _ => false | None => true end); [|discriminate].
    apply all_fields_noerr. rewrite forallb_forall in Hs. intros fd ov Hin. apply IH. apply Hs. exact Hin.
  - destruct (lookup e n) as [s'|] eqn:El; [|discriminate]. apply IH. eapply closed_lookup; eassumption.
  - apply IH. exact Hs.
Qed.

(* raise_errors=True: only ValidationError *)
Corollary validate_raise_no_err o e f s ov : closed_env e = true -> closed_refs e s = true -> validate_raise f o e s ov <> VErr.
Proof.
  intros He Hs. rewrite validate_raise_eq. pose proof (validate_no_err o e He f s ov Hs).
  destruct (validate f o e s ov) as [[|]| |]; cbn [vres_of]; try discriminate. contradiction.
Qed.

(* the writer's branch search never fails with a foreign exception *)
Theorem search_no_err f o e bs v : closed_env e = true -> forallb (closed_refs e) bs = true ->
  forall i best most cbf, choose (fun c x => validate f o e c (Some x)) e v bs i best most cbf <> Err.
Proof.
  intros He Hbs. rewrite forallb_forall in Hbs. induction bs as [|c bs IH]; intros i best most cbf; cbn [choose]; [discriminate|].
  assert (IH' := IH (fun b H => Hbs b (or_intror H))).
  destruct (hint_pass e v c); cbn [negb]; [|apply IH'].
  destruct cbf; [destruct (is_double c); [discriminate|apply IH']|].
  pose proof (validate_no_err o e He f c (Some v) (Hbs c (or_introl eq_refl))) as H0.
  destruct (validate f o e c (Some v)) as [[|]| |]; cbn [bind negb]; try discriminate; [|apply IH'|contradiction].
  destruct (match strip c with SRef n => match lookup e n with Some d => strip d | None => strip c end | d => d end);
    try discriminate; try apply IH'.
  destruct (most <? _); apply IH'.
Qed.
