(** Container files: the reader returns exactly the records of every well-formed sequence of blocks;
    every history of writer operations keeps the stream well formed and append-only. *)
From Coq Require Import Lia ZifyBool String.
From FA Require Import model.Base model.Varint model.Value model.Schema model.Utf8 model.Codec model.Container
                       proofs.VarintProofs proofs.CodecProofs.
Open Scope Z_scope.

Lemma bytes_eqb_refl : forall b, Forall is_byte b -> bytes_eqb b b = true.
Proof. induction 1 as [|x b Hx _ IH]; cbn [bytes_eqb]; [reflexivity|]. rewrite Z.eqb_refl, IH. reflexivity. Qed.

Lemma bytes_eqb_eq : forall a b, bytes_eqb a b = true -> a = b.
Proof.
  induction a as [|x a IH]; intros [|y b] H; cbn [bytes_eqb] in H; try discriminate; [reflexivity|].
  apply andb_prop in H. destruct H as [H1 H2]. apply Z.eqb_eq in H1. subst. f_equal. apply IH. exact H2.
Qed.

Lemma bytes_eqb_neq : forall a b, a <> b -> bytes_eqb a b = false.
Proof. intros a b H. destruct (bytes_eqb a b) eqn:E; [|reflexivity]. apply bytes_eqb_eq in E. contradiction. Qed.

Section ContainerProofs.
  Variable compress : bytes -> bytes.
  Variable decompress : bytes -> res bytes.
  Hypothesis codec_rt : forall b, decompress (compress b) = Ok b.
  Variable e : env.
  Variable s : schema.
  Variable n : nat.                      (* typing height bound of the records *)
  Variable fuel : nat.
  Hypothesis fuel_ok : (n <= fuel)%nat.
  Variable sync : bytes.
  Hypothesis sync_len : length sync = 16%nat.
  Hypothesis sync_ok : Forall is_byte sync.

  Notation block_bytes := (block_bytes compress).
  Notation block_records := (block_records e s fuel).
  Notation read_blocks := (read_blocks decompress e s fuel).
  Notation read_container := (read_container decompress e s fuel).

  (** a block: its announced count, its uncompressed payload, the records the reader gets out of it *)
  Record blk := mkBlk { bcount : Z; braw : bytes; brecs : list aval }.
  (* a payload length is an Avro long: a block whose compressed payload reached 2^63 bytes could not be framed *)
  Definition small (raw : bytes) : Prop := len (compress raw) < 2 ^ 63.
  Definition good_blk (b : blk) : Prop :=
    in_int64 (bcount b) /\ small (braw b) /\ block_records (bcount b) (braw b) = Ok (brecs b).
  Definition blk_bytes (b : blk) : bytes := block_bytes sync (bcount b) (braw b).

  Lemma take_sync rest : take 16 (sync ++ rest) = Some (sync, rest).
  Proof. rewrite <- sync_len. apply take_app. Qed.

  Lemma read_one_block b rest k :
    good_blk b ->
    read_blocks (S k) sync (blk_bytes b ++ rest) =
    (let (l', oc) := read_blocks k sync rest in (brecs b ++ l', oc)).
  Proof.
    intros (Hc & Hsm & Hr). unfold blk_bytes, Container.block_bytes.
    cbn [Container.read_blocks].
    destruct ((long_enc (bcount b) ++ enc_bytes (compress (braw b)) ++ sync) ++ rest) as [|x xs] eqn:E.
    { exfalso. apply app_eq_nil in E. destruct E as [E _]. apply app_eq_nil in E. destruct E as [E _].
      exact (long_enc_nonempty _ E). }
    rewrite <- E. rewrite <- !app_assoc. rewrite long_rt by exact Hc.
    rewrite dec_bytes_ok by exact Hsm. rewrite codec_rt, Hr, take_sync.
    rewrite bytes_eqb_refl by exact sync_ok. reflexivity.
  Qed.

  Theorem read_blocks_ok : forall bls k, (length bls < k)%nat -> Forall good_blk bls ->
    read_blocks k sync (flat_map blk_bytes bls) = (flat_map brecs bls, EndOK).
  Proof.
    induction bls as [|b bls IH]; intros k Hk H.
    - destruct k; [cbn [length] in Hk; lia|]. reflexivity.
    - destruct k as [|k]; [cbn [length] in Hk; lia|]. inversion H as [|? ? Hb Hr]; subst.
      cbn [flat_map]. rewrite read_one_block by exact Hb.
      rewrite IH; [reflexivity|cbn [length] in Hk; lia|exact Hr].
  Qed.

  (** blocks the writer produces *)
  Lemma recs_block (rs : list aval) : Forall (typedn n e s) rs -> len rs < 2 ^ 63 -> small (flat_map wire rs) ->
    good_blk (mkBlk (len rs) (flat_map wire rs) rs).
  Proof.
    intros Ht Hl Hsm. split; [|split; [exact Hsm|]]; cbn [bcount braw brecs]; [apply len_int64; exact Hl|].
    unfold Container.block_records.
    pose proof (items_Z_ok (dec fuel e s) wire (fun a => a) rs) as H.
    rewrite <- (app_nil_r (flat_map wire rs)). rewrite H.
    - cbn [bind]. rewrite map_id. reflexivity.
    - eapply Forall_impl; [|exact Ht]. intros a Ha r. apply (wire_dec n); assumption.
  Qed.

  Lemma donor_block (ls : list lval) : Forall (typedl n e s) ls -> len ls < 2 ^ 63 -> small (flat_map wire_l ls) ->
    good_blk (mkBlk (len ls) (flat_map wire_l ls) (map erase ls)).
  Proof.
    intros Ht Hl Hsm. split; [|split; [exact Hsm|]]; cbn [bcount braw brecs]; [apply len_int64; exact Hl|].
    unfold Container.block_records.
    pose proof (items_Z_ok (dec fuel e s) wire_l erase ls) as H.
    rewrite <- (app_nil_r (flat_map wire_l ls)). rewrite H; [reflexivity|].
    eapply Forall_impl; [|exact Ht]. intros a Ha r. apply (wire_l_dec n); assumption.
  Qed.

  (** header *)
  Definition meta_ok (meta : list (bytes * bytes)) : Prop :=
    len meta < 2 ^ 63 /\ Forall (fun kv => key_ok (fst kv) /\ bytes_ok (snd kv)) meta.

  Lemma header_typed meta : meta_ok meta -> typedn 3 [] HEADER_SCHEMA (header_val meta sync).
  Proof.
    intros [Hl Hm]. unfold HEADER_SCHEMA, header_val. cbn [typedn].
    constructor; [|constructor; [|constructor; [|constructor]]]; cbn [ftype typedn].
    - split; [reflexivity|]. split; [repeat constructor; unfold is_byte; lia|cbv; reflexivity].
    - unfold meta_val. split; [unfold len in *; rewrite map_length; exact Hl|].
      apply Forall_map. eapply Forall_impl; [|exact Hm]. intros kv [Hk Hv]. cbn [fst snd]. split; [exact Hk|exact Hv].
    - split; [unfold len; rewrite sync_len; reflexivity|]. split; [exact sync_ok|unfold len; rewrite sync_len; lia].
  Qed.

  Lemma read_header_ok meta rest hf : meta_ok meta -> (3 <= hf)%nat ->
    read_header hf (header_bytes meta sync ++ rest) =
    Ok (map (fun kv => (fst kv, ABytes (snd kv))) meta, sync, rest).
  Proof.
    intros Hm Hf. unfold read_header, header_bytes.
    rewrite (wire_dec 3 [] HEADER_SCHEMA _ (header_typed meta Hm) hf Hf rest). reflexivity.
  Qed.

  (** C05_accepts / C04: a header followed by ANY sequence of well-formed blocks (any grouping of the
      records, empty blocks included) reads back as exactly the records, and ends normally *)
  Theorem read_container_ok meta bls hf k : meta_ok meta -> (3 <= hf)%nat -> (length bls < k)%nat ->
    Forall good_blk bls ->
    read_container hf k (header_bytes meta sync ++ flat_map blk_bytes bls) = (flat_map brecs bls, EndOK).
  Proof.
    intros Hm Hf Hk Hb. unfold Container.read_container. rewrite read_header_ok by assumption.
    apply read_blocks_ok; assumption.
  Qed.

  (** ---- the writer ---- *)
  Notation wstep := (wstep compress sync).
  Notation flush := (flush compress sync).
  Notation dump := (dump compress sync).

  Definition op_ok (o : wop) : Prop :=
    match o with
    | OWrite a => typedn n e s a
    | OBlock ls => Forall (typedl n e s) ls /\ len ls < 2 ^ 63
    | _ => True
    end.

  (* the stream is a header followed by good blocks; the pending buffer holds exactly the pending records *)
  Definition Inv (meta : list (bytes * bytes)) (st : wstate) (subm : list aval) : Prop :=
    exists bls pend,
      Forall good_blk bls /\
      out st = header_bytes meta sync ++ flat_map blk_bytes bls /\
      buf st = flat_map wire pend /\ cnt st = len pend /\ Forall (typedn n e s) pend /\
      subm = flat_map brecs bls ++ pend.

  Lemma inv_create meta si : Inv meta (wcreate sync meta si) [].
  Proof. exists [], []. unfold wcreate. cbn [out buf cnt flat_map app]. rewrite app_nil_r. repeat split; apply Forall_nil. Qed.

  Lemma inv_dump meta st subm : len subm < 2 ^ 63 -> small (buf st) -> Inv meta st subm ->
    exists bls, Forall good_blk bls /\ out (dump st) = header_bytes meta sync ++ flat_map blk_bytes bls /\
                buf (dump st) = [] /\ cnt (dump st) = 0 /\ subm = flat_map brecs bls.
  Proof.
    intros Hl Hsm (bls & pend & Hb & Ho & Hbuf & Hc & Hp & Hs).
    exists (bls ++ [mkBlk (len pend) (flat_map wire pend) pend]).
    assert (Hlp : len pend < 2 ^ 63).
    { subst subm. rewrite len_app in Hl. pose proof (len_nonneg (flat_map brecs bls)). lia. }
    split; [|split; [|split; [|split]]].
    - apply Forall_app. split; [exact Hb|]. constructor; [|constructor]. apply recs_block; try assumption. rewrite <- Hbuf. exact Hsm.
    - unfold Container.dump. cbn [out]. rewrite Ho, Hbuf, Hc, flat_map_app. cbn [flat_map].
      rewrite app_nil_r, <- app_assoc. reflexivity.
    - reflexivity.
    - reflexivity.
    - rewrite flat_map_app. cbn [flat_map brecs]. rewrite app_nil_r. exact Hs.
  Qed.

  Lemma pending_false st pend : buf st = flat_map wire pend -> cnt st = len pend ->
    pending st = false -> pend = [].
  Proof.
    unfold pending. intros Hb Hc Hp. apply orb_false_elim in Hp. destruct Hp as [_ Hp].
    destruct pend; [reflexivity|]. rewrite Hc, len_cons in Hp. pose proof (len_nonneg pend). lia.
  Qed.

  Lemma inv_flush meta st subm : len subm < 2 ^ 63 -> (pending st = true -> small (buf st)) -> Inv meta st subm ->
    exists bls, Forall good_blk bls /\ out (flush st) = header_bytes meta sync ++ flat_map blk_bytes bls /\
                buf (flush st) = [] /\ cnt (flush st) = 0 /\ subm = flat_map brecs bls.
  Proof.
    intros Hl Hsm HI. unfold Container.flush. destruct (pending st) eqn:Ep; [apply inv_dump; auto|].
    destruct HI as (bls & pend & Hb & Ho & Hbuf & Hc & Hp & Hs).
    pose proof (pending_false st pend Hbuf Hc Ep) as ->.
    exists bls. cbn [flat_map] in Hbuf. rewrite app_nil_r in Hs. repeat split; assumption.
  Qed.

  Lemma flushed_inv meta st subm bls : Forall good_blk bls ->
    out st = header_bytes meta sync ++ flat_map blk_bytes bls -> buf st = [] -> cnt st = 0 ->
    subm = flat_map brecs bls -> Inv meta st subm.
  Proof.
    intros Hb Ho Hbuf Hc Hs. exists bls, []. cbn [flat_map]. rewrite app_nil_r. repeat split; try assumption. constructor.
  Qed.

  (* every payload this step emits is framable *)
  Definition small_step (st : wstate) (o : wop) : Prop :=
    match o with
    | OWrite a => sint st <= len (buf st ++ wire a) -> small (buf st ++ wire a)
    | OWriteBad => True
    | OFlush | OReopen _ => pending st = true -> small (buf st)
    | OBlock ls => (pending st = true -> small (buf st)) /\ small (flat_map wire_l ls)
    end.

  Theorem inv_step meta st subm o : len (subm ++ submitted_of o) < 2 ^ 63 -> op_ok o -> small_step st o ->
    Inv meta st subm -> Inv meta (wstep st o) (subm ++ submitted_of o).
  Proof.
    intros Hl Hok Hsm HI. destruct o; cbn [Container.wstep submitted_of small_step] in *.
    - (* write *)
      assert (HI' : Inv meta (mkW (out st) (buf st ++ wire a) (cnt st + 1) (sint st)) (subm ++ [a])).
      { destruct HI as (bls & pend & Hb & Ho & Hbuf & Hc & Hp & Hs). exists bls, (pend ++ [a]).
        cbn [out buf cnt]. rewrite flat_map_app, Hbuf, Hc, len_app. cbn [flat_map]. rewrite app_nil_r.
        repeat split; try assumption.
        - apply Forall_app. split; [exact Hp|apply Forall_cons; [exact Hok|apply Forall_nil]].
        - rewrite Hs, app_assoc. reflexivity. }
      cbn [buf]. destruct (sint st <=? len (buf st ++ wire a)) eqn:Esi; [|exact HI'].
      assert (Hs' : small (buf (mkW (out st) (buf st ++ wire a) (cnt st + 1) (sint st)))) by (cbn [buf]; apply Hsm; lia).
      destruct (inv_dump meta _ _ Hl Hs' HI') as (bls & H1 & H2 & H3 & H4 & H5).
      eapply flushed_inv; eassumption.
    - rewrite app_nil_r. exact HI.
    - rewrite app_nil_r in *. destruct (inv_flush meta _ _ Hl Hsm HI) as (bls & H1 & H2 & H3 & H4 & H5).
      eapply flushed_inv; eassumption.
    - (* write_block *)
      destruct Hok as [Hls Hlen]. destruct Hsm as [Hsm1 Hsm2].
      assert (Hl0 : len subm < 2 ^ 63).
      { rewrite len_app in Hl. pose proof (len_nonneg (map erase ls)). lia. }
      destruct (inv_flush meta _ _ Hl0 Hsm1 HI) as (bls & H1 & H2 & H3 & H4 & H5).
      apply (flushed_inv meta _ _ (bls ++ [mkBlk (len ls) (flat_map wire_l ls) (map erase ls)])).
      + apply Forall_app. split; [exact H1|]. constructor; [|constructor]. apply donor_block; assumption.
      + cbn [out]. rewrite H2, flat_map_app. cbn [flat_map]. rewrite app_nil_r, <- app_assoc. reflexivity.
      + reflexivity.
      + reflexivity.
      + rewrite flat_map_app. cbn [flat_map brecs]. rewrite app_nil_r, H5. reflexivity.
    - rewrite app_nil_r in *. destruct (inv_flush meta _ _ Hl Hsm HI) as (bls & H1 & H2 & H3 & H4 & H5).
      eapply flushed_inv; eassumption.
  Qed.

  (** every reachable state *)
  Definition run (st : wstate) (ops : list wop) : wstate := fold_left wstep ops st.
  Definition submitted (ops : list wop) : list aval := flat_map submitted_of ops.

  (* along the whole run, and for the final flush *)
  Fixpoint small_run (st : wstate) (ops : list wop) : Prop :=
    match ops with
    | [] => pending st = true -> small (buf st)
    | o :: ops => small_step st o /\ small_run (wstep st o) ops
    end.

  Theorem inv_run meta : forall ops st subm, len (subm ++ submitted ops) < 2 ^ 63 -> Forall op_ok ops ->
    small_run st ops -> Inv meta st subm ->
    Inv meta (run st ops) (subm ++ submitted ops) /\ (pending (run st ops) = true -> small (buf (run st ops))).
  Proof.
    induction ops as [|o ops IH]; intros st subm Hl Hok Hsm HI; cbn [run fold_left submitted flat_map small_run] in *.
    - rewrite app_nil_r. split; assumption.
    - inversion Hok as [|? ? Ho Hr]; subst. destruct Hsm as [Hs1 Hs2]. rewrite app_assoc in *.
      apply IH; [exact Hl|exact Hr|exact Hs2|]. apply inv_step; [|exact Ho|exact Hs1|exact HI].
      rewrite len_app in Hl. pose proof (len_nonneg (flat_map submitted_of ops)). lia.
  Qed.

  (** C07: after any history, a flush makes the stream read back as exactly the records submitted so far *)
  Theorem history_reads_back meta ops hf : meta_ok meta -> Forall op_ok ops ->
    forall si, small_run (wcreate sync meta si) ops ->
    len (submitted ops) < 2 ^ 63 -> (3 <= hf)%nat ->
    exists nb, forall k, (nb < k)%nat ->
      read_container hf k (out (flush (run (wcreate sync meta si) ops))) = (submitted ops, EndOK).
  Proof.
    intros Hm Hok si Hsm Hl Hf.
    destruct (inv_run meta ops _ [] Hl Hok Hsm (inv_create meta si)) as [HI Hfin]. cbn [app] in HI.
    destruct (inv_flush meta _ _ Hl Hfin HI) as (bls & H1 & H2 & _ & _ & H5).
    exists (length bls). intros k' Hk. rewrite H2, H5. apply read_container_ok; assumption.
  Qed.

  (** every operation only appends to the stream: header and earlier blocks never change *)
  Theorem wstep_appends st o : exists x, out (wstep st o) = out st ++ x.
  Proof.
    destruct o; cbn [Container.wstep].
    - destruct (sint st <=? _); cbn [Container.dump out]; eexists; [reflexivity|symmetry; apply app_nil_r].
    - exists []. symmetry. apply app_nil_r.
    - unfold Container.flush. destruct (pending st); cbn [Container.dump out]; eexists; [reflexivity|symmetry; apply app_nil_r].
    - unfold Container.flush. destruct (pending st); cbn [Container.dump out]; eexists; [rewrite <- app_assoc|]; reflexivity.
    - unfold Container.flush. destruct (pending st); cbn [Container.dump out]; eexists; [reflexivity|symmetry; apply app_nil_r].
  Qed.

  Theorem run_appends : forall ops st, exists x, out (run st ops) = out st ++ x.
  Proof.
    induction ops as [|o ops IH]; intros st; cbn [run fold_left].
    - exists []. symmetry. apply app_nil_r.
    - destruct (IH (wstep st o)) as [x Hx]. destruct (wstep_appends st o) as [y Hy].
      exists (y ++ x). unfold run in Hx. rewrite Hx, Hy, app_assoc. reflexivity.
  Qed.

  (** a failed write contributes nothing *)
  Theorem failed_write_noop st : wstep st OWriteBad = st.
  Proof. reflexivity. Qed.

  (** ---- truncation and marker corruption (C06) ---- *)
  Lemma varint_go_no_fuel : forall p a sh, varint_dec_go p a sh <> OutOfFuel.
  Proof. induction p as [|b p IH]; intros a sh; cbn [varint_dec_go]; [discriminate|]. destruct (_ =? _); [discriminate|apply IH]. Qed.

  Lemma long_dec_no_fuel p : long_dec p <> OutOfFuel.
  Proof.
    unfold long_dec, varint_dec. destruct p as [|b p]; [discriminate|].
    pose proof (varint_go_no_fuel (b :: p) 0 0) as H.
    destruct (varint_dec_go (b :: p) 0 0) as [[? ?]| |]; cbn [bind]; try discriminate. contradiction.
  Qed.

  Lemma skipn_nonempty {A} (l : list A) m : (m < length l)%nat -> skipn m l <> [].
  Proof. intros H E. pose proof (skipn_length m l) as L. rewrite E in L. cbn [length] in L. lia. Qed.

  Lemma long_dec_cut c m : in_int64 c -> (m < length (long_enc c))%nat -> long_dec (firstn m (long_enc c)) = Err.
  Proof.
    intros Hc Hm. destruct (long_dec (firstn m (long_enc c))) as [[z r]| |] eqn:E; [|reflexivity|].
    - exfalso. pose proof (long_ext _ (skipn m (long_enc c)) _ _ E) as H.
      rewrite firstn_skipn in H. pose proof (long_rt c [] Hc) as H2. rewrite app_nil_r in H2.
      rewrite H2 in H. injection H as _ H. symmetry in H. apply app_eq_nil in H. destruct H as [_ H].
      exact (skipn_nonempty _ _ Hm H).
    - exfalso. exact (long_dec_no_fuel _ E).
  Qed.

  Lemma take_short {A} k : forall (l : list A), (length l < k)%nat -> take k l = None.
  Proof.
    induction k as [|k IH]; intros l H; [lia|]. destruct l as [|x l]; [reflexivity|].
    cbn [take]. rewrite IH; [reflexivity|cbn [length] in H; lia].
  Qed.

  Lemma firstn_lt_length {A} (l : list A) m : (m < length l)%nat -> length (firstn m l) = m.
  Proof. intros H. apply firstn_length_le. lia. Qed.

  (* reading a cut block: X = firstn m (block), m < length block.  Either nothing is yielded and the
     reader raises (or ends, when m = 0), or -- the cut falls inside the trailing marker -- the block's own
     records are yielded and then it raises. *)
  Lemma read_cut_block b m k :
    good_blk b -> (m < length (blk_bytes b))%nat ->
    read_blocks (S k) sync (firstn m (blk_bytes b)) =
      if (m =? 0)%nat then ([], EndOK)
      else if (m <? length (long_enc (bcount b) ++ enc_bytes (compress (braw b))))%nat then ([], Raised)
      else (brecs b, Raised).
  Proof.
    intros (Hc & Hsm & Hr) Hm. unfold blk_bytes, Container.block_bytes in *. unfold small in Hsm.
    set (C := long_enc (bcount b)) in *. set (P := compress (braw b)) in *.
    destruct (Nat.eqb_spec m 0) as [->|Hm0]; [reflexivity|].
    rewrite app_assoc in Hm |- *. rewrite app_length in Hm.
    set (CP := C ++ enc_bytes P) in *.
    destruct (Nat.ltb_spec m (length CP)) as [Hlt|Hge].
    - (* cut inside count / length / payload *)
      rewrite firstn_app. replace (m - length CP)%nat with 0%nat by lia. cbn [firstn]. rewrite app_nil_r.
      subst CP. rewrite firstn_app.
      destruct (Nat.ltb_spec m (length C)) as [HltC|HgeC].
      + (* inside the count varint *)
        replace (m - length C)%nat with 0%nat by lia. cbn [firstn]. rewrite app_nil_r.
        cbn [Container.read_blocks].
        destruct (firstn m C) as [|x xs] eqn:E.
        { exfalso. assert (length (firstn m C) = m) by (apply firstn_lt_length; exact HltC). rewrite E in H. cbn in H. lia. }
        rewrite <- E. subst C. rewrite long_dec_cut by assumption. reflexivity.
      + rewrite firstn_all2 by lia. cbn [Container.read_blocks].
        destruct (C ++ firstn (m - length C) (enc_bytes P)) as [|x xs] eqn:E.
        { exfalso. apply app_eq_nil in E. destruct E as [E _]. subst C. exact (long_enc_nonempty _ E). }
        rewrite <- E. subst C. rewrite long_rt by exact Hc.
        set (j := (m - length (long_enc (bcount b)))%nat).
        assert (Hj : (j < length (enc_bytes P))%nat) by (rewrite app_length in Hlt; lia).
        unfold enc_bytes in *. rewrite firstn_app. unfold dec_bytes.
        destruct (Nat.ltb_spec j (length (long_enc (len P)))) as [HltL|HgeL].
        * replace (j - length (long_enc (len P)))%nat with 0%nat by lia. cbn [firstn]. rewrite app_nil_r.
          rewrite long_dec_cut; [reflexivity|apply len_int64; exact Hsm|exact HltL].
        * rewrite firstn_all2 by lia. rewrite long_rt by (apply len_int64; exact Hsm). cbn [bind].
          unfold read_n. pose proof (len_nonneg P). destruct (len P <? 0) eqn:E0; [lia|].
          rewrite take_short; [reflexivity|].
          rewrite app_length in Hj. rewrite firstn_length. unfold len in *. rewrite Nat2Z.id. lia.
    - (* cut inside the marker: the block's records are yielded, then the marker check fails *)
      rewrite firstn_app. rewrite (firstn_all2 CP) by lia.
      cbn [Container.read_blocks].
      destruct (CP ++ firstn (m - length CP) sync) as [|x xs] eqn:E.
      { exfalso. apply app_eq_nil in E. destruct E as [E _]. subst CP. apply app_eq_nil in E. destruct E as [E _].
        subst C. exact (long_enc_nonempty _ E). }
      rewrite <- E. subst CP C. rewrite <- app_assoc. rewrite long_rt by exact Hc.
      rewrite dec_bytes_ok by exact Hsm. subst P. rewrite codec_rt, Hr.
      rewrite take_short; [reflexivity|]. rewrite firstn_length. lia.
  Qed.

  Inductive is_prefix_of {A} : list A -> list A -> Prop :=
  | prefix_intro l r : is_prefix_of l (l ++ r).

  (* positions in the block area at which a block ends *)
  Fixpoint boundaries (bls : list blk) (off : nat) : list nat :=
    off :: match bls with [] => [] | b :: bls => boundaries bls (off + length (blk_bytes b)) end.

  Theorem read_cut_blocks : forall bls m k off, (length bls < k)%nat -> Forall good_blk bls ->
    forall out oc, read_blocks k sync (firstn m (flat_map blk_bytes bls)) = (out, oc) ->
      is_prefix_of out (flat_map brecs bls) /\
      (oc = EndOK -> In (off + Nat.min m (length (flat_map blk_bytes bls)))%nat (boundaries bls off)) /\
      oc <> NoFuel.
  Proof.
    induction bls as [|b bls IH]; intros m k off Hk Hg out oc H.
    - destruct k; [cbn [length] in Hk; lia|]. cbn [flat_map] in *. rewrite firstn_nil in H.
      cbn [Container.read_blocks] in H. injection H as <- <-. split; [exact (prefix_intro [] [])|].
      split; [|discriminate]. intros _. cbn [length boundaries]. rewrite Nat.min_0_r, Nat.add_0_r. left. reflexivity.
    - destruct k as [|k]; [cbn [length] in Hk; lia|]. inversion Hg as [|? ? Hb Hr]; subst.
      cbn [flat_map] in *. rewrite firstn_app in H.
      destruct (Nat.ltb_spec m (length (blk_bytes b))) as [Hlt|Hge].
      + replace (m - length (blk_bytes b))%nat with 0%nat in H by lia. cbn [firstn] in H. rewrite app_nil_r in H.
        rewrite read_cut_block in H by assumption.
        rewrite app_length. replace (Nat.min m (length (blk_bytes b) + length (flat_map blk_bytes bls))) with m by lia.
        destruct (m =? 0)%nat eqn:E0.
        * injection H as <- <-. split; [exact (prefix_intro [] _)|]. split; [|discriminate].
          intros _. apply Nat.eqb_eq in E0. subst m. cbn [boundaries]. left. lia.
        * destruct (m <? _)%nat; injection H as <- <-.
          -- split; [exact (prefix_intro [] _)|]. split; discriminate.
          -- split; [apply prefix_intro|]. split; discriminate.
      + rewrite firstn_all2 in H by lia. rewrite read_one_block in H by exact Hb.
        destruct (read_blocks k sync (firstn (m - length (blk_bytes b)) (flat_map blk_bytes bls))) as [l' oc'] eqn:E.
        injection H as <- <-.
        destruct (IH (m - length (blk_bytes b))%nat k (off + length (blk_bytes b))%nat ltac:(cbn [length] in Hk; lia) Hr _ _ E)
          as (Hp & Hend & Hnf).
        split; [|split].
        * destruct Hp as [l r]. rewrite app_assoc. apply prefix_intro.
        * intros Hoc. specialize (Hend Hoc). cbn [boundaries]. right.
          rewrite app_length.
          replace (off + Nat.min m (length (blk_bytes b) + length (flat_map blk_bytes bls)))%nat
            with (off + length (blk_bytes b) + Nat.min (m - length (blk_bytes b)) (length (flat_map blk_bytes bls)))%nat by lia.
          exact Hend.
        * exact Hnf.
  Qed.

  (** altering the trailing marker of block j: the records of blocks 1..j are yielded, then the reader raises *)
  Theorem read_bad_sync : forall pre b bad post k, (length pre < k)%nat -> Forall good_blk pre -> good_blk b ->
    length bad = 16%nat -> bad <> sync ->
    read_blocks k sync (flat_map blk_bytes pre ++ (long_enc (bcount b) ++ enc_bytes (compress (braw b)) ++ bad) ++ post)
    = (flat_map brecs pre ++ brecs b, Raised).
  Proof.
    induction pre as [|p pre IH]; intros b bad post k Hk Hp (Hc & Hsm & Hr) Hbl Hne.
    - destruct k as [|k]; [cbn [length] in Hk; lia|]. cbn [flat_map app].
      cbn [Container.read_blocks].
      destruct ((long_enc (bcount b) ++ enc_bytes (compress (braw b)) ++ bad) ++ post) as [|x xs] eqn:E.
      { exfalso. apply app_eq_nil in E. destruct E as [E _]. apply app_eq_nil in E. destruct E as [E _].
        exact (long_enc_nonempty _ E). }
      rewrite <- E. rewrite <- !app_assoc. rewrite long_rt by exact Hc.
      rewrite dec_bytes_ok by exact Hsm. rewrite codec_rt, Hr.
      rewrite <- Hbl, take_app. rewrite bytes_eqb_neq by exact Hne. reflexivity.
    - destruct k as [|k]; [cbn [length] in Hk; lia|]. inversion Hp as [|? ? Hp1 Hp2]; subst.
      cbn [flat_map]. rewrite <- app_assoc. rewrite read_one_block by exact Hp1.
      rewrite (IH b bad post k); [rewrite app_assoc; reflexivity|cbn [length] in Hk; lia|exact Hp2|split; [exact Hc|split; [exact Hsm|exact Hr]]|exact Hbl|exact Hne].
  Qed.


  (** a cut inside the header never parses as a header *)
  Theorem read_cut_header meta m hf : meta_ok meta -> (m < length (header_bytes meta sync))%nat ->
    forall x, read_header hf (firstn m (header_bytes meta sync)) <> Ok x.
  Proof.
    intros Hm Hlt x H. unfold read_header in H.
    destruct (dec hf [] HEADER_SCHEMA (firstn m (header_bytes meta sync))) as [[h r]| |] eqn:E; cbn [bind] in H; try discriminate.
    pose proof (layout_typed _ _ _ _ (header_typed meta Hm)) as (Hl & _ & Hw).
    refine (truncated_never_ok 3 [] HEADER_SCHEMA _ Hl (firstn m (header_bytes meta sync)) (skipn m (header_bytes meta sync)) _ _ hf h r E).
    - rewrite Hw. symmetry. apply firstn_skipn.
    - apply skipn_nonempty. exact Hlt.
  Qed.

  (** the block reader: offsets and sizes tile the block area, counts are the announced counts *)
  Notation read_block_infos := (read_block_infos decompress).
  Fixpoint infos_of (bls : list blk) (off : Z) : list (Z * Z * Z) :=
    match bls with
    | [] => []
    | b :: bls => (off, len (blk_bytes b), bcount b) :: infos_of bls (off + len (blk_bytes b))
    end.

  Theorem read_block_infos_ok : forall bls k off, (length bls < k)%nat ->
    Forall (fun b => in_int64 (bcount b) /\ small (braw b)) bls ->
    read_block_infos k sync off (flat_map blk_bytes bls) = (infos_of bls off, EndOK).
  Proof.
    induction bls as [|b bls IH]; intros k off Hk H.
    - destruct k; [cbn [length] in Hk; lia|]. reflexivity.
    - destruct k as [|k]; [cbn [length] in Hk; lia|]. inversion H as [|? ? [Hc Hsm] Hr]; subst.
      cbn [flat_map infos_of]. set (F := flat_map blk_bytes bls) in *. cbn [Container.read_block_infos].
      destruct (blk_bytes b ++ F) as [|x xs] eqn:E.
      { exfalso. apply app_eq_nil in E. destruct E as [E _]. unfold blk_bytes, Container.block_bytes in E.
        apply app_eq_nil in E. destruct E as [E _]. exact (long_enc_nonempty _ E). }
      rewrite <- E.
      unfold blk_bytes at 1. unfold Container.block_bytes. rewrite <- !app_assoc.
      rewrite long_rt by exact Hc. rewrite dec_bytes_ok by exact Hsm. rewrite codec_rt, take_sync.
      rewrite bytes_eqb_refl by exact sync_ok.
      rewrite IH; [|cbn [length] in Hk; lia|exact Hr].
      replace (len (blk_bytes b ++ F) - len F) with (len (blk_bytes b)) by (rewrite len_app; lia).
      reflexivity.
  Qed.

  Lemma infos_tile : forall bls off,
    fold_left (fun acc i => acc + snd (fst i)) (infos_of bls off) off = off + len (flat_map blk_bytes bls) /\
    fold_left (fun acc i => acc + snd i) (infos_of bls off) 0 = fold_left (fun acc b => acc + bcount b) bls 0.
  Proof.
    assert (G : forall bls off a c,
      fold_left (fun acc i => acc + snd (fst i)) (infos_of bls off) a = a + len (flat_map blk_bytes bls) /\
      fold_left (fun acc i => acc + snd i) (infos_of bls off) c = fold_left (fun acc b => acc + bcount b) bls c).
    { induction bls as [|b bls IH]; intros off a c; cbn [infos_of fold_left flat_map fst snd].
      - unfold len. cbn [length]. split; [lia|reflexivity].
      - destruct (IH (off + len (blk_bytes b)) (a + len (blk_bytes b)) (c + bcount b)) as [H1 H2].
        rewrite H1, H2, len_app. split; [lia|reflexivity]. }
    intros bls off. apply G.
  Qed.

End ContainerProofs.

(** is_avro: true exactly for inputs that begin with the four magic bytes *)
Theorem is_avro_spec bs : is_avro bs = true <-> firstn 4 bs = MAGIC.
Proof.
  unfold is_avro. split; [apply bytes_eqb_eq|]. intros ->. reflexivity.
Qed.

Theorem is_avro_prefix bs : is_avro bs = true <-> exists r, bs = MAGIC ++ r.
Proof.
  rewrite is_avro_spec. split.
  - intros H. exists (skipn 4 bs). rewrite <- H. symmetry. apply firstn_skipn.
  - intros [r ->]. reflexivity.
Qed.
