#!/usr/bin/env python3
"""Regenerate the findings table of DESIGN.md §11 from known_findings.json."""
import json, os, re
V = os.path.dirname(os.path.dirname(os.path.abspath(__file__)))
k = json.load(open(os.path.join(V, "known_findings.json")))["findings"]
rows = ["| id | property | what | disposition |", "|---|---|---|---|"]
for f in k:
    st = f["status"]
    disp = ("fix " + st.split(":", 1)[1]) if st.startswith("fixed") else "known finding (reported as KNOWN-FINDING)"
    what = f.get("what", "").replace("|", "\\|").replace("\n", " ")
    rows.append("| %s | %s | %s | %s |" % (f["id"], f["property"], what, disp))
p = os.path.join(V, "DESIGN.md")
s = open(p).read()
i = s.index("| id | property | what | disposition |")
j = s.index("\n\n", i)
s = s[:i] + "\n".join(rows) + s[j:]
open(p, "w").write(s)
print(len(rows) - 2, "findings")
