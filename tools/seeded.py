#!/usr/bin/env python3
"""Run the registered checks against the seeded defects kept under /verif/seeded/<name>/.
Usage: tools/seeded.py [name ...] [--tier quick|thorough] [--props C01,C02]
Applies patch.diff to /repo (git apply), runs ./check for the property the defect breaks (and any extra
properties given), restores /repo (git checkout -- .), and writes seeded/<name>/result.json."""
import json, os, subprocess, sys, time
V = os.path.dirname(os.path.dirname(os.path.abspath(__file__)))


def sh(cmd, **kw):
    return subprocess.run(cmd, stdout=subprocess.PIPE, stderr=subprocess.STDOUT, text=True, **kw)


def main():
    args = [a for a in sys.argv[1:] if not a.startswith("--")]
    tier = "quick"
    extra = []
    for i, a in enumerate(sys.argv):
        if a == "--tier":
            tier = sys.argv[i + 1]; args = [x for x in args if x != tier]
        if a == "--props":
            extra = sys.argv[i + 1].split(","); args = [x for x in args if x != sys.argv[i + 1]]
    jobs = 1
    for i, a in enumerate(sys.argv):
        if a == "-j":
            jobs = int(sys.argv[i + 1]); args = [x for x in args if x != sys.argv[i + 1]]
    args = [x for x in args if x != "-j"]
    names = [a for a in args if a != "--in-repo"] or sorted(d for d in os.listdir(os.path.join(V, "seeded")) if os.path.isdir(os.path.join(V, "seeded", d)))
    # by default work in a scratch worktree of /repo's HEAD so that nothing else using /repo is disturbed;
    # --in-repo applies the patch to /repo itself (git apply ... git checkout -- .) as the registered protocol does
    in_repo = "--in-repo" in sys.argv
    if jobs > 1 and not in_repo:
        # -j N: N scratch worktrees side by side (each child handles every N-th name)
        rest = [a for a in sys.argv[1:] if a not in names and a != "-j" and a != str(jobs)]
        procs = [subprocess.Popen([sys.executable, os.path.abspath(__file__)] + names[k::jobs] + rest) for k in range(jobs) if names[k::jobs]]
        sys.exit(max(p.wait() for p in procs))
    tree = "/repo"
    if not in_repo:
        tree = "/tmp/seeded_wt_%d" % os.getpid()
        assert sh(["git", "-C", "/repo", "worktree", "add", "--detach", tree, "HEAD"]).returncode == 0
    else:
        assert sh(["git", "-C", "/repo", "status", "--porcelain"]).stdout.strip() == "", "/repo has uncommitted changes"
    try:
        _run(names, extra, tier, tree)
    finally:
        if not in_repo:
            sh(["git", "-C", "/repo", "worktree", "remove", "--force", tree])


def _run(names, extra, tier, tree):
    for name in names:
        d = os.path.join(V, "seeded", name)
        meta = json.load(open(os.path.join(d, "meta.json")))
        props = [meta["property"]] + [p for p in extra if p != meta["property"]]
        if meta.get("obsolete"):
            print(f"{name:28s} obsolete (no longer a defect): skipped"); continue
        r = sh(["git", "-C", tree, "apply", os.path.join(d, "patch.diff")])
        if r.returncode != 0:
            print(name, "PATCH DOES NOT APPLY:", r.stdout[:300]); continue
        res = {}
        try:
            for p in props:
                t0 = time.time()
                c = sh([os.path.join(V, "check"), p, "--tier", tier], cwd=V, env=dict(os.environ, VERIF_REPO=tree))
                lines = [l for l in c.stdout.splitlines() if l.startswith(("VIOLATION", "KNOWN-FINDING"))]
                viol = [l for l in lines if l.startswith("VIOLATION")]
                res[p] = dict(exit=c.returncode, seconds=round(time.time() - t0, 1), lines=viol[:6] + [l for l in lines if not l.startswith("VIOLATION")][:3])
                print(f"{name:28s} {p} exit={c.returncode} {'DETECTED' if c.returncode == 1 and lines else 'missed'} "
                      f"{'no-failing-input-found' if c.returncode == 1 and lines and all('no-failing-input-found' in l for l in lines if l.startswith('VIOLATION')) else ''} ({res[p]['seconds']} s)")
        finally:
            sh(["git", "-C", tree, "checkout", "--", "."])
        sd = os.environ.get("VERIF_SEED", "0") or "0"
        json.dump(dict(tier=tier, seed=sd, results=res), open(os.path.join(d, "result.json" if sd == "0" else "result.seed%s.json" % sd), "w"), indent=1)


if __name__ == "__main__":
    main()
