#!/usr/bin/env python3
"""Write the prompt for a fresh mutant-writing sub-agent: property texts only + titles of the seeded defects already
used (so that a new round explores other mechanisms).  usage: mutprompt.py <round-tag> <n-per-property> C01 C02 ...
The prompt goes to /tmp/mut_out/full_<tag>_<ids>.txt (nothing from /verif besides the property text is quoted)."""
import glob, json, os, sys
TEMPLATE = open(os.path.join(os.path.dirname(os.path.abspath(__file__)), "mutprompt_template.txt")).read()
tag, n, ids = sys.argv[1], int(sys.argv[2]), sys.argv[3:]
props = {}
for line in open("/verif/properties.jsonl"):
    line = line.strip()
    if line:
        p = json.loads(line); props[p["id"]] = p
wt = "%s_%s" % (tag, "_".join(ids))
t = TEMPLATE.replace("@@TAG@@", wt).replace("@@N@@", str(n)).replace("<PROPERTY_ID>_<k>", "<PROPERTY_ID>_%s_<k>" % tag)
out = [t.rstrip(), ""]
for pid in ids:
    p = props[pid]
    out.append("PROPERTY %s: %s" % (pid, p["title"]))
    out.append("STATEMENT: " + p["statement"])
    out.append("QUANTIFIER: " + p.get("quantifier", {}).get("text", ""))
    out.append("CODE ANCHORS: " + json.dumps(p.get("anchors", [])))
    used = []
    for m in sorted(glob.glob("/verif/seeded/%s_*/meta.json" % pid)):
        used.append(json.load(open(m)).get("title", ""))
    if used:
        out.append("ALREADY USED for %s in earlier rounds (do NOT repeat these or close variants; pick different mechanisms / code sites):" % pid)
        out += ["   - " + u for u in used]
    out.append("")
path = "/tmp/mut_out/full_%s.txt" % wt
open(path, "w").write("\n".join(out))
print(path)
