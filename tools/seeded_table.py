#!/usr/bin/env python3
"""Rewrites the section 'Seeded defects' of DESIGN.md from /verif/seeded/*/{meta.json,result.json}."""
import json, os, re
V = os.path.dirname(os.path.dirname(os.path.abspath(__file__)))
rows = []
for name in sorted(os.listdir(os.path.join(V, "seeded"))):
    d = os.path.join(V, "seeded", name)
    if not os.path.isdir(d):
        continue
    m = json.load(open(os.path.join(d, "meta.json")))
    r = json.load(open(os.path.join(d, "result.json"))) if os.path.exists(os.path.join(d, "result.json")) else {"results": {}}
    det = []
    for p, x in r.get("results", {}).items():
        v = [l for l in x.get("lines", []) if l.startswith("VIOLATION")]
        if x.get("exit") == 1 and v:
            det.append(p + (" (no-failing-input-found)" if all("no-failing-input-found" in l for l in v) else " (failing input)"))
        else:
            det.append(p + " MISSED")
    if m.get("obsolete"):
        det = ["obsolete: no longer a defect (" + m["obsolete"][:110] + "...)"]
    what = (m.get("title") or m.get("what_changed") or "")[:150].replace("|", "/").replace("\n", " ")
    needs = (m.get("needs_to_manifest") or "")[:170].replace("|", "/").replace("\n", " ")
    rows.append(f"| {name} | {m.get('property')} | {what} | {needs} | {', '.join(det) or 'not run'} |")
table = ("| seeded change | breaks | what changed | needs, to manifest | quick check result |\n|---|---|---|---|---|\n" + "\n".join(rows) + "\n")
p = os.path.join(V, "DESIGN.md")
s = open(p).read()
head = "## 13. Seeded defects: which checks catch which changes\n"
intro = ("\nEach change below was written by a fresh sub-agent that saw only the property text and a scratch worktree (nothing from /verif), was "
         "confirmed here (`tools/validate_seed.py`: the demonstration passes on /repo's HEAD and fails with the patch; all 540 stable tests still "
         "pass with the patch) and is kept under `/verif/seeded/<name>/` (patch.diff, demo.py, meta.json, result.json). `tools/seeded.py` applies a "
         "patch in a scratch worktree (`--in-repo`: in /repo itself, `git apply` ... `git checkout -- .`) and runs the registered quick check.\n\n")
import subprocess, sys
stats = subprocess.run([sys.executable, os.path.join(V, "tools", "seeded_stats.py")], stdout=subprocess.PIPE, text=True).stdout
s1 = [0, 0]
for name in os.listdir(os.path.join(V, "seeded")):
    f = os.path.join(V, "seeded", name, "result.seed1.json")
    if os.path.exists(f):
        mm = json.load(open(os.path.join(V, "seeded", name, "meta.json")))
        own = json.load(open(f))["results"].get(mm["property"], {})
        s1[0] += 1
        s1[1] += own.get("exit") == 1
history = ("\nEight rounds of seeded changes were written (2 per property and round, the seventh cut short at 21 seeds, the eighth a 4-seed spot round for C05, C06, C10, C14, by agents that never saw /verif). Round 8 on first contact: 3 of 4 detected; C05_r8_1 (Writer.write_block emits the unread rest of a partly consumed block) was caught by C07 only, so C05 got the write_block relay family (files produced by handing partly consumed block_reader blocks to a second Writer are parsed by the independent parser) and now reports it too. On FIRST contact each round "
           "exposed gaps: of the new seeds of a round, between a sixth and a third were missed or caught only as `no-failing-input-found`; every gap was closed by "
           "strengthening the generators / predicates of the check concerned (never by special-casing the seed: the additions are families, corpora and "
           "predicates described in the RULE text of each evidence file), and the table below is the state after those repairs, from one full pass of "
           "`tools/seeded.py -j 3` (VERIF_SEED=0). A second full pass under VERIF_SEED=1 (the seed `vp check` exports) detected %d of %d runnable seeds "
           "(detections must not depend on the random stream: seeds that were caught only by luck got deterministic witnesses that run first in every check).\n\n"
           % (s1[1], s1[0]) + stats + "\n")
body = head + intro + history + table
if head in s:
    i = s.index(head)
    j = s.find("\n## ", i + 5)
    s = s[:i] + body + (s[j:] if j > 0 else "")
else:
    s = s.rstrip("\n") + "\n\n---------------------------------------------------------------------------\n\n" + body
open(p, "w").write(s)
print(len(rows), "rows")
