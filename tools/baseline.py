#!/usr/bin/env python3
"""Run /repo's test suite (guard off) and check every stable_pass test of BASELINE.json still passes."""
import json, subprocess, sys, tempfile, os, xml.etree.ElementTree as ET
b = json.load(open("/root/.vp/BASELINE.json"))
with tempfile.TemporaryDirectory() as d:
    x = os.path.join(d, "j.xml")
    env = {k: v for k, v in os.environ.items() if k != "FASTAVRO_VERIF"}
    subprocess.run(["/venv/bin/python", "-m", "pytest", "-ra", "-q", "-p", "no:cacheprovider", "--timeout=900",
                    "--continue-on-collection-errors", "--junitxml=" + x], cwd="/repo", env=env,
                   stdout=subprocess.DEVNULL, stderr=subprocess.DEVNULL)
    passed = set()
    for tc in ET.parse(x).getroot().iter("testcase"):
        if not any(ch.tag in ("failure", "error", "skipped") for ch in tc):
            passed.add(tc.get("classname") + "::" + tc.get("name"))
missing = [t for t in b["stable_pass"] if t not in passed]
print(f"baseline: {len(b['stable_pass']) - len(missing)}/{len(b['stable_pass'])} stable tests pass")
for t in missing[:20]:
    print("  NOT PASSING:", t)
sys.exit(1 if missing else 0)
