#!/usr/bin/env python3
"""Writes /verif/MANIFEST.json from the table below (kept here so the manifest
stays valid and in sync with what is actually built)."""
import json, os

VERIF = os.path.dirname(os.path.dirname(os.path.abspath(__file__)))
TITLES = {}
for l in open(os.path.join(VERIF, "properties.jsonl")):
    d = json.loads(l)
    TITLES[d["id"]] = d["title"]

COMMON_NOTE = ("Trusted: Coq 8.16.1 kernel (full .vo build, vm_compute, no native_compute); no axioms (every theorem in "
               "props/{id}.v prints 'Closed under the global context'); the hand-written Gallina model; the correspondence "
               "harness (generators, Python<->Gallina term printer, comparators) that ties the model to /repo's working tree "
               "on every run; regenerated Srcfacts.v; CPython + stdlib (struct, hashlib, zlib/bz2/lzma, decimal, datetime, json). "
               "Cython mirrors (*.pyx) are not verified. ")

# id -> (technique, level text, extra note, design ref)   -- only properties whose check is built and passes
CLAIMED = {
    "C14": ("Rocq proof: table-driven CRC-64-AVRO loop = bit-serial spec for all byte strings; correspondence by vm_compute vs fastavro.schema.fingerprint",
            "Theorems (coq/props/C14.v): the fp_table entries are 8 division steps (finite, vm_compute), the table-driven loop equals the "
            "specification's bit-serial Rabin fingerprint for every byte list of any length, 64-bit state invariant, empty text = seed, "
            "16 hex digits little-endian, algorithm dispatch incl. Java names and ValueError for unknown names. Tie: Srcfacts (seed, names, "
            "mapping regenerated from source) + correspondence on all 1-byte texts, 2-byte texts, random Unicode texts and every algorithm name.",
            "digest functions are hashlib's (Section variable in the model); str.encode is the stdlib's.", "§3 C14"),
}

NOT_YET = "check not built yet in this round (model/theorems under construction; see DESIGN.md §12 build order)"


def main():
    checks = []
    for pid in sorted(CLAIMED):
        tech, text, note, ref = CLAIMED[pid]
        checks.append(dict(
            property_id=pid,
            quick_cmd=f"./check {pid} --tier quick",
            thorough_cmd=f"./check {pid} --tier thorough",
            evidence_file=f"/verif/evidence/{pid}.json",
            replay_cmd_template=f"./check {pid} --replay {{path}}",
            engine="rocq-model+correspondence",
            level_claimed=dict(category="proof", text=text, design_ref=ref),
            level_note=COMMON_NOTE.replace("{id}", pid) + note,
            technique=tech,
        ))
    na = [dict(property_id=p, reason=NOT_YET) for p in sorted(TITLES) if p not in CLAIMED]
    m = dict(
        version=1,
        setup_cmd="./setup.sh",
        hooks=dict(guard="FASTAVRO_VERIF", enable="no source hooks are needed: checks import /repo's working tree directly (PYTHONPATH=/repo) and observe through public entry points",
                   baseline_off_cmd="cd /repo && /venv/bin/python -m pytest -ra -q -p no:cacheprovider --timeout=900 --continue-on-collection-errors",
                   source_commits=[], add_only=True),
        engines=[dict(name="rocq-model+correspondence", path="/verif/coq + /verif/harness",
                      serves_properties=sorted(CLAIMED),
                      kind_free_text="Rocq/Coq 8.16 theorems about an executable Gallina model of fastavro; model tied to /repo on every run by a "
                                     "correspondence check (model evaluated inside Coq with vm_compute vs the implementation on the same inputs) and "
                                     "source facts regenerated from /repo")],
        checks=checks,
        notes="Entry point ./check <id> [--tier quick|thorough] [--replay file]. known_findings.json lists recorded genuine defects. See DESIGN.md.",
        not_applicable=na,
    )
    with open(os.path.join(VERIF, "MANIFEST.json"), "w") as f:
        json.dump(m, f, indent=1)
    print("MANIFEST.json:", len(checks), "checks,", len(na), "not claimed")


if __name__ == "__main__":
    main()
