#!/usr/bin/env python3
"""Writes /verif/MANIFEST.json from the table below (kept here so the manifest
stays valid and in sync with what is actually built)."""
import json, os

VERIF = os.path.dirname(os.path.dirname(os.path.abspath(__file__)))
TITLES = {}
for l in open(os.path.join(VERIF, "properties.jsonl")):
    d = json.loads(l)
    TITLES[d["id"]] = d["title"]

COMMON_NOTE = ("Trusted: Coq 8.16.1 kernel (full .vo build, vm_compute, no native_compute); no axioms (every theorem in "
               "props/{id}.v prints 'Closed under the global context'); the hand-written Gallina model; the correspondence "
               "harness (generators, Python<->Gallina term printer, comparators) that ties the model to /repo's working tree "
               "on every run; regenerated Srcfacts.v; CPython + stdlib (struct, hashlib, zlib/bz2/lzma, decimal, datetime, json). "
               "Cython mirrors (*.pyx) are not verified. ")

# id -> (technique, level text, extra note, design ref)   -- only properties whose check is built and passes
CLAIMED = {
    "C08": ("Rocq proof: reading with a reader schema = decode under the writer schema, then the specification's resolution function (field matching by name/alias, defaults, promotions, enum defaults, union rules, errors); the value-level algorithm of the code equals that specification for schemas without / with by-name references under any reader options; model vs schemaless_reader / reader(reader_schema=) on composed schema evolutions",
            "Theorems (coq/props/C08.v, 31): C08_factor_code (all schema pairs, options, layouts: rdec = decode ; rval), C08_factor_zone_partial / _layout_partial (rval = resolve under the computable `agree`), "
            "C08_match_is_spec, C08_branch_choice_is_spec, C08_record_guard_consistent, C08_identity (+_code_partial), C08_error_* (no default, not promotable, unknown symbol, fixed size, name mismatch, kind, no branch, items), "
            "C08_enum_default, C08_old_code_refuted_* (8 witnesses on which the code before the repairs left the specification; model/ResolveOld.v). Tie: implementation vs rdec AND vs resolve on "
            "(writer, 1..6 evolution steps, datum) through both reading routes; the hand-written witnesses of every repaired defect stay as regression cases.",
            "PARTIAL: two zone theorems (inline schemas incl. dict-form primitives: C08_factor_zone_partial; by-name references incl. recursive types: C08_factor_zone_refs_any_height_partial, values of ANY height under the computable closed-set certificate `agree_all` (C08_zone_closed_set; depth-indexed form `agreen k` kept, monotone in k: C08_zone_depth_monotone); reader == writer through the code also with references / recursive types (C08_identity_code_refs_partial, _any_height_partial; Example: linked list of any length)), both for ANY reader options (return_record_name / return_named_type and overrides: the specification `resolve o` wraps union values by wrap_spec, proved equal to the code's wrapping), unknown logicalType annotations on array/map/named-type nodes are proved transparent for the code and for the rules on ALL inputs (C08_code_ignores_annotations, C08_spec_ignores_annotations), so both zone theorems hold with the zone checked on the schemas without them (C08_factor_zone_annot_partial, C08_factor_zone_refs_annot_partial); the proved zones cover 100 % of the generated evaluations (incl. annotated nodes and recursive types); not covered: unions immediately containing unions, which are no Avro schemas (C08_no_union_behind_reference). F6, F7, F30, F31 and the earlier C08 defects are repaired in /repo (fix: commits).", "§3 C08"),
    "C09": ("Rocq proof about the writer's union branch search as a function: chosen branch conforms, tuple and '-type' hints select exactly the named branch (error when none), first conforming non-record branch, float defers to double, most shared fields first on ties; union indices and named-type reporting vs the model + the statement evaluated on the written index",
            "Theorems (coq/props/C09.v, 13): C09_conforming, C09_function, C09_tuple_hint, C09_type_hint (+_validate), C09_first_nonrecord, C09_float_defers_to_double, C09_double_chosen, "
            "C09_most_fields_first_on_tie, C09_search_spec, C09_no_branch, C09_closure_partial. Tie: union index written by fastavro vs the model's elab on unions of primitive mixes, several "
            "records, enums/fixed, references, arrays/maps, nested hints x {no hint, tuple, -type} x disable_tuple_notation; the four reader options; closure (read with names, write back: same bytes).",
            "C09_closure / C09_closure_bytes / C09_closure_written: every well-typed wire value (in particular whatever the writer wrote) read with return_named_type=True and written back under the same schema gives the identical bytes, under the boolean side condition closb (named union branches: first of their name with tuple notation on; unnamed branches: the read-back value re-resolves to the same branch; enum index = first occurrence, distinct map keys / field names) and floats_stable; floats_stable is derived for every written value (elab_floats_stable over FloatProofs.d2s_image_stable), so C09_closure_written has no float hypothesis; closb is evaluated in-model on every case and cross-checked against model and implementation (C09_closure_refuted = an instance with closb false, outside the statement). F13 ([Rec, map] with a dict fitting both goes to the map branch) is left open by the statement: observation only.", "§3 C09"),
    "C10": ("Rocq proof: validate returns True exactly on the declarative conformance relation (clause by clause from the documented mapping), raises exactly where it would answer False, strict rule, accepted => elaborated => round trip under an explicit writer-domain condition; validate / validate_many / validating writers vs the model on conforming and singly-mutated data",
            "Theorems (coq/props/C10.v, 13): C10_iff, C10_sound, C10_complete, C10_raise_agrees, C10_raise_iff, C10_strict, C10_fuel_monotone, C10_gate, C10_accepted_typed, C10_absent_field_agrees, "
            "C10_writer_accepts_iff, C10_encoded_needs, C10_accepted_roundtrip, C10_writer_accepts_refuted (witnesses for each clause of wneed: foreign exception in a later branch, strict writer, float overflow), C10_gate_* (5). "
            "Tie: 12 mutation kinds x raise_errors x strict x disable_tuple_notation, validate_many, accepted => written and read back, rejected => validating writer raises with the stream unchanged, strict writers.",
            "C10_gate, C10_gate_raises, C10_gate_nonconforming, C10_gate_history, C10_gate_only_validated: for the Python-level writer model (ContainerPy.pstep) a validating writer rejects exactly what validate rejects with the writer state (stream, pending block, count) unchanged, and a history with a rejected write equals the history without it; the model's tie to fastavro's Writer is the correspondence (corr:validate-vs-writer; C04-C07). C10_writer_accepts_iff: for every datum validate accepts, the writer (default, strict or strict_allow_default) elaborates it iff wneed holds (numbers convert; strict writers' field discipline; the branch search answers and the datum is writable under the branch it answers); necessity (C10_encoded_needs) holds for all data. C10_only_validation_error / C10_raise_only_validation_error / C10_search_no_foreign_exception: for schemas whose references resolve (closed_refs, closed_env; evaluated in-model) validate and the writers' branch search raise no exception other than ValidationError. floats_ok of the elaborated value is derived (proofs/ElabFloats.v over FloatProofs.v: Reals axioms + classic, allow-listed) from pyfloats_ok of the input, which is an evaluated hypothesis about the abstraction.", "§3 C10"),
    "C11": ("Rocq proof about a faithful model of parse_schema: full names per the spec's namespace rules, references denote table entries with that name, every rejection kind of the statement (exact error at the node and 'never accepted at any depth'), acceptance of every valid_raw schema; model vs fastavro.parse_schema on generated valid and singly-mutated schemas",
            "Theorems (coq/props/C11.v, ~39): C11_fullnames, C11_refs/C11_refs_denote, C11_rejects_* (undefined reference, duplicate name incl. top-level unions, missing name, malformed/duplicate symbol, "
            "enum default, default of wrong JSON type for primitives / dict forms / unions / references, decimal precision/scale), C11_accepts (valid_raw => accepted, no size bound). "
            "Tie: accept / SchemaParseException / UnknownType(name) / other, canonical form, table keys and the parsed output key by key vs the model; SF_schema source facts.",
            "Known finding K1 (numeric strings accepted as float defaults) is reported as KNOWN-FINDING. expand=True and _ignore_default_error are not modelled.", "§3 C11"),
    "C12": ("Rocq proof: parsing a marked parsed schema is the identity (and copies its table), re-parsing the parser's unmarked output keeps names and canonical form, inlining separately parsed types yields a schema closed relative to the table; raw / parsed / piecewise forms compared on every public operation",
            "Theorems (coq/props/C12.v): C12_idempotent_marked, C12_idempotent, C12_reparse_names, C12_reparse_partial, C12_selfcontained_partial, C12_parsed_selfcontained. Tie: for generated "
            "schemas and EVERY feasible subset of their named types parsed separately against a shared dict: schemaless writer/reader, validate, json writer/reader, container blocks + file "
            "readable on its own, canonical form, fingerprint, generate_many under a fixed random state must agree across the three forms (the statement itself), and with the model.",
            "C12_piecewise proved (C12_piecewise, _fuel, _names, _core): for separately parsed pieces that are one named type each with distinct names, inlining the shared table into the piecewise-parsed parent gives, up to the two marker keys, exactly the parse of the parent with the pieces written inline at first use (same JSON, names, canonical form; self-contained); evaluated on generated splits against the implementation (thm:piecewise-instance). C12_reparse / C12_reparse_top: the parser is idempotent on its own output (same output, same dictionary) for a re-parse in the same state. PARTIAL: pieces that are unions/several types, table-entry equality, and C12_ops_respect_equiv composed over a whole table (one inlining step proved) are decided by the correspondence only.", "§3 C12"),
    "C13": ("Rocq proof: canonical form of the parsed schema = the specification's transformation applied to the raw JSON (C13_spec), invariance under the inductive closure of cosmetic edits, JSON-level fixed point; model and independent pcf vs to_parsing_canonical_form incl. Apache vectors",
            "Theorems (coq/props/C13.v): C13_spec (all simple_raw schemas incl. top-level unions), C13_cosmetic (+ instances), C13_fixed_point_json, C13_fixed_point (unconditional in the classes simple_raw + ns_closed; outside ns_closed it is false: C13_fixed_point_refuted / K2), C13_canonical_json_simple, 11 Apache vectors by vm_compute. "
            "Tie: canon.parse (model) = pcf (model) = implementation on generated schemas and cosmetic rewrites; fixed point through json.loads.",
            "Known finding K2 (nested null-namespace type: the spec's canonical form is not a fixed point) is reported as KNOWN-FINDING. C13_same_encoding proved for all values over model/Codec.v through model/Bridge.v (C13_same_encoding, _wire, C13_same_decoding, C13_table_of_canon): raw schemas in simple_raw with the same canonical JSON, parsed from scratch, type the same values, whose (schema-independent) encoding decodes to the same value under both, and decode arbitrary bytes alike; exercised on the implementation on (schema, cosmetic rewrite) pairs (thm:same-encoding-impl). Canonical forms are compared as JSON values, not printed text.", "§3 C13"),
    "C14": ("Rocq proof: table-driven CRC-64-AVRO loop = bit-serial spec for all byte strings; correspondence by vm_compute vs fastavro.schema.fingerprint",
            "Theorems (coq/props/C14.v): the fp_table entries are 8 division steps (finite, vm_compute), the table-driven loop equals the "
            "specification's bit-serial Rabin fingerprint for every byte list of any length, 64-bit state invariant, empty text = seed, "
            "16 hex digits little-endian, algorithm dispatch incl. Java names and ValueError for unknown names. Tie: Srcfacts (seed, names, "
            "mapping regenerated from source) + correspondence on all 1-byte texts, 2-byte texts, random Unicode texts and every algorithm name.",
            "digest functions are hashlib's (Section variable in the model); str.encode is the stdlib's.", "§3 C14"),
    "C01": ("Rocq proof: reader(writer(a) ++ suffix) = (a, suffix) for every schema/typed value/suffix by height induction; streams by list induction; correspondence model vs schemaless_writer/reader + independent Python round-trip predicate",
            "Theorems (coq/props/C01.v): zig-zag/varint round trip on all int64; wire_dec: for every schema (all constructs, by-name and recursive references), "
            "every typed wire value and every suffix the decoder returns exactly the value and the suffix; the schemaless reader/writer corollary through the "
            "elaboration elab and py_of; values written back to back are read one by one. Tie: the model's write/read are evaluated on every generated "
            "(schema, datum, suffix) and compared with fastavro's bytes, value and stream position; the statement itself (independent conformance + "
            "normalisation predicate) is evaluated on the implementation for every case.",
            "float leaves: C01_float_rounded_to_single / C01_float_widening_exact prove the 'rounded to IEEE single precision' clause against Flocq's real-number specification (stdlib Reals axioms + classic, named in the evidence); the patterns are validated bit-exactly against struct.pack; C01_float_leaf_stable (what the writer wrote for a float survives read-then-write); C01_normal_form_fixed / C01_normalisation_idempotent: the normal form is a fixed point -- the value read back, written again under the same schema, gives the identical bytes and reads back as itself, under the boolean side condition closb0 (every union value read back plain re-resolves to the same branch; enum index = first occurrence; distinct map keys / field names) and floats_stable (derived for written values); elab_typed (elab output is well typed) is validated per case, proved in ElabProofs when present.", "§3 C01"),
    "C02": ("Rocq proof: specification equations of the encoder, varint/zig-zag/little-endian leaf specs, injectivity and decodability; byte-for-byte correspondence incl. leaf encoders on exhaustive boundary families",
            "Theorems (coq/props/C02.v): zig-zag closed form, base-128 digit characterisation (continuation bits, minimal length), little-endian fixed width, "
            "the 15 structural equations of the spec (one counted block + terminator, record = concatenation, union = index then value, byte-length prefixes), "
            "wire is injective on typed values and decoded by the independent decoder, the writer's layout is the single-block member of all valid layouts. "
            "Tie: bytes of schemaless_writer and of each BinaryEncoder method vs the model, byte for byte.",
            "binary32 rounding = SpecFloat.binary_round (stdlib, axiom-free), validated bit-exactly, not re-proved against a real-number spec.", "§3 C02"),
    "C03": ("Rocq proof: decoder accepts every layout (all block partitions, both count forms, any byte size), skip = forget . dec on all inputs, index-range and truncation theorems; model-produced foreign encodings fed to fastavro",
            "Theorems (coq/props/C03.v): C03_accepts/C03_skips over all typed layouts; skip_is_dec on all byte strings; bad union/enum index = Err (read and skip); "
            "extension lemma; no proper prefix of a valid encoding decodes (any fuel); fuel monotonicity. Tie: the model's layout encoder produces multi-block / "
            "negative-count encodings (all compositions of <=4/6 items exhaustively) that fastavro must decode to the same value, also as a skipped field; every "
            "out-of-range index kind at every position; every proper prefix of encodings <= 200 bytes.",
            "", "§3 C03"),
    "C04": ("Rocq proof: for every abstract codec with decompress(compress b)=b, every schema, record list, sync interval, marker and metadata the reader returns exactly the written records (writer-state invariant + reader theorem); grouping independence; byte-level correspondence of fastavro.writer/reader incl. I/O traces",
            "Theorems (coq/props/C04.v): C04_roundtrip (all record lists, any integer sync_interval, any 16-byte marker, any metadata), C04_header, C04_grouping (any two block "
            "partitions of the same records read identically), C04_sync_interval_irrelevant, C04_append_only. Tie: files written by fastavro.writer for 4 codecs x intervals x "
            "metadata x raw/parsed schema compared byte for byte with the model's writer (payloads after stdlib decompression), records/END/schema canonical form/codec/metadata "
            "from fastavro.reader, wrapper streams exposing only read / only write+flush+seekable.",
            "Section hypotheses: decompress(compress b) = Ok b for zlib/bz2/lzma (stdlib, assumed); block payloads shorter than 2^63 bytes (small_run).", "§3 C04"),
    "C05": ("Rocq proof: layout equations of header and blocks, the writer's stream is always header ++ well-formed blocks, every header ++ list of well-formed blocks reads back (any partition, empty blocks, header map in any layout), block reader tiling, is_avro iff magic prefix; model as independent parser and independent writer",
            "Theorems (coq/props/C05.v): C05_block_layout, C05_header_layout, C05_writer_layout, C05_accepts, C05_header_any_layout, C05_tiling, C05_is_avro. Tie: the model parses "
            "fastavro-written files of all codecs; the model's independent writer produces foreign files (random partitions, empty blocks, chunked/negative-count header map, "
            "codec key absent, records in multi-block layouts) that fastavro.reader and block_reader must read; 33 Java-written fixtures; is_avro on every single-byte deviation.",
            "same Section hypotheses as C04; fixtures with snappy / request-type schemas / logical types are skipped.", "§3 C05"),
    "C06": ("Rocq proof: reading any cut of the block area of any well-formed file yields a prefix of its records and ends normally only at a block boundary; a cut header never parses; an altered marker raises after its block's records; no proper prefix of a schemaless encoding decodes; every offset of every generated file cut on the implementation",
            "Theorems (coq/props/C06.v): C06_cut_in_header, C06_truncation (every offset m, every list of well-formed blocks), C06_truncation_file, C06_sync (any different 16 bytes, "
            "whatever follows), C06_schemaless_prefix. Tie: ~9000 (quick) cuts at every offset of files of all 4 codecs evaluated against the statement itself and, for null "
            "files, against the model's lazy reader; every marker byte altered; every proper prefix of schemaless encodings.",
            "partial yields out of a block with a corrupt PAYLOAD are not modelled (outside the statement).", "§3 C06"),
    "C07": ("Rocq proof: invariant by induction over every finite history of {write, failed write, flush, write_block, reopen(new interval)}: stream = header ++ well-formed blocks, pending buffer = pending records, only appends; after any flush the reader returns the submitted records; histories executed on fastavro.write.Writer",
            "Theorems (coq/props/C07.v): C07_history, C07_every_flush, C07_failed_write_noop, C07_append_only, C07_header_kept. Tie: random histories (<= 40 ops; thorough: all 19607 "
            "histories of length <= 5 over a 7-op alphabet) incl. donor blocks of every codec and reopen with arbitrary schema/codec/metadata/marker/interval arguments: status "
            "and stream bytes after every op, records read back after flush.",
            "reopen is modelled as flush + new Writer whose marker/codec/schema come from the existing header (what _is_appendable + header re-read do on a seekable stream).", "§3 C07"),
    "C15": ("Rocq proof: json_enc is the specification's JSON encoding (one equation per type, labels = full names also through references, bytes as Latin-1), json_dec(json_enc a) = a for every typed value, JSON and binary decodings agree at wire-value AND Python-data level, absent keys take defaults that equal the binary writer's elaboration, the reader as a generator is prefix-closed; json_writer/json_reader vs the model and an independent Python JSON encoder",
            "Theorems (coq/props/C15.v, 16, all closed): C15_spec (+_loops, _labels, _bytes), C15_roundtrip, C15_binary_agree, C15_defaults, C15_dflt_elab, C15_defaults_binary, C15_first_branch_chosen (the JSON reading of a default = Write.elab of it under the computable side condition dflt_bin), "
            "C15_json_binary (Python-data level: under the computable side condition c15_side, json_read(json_write v) and read(write v) yield the same value for all reader options), C15_stream_roundtrip, C15_stream_prefix, C15_members_once, C15_fuel_mono, C15_injective. "
            "Tie: json_writer text (json.loads, by value) vs json_enc of the elaborated records, json_reader values, JSON vs binary decoding, defaults for deleted keys (dflt vs elab on every one), both write_union_type settings, foreign texts (raw non-ASCII incl. U+0085/2028/2029; permuted/extra record members), "
            "an undecodable document among the spec documents, repeated reads with one parsed schema; the statement itself evaluated with an independent encoder.",
            "Known findings F11a-d (recursive types / field-less records in the grammar), K4 (map value ending in a nested record), K5 (numbers not converted to the schema type), K6 (record default containing a union) "
            "are reported as KNOWN-FINDING; ~83% of generated cases lie outside every known-defect class. dflt_bin excludes bytes/fixed defaults (O1) and unions whose branch search does not stop at the first branch; c15_side is evaluated in Coq on every generated record; the push-down automaton is not modelled step by step.", "§3 C15"),
    "C16": ("Rocq proof over Z of every logical-type conversion on its whole domain, of its exact inverse, of its independence of the process time zone and of its application at every schema position; correspondence + stdlib-oracle sweeps",
            "Theorems (coq/props/C16.v, 30): date / time-millis / time-micros / (local-)timestamp-millis/micros / uuid representations and round trips for every ordinal, every time of day, every instant (any sign, any offset); two's-complement library; "
            "C16_decimal_bytes, C16_decimal_fixed, C16_decimal_never_altered at full strength for the converters as they are in /repo; C16_exact_inverse: read(prepare x) = normal form of x, Err exactly where writer or reader raises; "
            "C16_tz_*: an aware datum is stored as a function of its UTC instant only, a local-timestamp as a function of the wall clock only, in every process time zone (naive data under timestamp-* is the only zone-dependent case); "
            "C16_positions(_fuse/_equations/_tz): the converters commute with array / map / union / record construction and by-name references. C16_decimal_fixed_refuted_old / _negzero_refuted_old: witnesses against the converter before eff0ba2 (model/LogicalOld.v). "
            "Tie: prepare_*/read_* and schemaless writer/reader vs the model on boundary grids; other process time zones (TZ + tzset) for local and aware data incl. zero offsets and zoneinfo zones; every logical type in every container position, "
            "schemaless and container readers, with and without reader schema, also against the model's read_tree(write_tree v); the statement itself evaluated on every case; SF_time source facts.",
            "datetime/decimal/uuid are the stdlib's and enter through a syntactic abstraction validated by sweeps (thorough: all dates, all ms of day); the process time zone is an explicit argument (mk) of the model standing for time.mktime.", "§3 C16"),
    "C17": ("Rocq proof: results of the API step function are independent of any call history (written-before-read invariant), frame theorem; fresh-interpreter vs history differential run + globals snapshots + argument deep-compare; regenerated inventory of mutable state",
            "Theorems (coq/props/C17.v): history irrelevance for every finite history and call, frame (only the decimal context cells may change; nothing for the repaired code). "
            "Tie: SF_inventory (every module-level mutable object, mutable default and shared write site regenerated from source), random call histories executed in one "
            "interpreter vs each call in a fresh interpreter, globals snapshot after every call, arguments deep-compared.",
            "PARTIAL: the inputs-intact clause and the dependence of results on arguments are decided by the correspondence only (object identity/mutation is not expressible in the pure model).", "§3 C17"),
    "C18": ("Rocq proof: for threads whose steps write no shared cell every interleaving equals the sequential run (induction over schedules); footprints validated against the code; all interleavings of instrumented points forced on the real code",
            "Theorems (coq/props/C18.v): C18_interleaving for any number of threads/steps, simulation, footprints soundness, refuted witness for the old shared-context read_decimal. "
            "Tie: footprint per operation measured on the implementation, forced enumeration of all interleavings at the shared-access points (2-3 threads), stress run.",
            "PARTIAL: bytecode-level atomicity under the GIL and thread safety of C libraries on distinct objects are assumed (runtime behaviour the model cannot exhibit).", "§3 C18"),

    "C19": ("Rocq model of load_schema's catch-UnknownType / load / inject-at-first-reference / retry loop and of load_schema_ordered; theorems: the result is a parse, first-try equivalence, a missing file surfaces as UnknownType naming the missing type; load_schema vs parse of the inlined-at-first-use schema on random dependency graphs",
            "Theorems (coq/props/C19.v): C19_parse_schema_g, C19_equiv_partial_first_try, C19_result_is_a_parse, C19_missing, C19_missing_nested, C19_missing_top, C19_no_inner_repo_error + evaluated "
            "instances (diamond, two depths with a namespace-relative reference, missing file). Tie: random acyclic graphs (1-8 types, 1-3 namespaces incl. the null one): load_schema, every "
            "dependencies-first load_schema_ordered order, and parse of the inlined-at-first-use schema must have equal canonical forms and equal encodings of generated data; each single "
            "file removed must raise UnknownType naming it; the model is compared on all of these.",
            "PARTIAL: C19_equiv / C19_ordered / C19_inline_closed in general are decided by the correspondence on every generated graph; proved: first-try case, the error path including WHICH name UnknownType carries (C19_first_unknown: the first reference in document order that is neither primitive nor in the dictionary, everything before it accepted), every result is a parse result, evaluated instances; the effect of inlining separately loaded types is C12_piecewise. Missing: the composition over the loader's retry loop (_inject_schema's position, acceptance of the re-parse, nested loads). The file system (FlatDictRepository) is abstracted to a name -> JSON map.", "§3 C19"),
    "C20": ("Rocq proof: for every wf schema (recursive ones included) and EVERY random stream a generated value validates (never False, never an exception), count = n, readable ranges of logical leaves, termination for ranked schemas and refutation for recursion through arrays/maps; generate_many replayed on recorded draws vs the model + validate/write/read predicate",
            "Theorems (coq/props/C20.v, 18): C20_count, C20_generate_one, C20_conforms (+_many, _ranked, _fuel), C20_leaf_shape, C20_readable_*, C20_terminates_ranked, C20_refuted_rec_array. "
            "Tie: fastavro.utils.random / uuid replaced from outside by recording proxies; values of generate_many compared with the model's gen on the recorded stream; every value "
            "validated, written (schemaless + container) and read back.",
            "Known findings F12 (RecursionError through arrays/maps) and K3 (str filed under a string-uuid branch cannot be read back) are reported as KNOWN-FINDING. C20_written_and_read_back / C20_container_read_back: for schemas with an acyclic reference graph satisfying the computable side conditions gen_side, every generated value (every stream) validates, satisfies C10's wneed, is elaborated by the default writer to a well-typed wire value and read back as its documented normalisation, and a container written from generate_many's values reads back as exactly their wire values (composition of C20_conforms, C10_writer_accepts_iff, C01_roundtrip_normalised, C07 history_reads_back; float totality from GenFloats/FloatProofs, hence the Reals axioms); stored values only -- for the logical readers the schema must satisfy unions_plain (K3); recursive types are outside (F12).", "§3 C20"),
}

NOT_YET = "check not built yet in this round (model/theorems under construction; see DESIGN.md §12 build order)"


def main():
    checks = []
    for pid in sorted(CLAIMED):
        tech, text, note, ref = CLAIMED[pid]
        # the authoritative list of theorems is the props file itself (the hand-written summary above may lag behind)
        import re as _re
        _src = open(os.path.join(VERIF, "coq", "props", pid + ".v")).read()
        _src = _re.sub(r"\(\*.*?\*\)", "", _src, flags=_re.S)
        _names = _re.findall(r"^(?:Theorem|Lemma|Corollary)\s+(\S+)", _src, _re.M)
        text = text + " [theorems currently in coq/props/%s.v (%d): %s]" % (pid, len(_names), ", ".join(_names))
        checks.append(dict(
            property_id=pid,
            quick_cmd=f"./check {pid} --tier quick",
            thorough_cmd=f"./check {pid} --tier thorough",
            evidence_file=f"/verif/evidence/{pid}.json",
            replay_cmd_template=f"./check {pid} --replay {{path}}",
            engine="rocq-model+correspondence",
            level_claimed=dict(category="proof", text=text, design_ref=ref),
            level_note=COMMON_NOTE.replace("{id}", pid) + note,
            technique=tech,
        ))
    na = [dict(property_id=p, reason=NOT_YET) for p in sorted(TITLES) if p not in CLAIMED]
    m = dict(
        version=1,
        setup_cmd="./setup.sh",
        hooks=dict(guard="FASTAVRO_VERIF", enable="no source hooks are needed: checks import /repo's working tree directly (PYTHONPATH=/repo) and observe through public entry points",
                   baseline_off_cmd="cd /repo && /venv/bin/python -m pytest -ra -q -p no:cacheprovider --timeout=900 --continue-on-collection-errors",
                   source_commits=[], add_only=True),
        engines=[dict(name="rocq-model+correspondence", path="/verif/coq + /verif/harness",
                      serves_properties=sorted(CLAIMED),
                      kind_free_text="Rocq/Coq 8.16 theorems about an executable Gallina model of fastavro; model tied to /repo on every run by a "
                                     "correspondence check (model evaluated inside Coq with vm_compute vs the implementation on the same inputs) and "
                                     "source facts regenerated from /repo")],
        checks=checks,
        notes="Entry point ./check <id> [--tier quick|thorough] [--replay file]. known_findings.json lists recorded genuine defects. See DESIGN.md.",
        not_applicable=na,
    )
    with open(os.path.join(VERIF, "MANIFEST.json"), "w") as f:
        json.dump(m, f, indent=1)
    print("MANIFEST.json:", len(checks), "checks,", len(na), "not claimed")


if __name__ == "__main__":
    main()
