#!/usr/bin/env python3
"""Run every registered quick check on /repo under several VERIF_SEED values; print one line per (check, seed) that alarms.
usage: seedsweep.py 1 2 3 [--props C01,C02]"""
import json, os, subprocess, sys, time
V = os.path.dirname(os.path.dirname(os.path.abspath(__file__)))
args = [a for a in sys.argv[1:] if not a.startswith("--")]
props = None
for a in sys.argv[1:]:
    if a.startswith("--props"):
        props = a.split("=", 1)[1].split(",")
ids = props or [c["property_id"] for c in json.load(open(os.path.join(V, "MANIFEST.json")))["checks"]]
bad = 0
for seed in args:
    for pid in ids:
        t = time.time()
        p = subprocess.run([os.path.join(V, "check"), pid], cwd=V, env=dict(os.environ, VERIF_SEED=seed), stdout=subprocess.PIPE, stderr=subprocess.STDOUT, text=True)
        lines = [l for l in p.stdout.splitlines() if l.startswith("VIOLATION")]
        status = "ok" if p.returncode == 0 and not lines else "ALARM"
        print(f"seed={seed} {pid} exit={p.returncode} {status} ({time.time()-t:.0f} s)", flush=True)
        for l in lines:
            print("    " + l, flush=True)
        bad += status != "ok"
print("alarms:", bad)
