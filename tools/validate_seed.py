#!/usr/bin/env python3
"""Confirm a candidate seeded defect (dir with patch.diff, demo.py, meta.json): the demo passes on /repo's HEAD,
fails with the patch, and the existing suite's stable tests still pass with the patch.  On success copies it to
/verif/seeded/<name>/ and records what was run in meta.json."""
import json, os, shutil, subprocess, sys, xml.etree.ElementTree as ET
V = os.path.dirname(os.path.dirname(os.path.abspath(__file__)))


def sh(cmd, **kw):
    return subprocess.run(cmd, stdout=subprocess.PIPE, stderr=subprocess.STDOUT, text=True, **kw)


def main():
    src = sys.argv[1].rstrip("/")
    name = os.path.basename(src)
    tree = "/tmp/valseed_%d" % os.getpid()
    assert sh(["git", "-C", "/repo", "worktree", "add", "--detach", tree, "HEAD"]).returncode == 0
    try:
        env = dict(os.environ, PYTHONPATH=tree, PYTHONHASHSEED="0", TZ="UTC")
        d0 = sh(["/venv/bin/python", os.path.join(src, "demo.py")], env=env, cwd=tree, timeout=600)
        a = sh(["git", "-C", tree, "apply", os.path.join(src, "patch.diff")])
        if a.returncode != 0:
            print(name, "patch does not apply:", a.stdout[:300]); return 2
        d1 = sh(["/venv/bin/python", os.path.join(src, "demo.py")], env=env, cwd=tree, timeout=600)
        x = os.path.join(tree, "junit.xml")
        sh(["/venv/bin/python", "-m", "pytest", "-q", "-p", "no:cacheprovider", "--timeout=900", "--continue-on-collection-errors",
            "--junitxml=" + x], cwd=tree, env={k: v for k, v in env.items()}, timeout=1800)
        passed = set()
        for tc in ET.parse(x).getroot().iter("testcase"):
            if not any(ch.tag in ("failure", "error", "skipped") for ch in tc):
                passed.add(tc.get("classname") + "::" + tc.get("name"))
        base = json.load(open("/root/.vp/BASELINE.json"))["stable_pass"]
        missing = [t for t in base if t not in passed]
        ok = d0.returncode == 0 and d1.returncode != 0 and not missing
        print(f"{name}: demo on HEAD exit {d0.returncode}, with patch exit {d1.returncode}, stable tests not passing: {len(missing)} -> {'CONFIRMED' if ok else 'REJECTED'}")
        if missing:
            print("   ", missing[:5])
        if ok:
            dst = os.path.join(V, "seeded", name)
            os.makedirs(dst, exist_ok=True)
            for f in ("patch.diff", "demo.py"):
                shutil.copy(os.path.join(src, f), dst)
            meta = json.load(open(os.path.join(src, "meta.json")))
            meta["confirmed"] = dict(head=sh(["git", "-C", "/repo", "rev-parse", "--short", "HEAD"]).stdout.strip(),
                                     demo_on_head="exit 0", demo_with_patch="exit %d: %s" % (d1.returncode, d1.stdout.strip().splitlines()[-1][:200] if d1.stdout.strip() else ""),
                                     suite="all 540 stable tests of BASELINE.json pass with the patch",
                                     ran="tools/validate_seed.py in a scratch worktree of /repo HEAD")
            json.dump(meta, open(os.path.join(dst, "meta.json"), "w"), indent=1)
        return 0 if ok else 1
    finally:
        sh(["git", "-C", "/repo", "worktree", "remove", "--force", tree])


if __name__ == "__main__":
    sys.exit(main())
