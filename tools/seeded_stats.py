#!/usr/bin/env python3
"""Summary of /verif/seeded/*/result.json per round: detected with a failing input / only no-failing-input-found / missed / obsolete."""
import json, os, re, collections
V = os.path.dirname(os.path.dirname(os.path.abspath(__file__)))
rounds = collections.OrderedDict()
for name in sorted(os.listdir(os.path.join(V, "seeded"))):
    d = os.path.join(V, "seeded", name)
    if not os.path.isdir(d):
        continue
    m = json.load(open(os.path.join(d, "meta.json")))
    mr = re.search(r"_r(\d+)_", name)
    rnd = "round %s" % (mr.group(1) if mr else "1")
    st = rounds.setdefault(rnd, collections.Counter())
    if m.get("obsolete"):
        st["obsolete"] += 1
        continue
    r = json.load(open(os.path.join(d, "result.json"))) if os.path.exists(os.path.join(d, "result.json")) else {"results": {}}
    own = r.get("results", {}).get(m["property"], {})
    v = [l for l in own.get("lines", []) if l.startswith("VIOLATION")]
    if own.get("exit") == 1 and v:
        st["no-failing-input-found only" if all("no-failing-input-found" in l for l in v) else "failing input"] += 1
    else:
        st["missed"] += 1
cols = ["failing input", "no-failing-input-found only", "missed", "obsolete"]
print("| round | seeds | " + " | ".join(cols) + " |")
print("|---|---|" + "---|" * len(cols))
tot = collections.Counter()
for rnd, st in sorted(rounds.items(), key=lambda kv: int(kv[0].split()[1])):
    print("| %s | %d | " % (rnd, sum(st.values())) + " | ".join(str(st[c]) for c in cols) + " |")
    tot.update(st)
print("| all | %d | " % sum(tot.values()) + " | ".join(str(tot[c]) for c in cols) + " |")
