#!/bin/bash
# Build the Rocq/Coq development from files on disk only (offline). Full .vo build.
set -e -o pipefail
cd "$(dirname "$0")/coq"
srcs=$(ls model/*.v proofs/*.v props/*.v | sort)
{ grep -v '\.v$' _CoqProject; for f in model proofs props; do ls $f/*.v | sort; done; } > _CoqProject.new
mv _CoqProject.new _CoqProject
coq_makefile -f _CoqProject -o Makefile > /dev/null
timeout 3000 make -j16 -k 2>&1 | tail -15
echo "setup: coq build ok"
