#!/bin/bash
# Build the Rocq/Coq development from files on disk only (offline). Full .vo build (no -vos/-vok).
# Every coqc runs under a time limit; the build keeps going past a file that fails so that one
# property's file cannot block the others; it FAILS if the files of a claimed property did not build.
set -o pipefail
cd "$(dirname "$0")/coq"
{ grep -v '\.v$' _CoqProject; for f in model proofs props; do ls $f/*.v | sort; done; } > _CoqProject.new
mv _CoqProject.new _CoqProject
coq_makefile -f _CoqProject -o Makefile > /dev/null || exit 1
timeout 5400 make -j16 -k COQC='timeout 1200 coqc' 2>&1 | grep -v "^COQC\|^COQDEP\|^make\[" | tail -15
missing=0
for id in $(python3 -c "import json;print(' '.join(c['property_id'] for c in json.load(open('../MANIFEST.json'))['checks']))"); do
  if [ ! -f "props/$id.vo" ]; then echo "setup: props/$id.vo was not built"; missing=1; fi
done
[ -f model/Harness.vo ] || { echo "setup: model/Harness.vo was not built"; missing=1; }
if [ $missing -ne 0 ]; then echo "setup: FAILED"; exit 1; fi
echo "setup: coq build ok"
