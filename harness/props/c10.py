"""C10 - validate accepts exactly the conforming data, raises exactly where it answers False, strict mode,
validate_many, and agreement with the writers (accepted => encoded and read back; rejected => a validating
writer raises before any byte of the record reaches the stream)."""
import io, json
from .. import core, gallina as G, codec_common as CC, unions as U, gen

SRCFACTS = ["ints"]
RULE = ("cases = (schema, datum, disable_tuple_notation) x strict x raise_errors: schemas = random schemas over all constructs + the "
        "union-centred families of C09; data = conforming data (boundary-dense, hints) and, for half of the cases, the same datum with ONE "
        "mutation at a random position (wrong Python type, out-of-range int, bool for a number, wrong fixed size, bytearray for fixed, "
        "unknown symbol, non-string map key, missing required / defaulted field, an explicit None for a non-nullable value / for a field that has a default, wrong '-type' or tuple hint, tuple of arity 3 under a "
        "union, str for a sequence); corr:validate compares fastavro.validate in all four flag combinations with the model and with the "
        "independent Python predicate of the documented mapping; corr:validate-many groups the data of one schema and runs validate_many under "
        "every combination raise_errors x strict x disable_tuple_notation (with tuple notation disabled the data carry tuples at union "
        "positions: sequences given as tuples and hint-shaped pairs), comparing with validate() per record and with the model; "
        "corr:validate-vs-writer: accepted => schemaless_writer and writer(validator=True) encode and the value reads back normalised; "
        "rejected => Writer.write / writer(validator=True) raise and the stream holds exactly the bytes before the rejected record; "
        "corr:strict-writer = schemaless_writer with strict=True / strict_allow_default=True vs the model under the same options on every "
        "case, and: a datum validate(strict=True) accepts whose records (as selected by the statement's union rule under strict conformance) "
        "carry exactly the schema's fields (resp. lack only defaulted fields) must be written and read back, also by writer(validator=True); "
        "non-trivial = datum has a node beyond depth 0; distinct by (schema, datum, flags)")
TRUSTED = ["the schema reaches the model as the parsed dict fastavro.parse_schema returned (naming is C11's business)",
           "harness/unions.py: the mutator and the Python rendering of the documented mapping (conforms_x)"]
ASSUMPTIONS = ["float-typed leaves are generated representable in the target width; an OverflowError of the writer on an accepted datum is "
               "counted as excluded by the statement ('float-typed leaves restricted to values representable')",
               "logical types: unknown logicalType annotations only (the logical-type clause of the statement is C16's)",
               "a field default is data like any other: an absent field is accepted when its default conforms (bytes/fixed defaults given as "
               "JSON strings do not: DESIGN O1, validate answers False and the writer raises -- consistent, observation only)"]
PARTIAL = ["C10_writer_accepts: 'everything validate accepts the writers encode' is false as it stands (C10_writer_accepts_refuted: a foreign "
           "exception in the branch search, the strict writer's field discipline, float overflow) and is replaced by the exact "
           "characterisation C10_writer_accepts_iff (for accepted data the writer -- default, strict or strict_allow_default -- elaborates the "
           "datum iff wneed holds); wneed's union clause refers to the answer of the branch search (characterised by C09); that the search "
           "raises no foreign exception is proved for schemas whose references resolve (C10_search_no_foreign_exception, closed_refs/"
           "closed_env evaluated in-model on every case); that it terminates within the fuel is not derived from schema-level conditions",
           "the input-side hypotheses data_ok (wf_py, pyfloats_ok, wf_schema/wf_env, dflt/env_floats_ok) of C10_accepted_typed / "
           "C10_accepted_roundtrip are evaluated in-model on every case; floats_ok of the elaborated value is derived in Rocq "
           "(proofs/ElabFloats.v over proofs/FloatProofs.v) and still printed as a cross-check",
           "C10_gate* are theorems about the Python-level writer model (model/ContainerPy.v pstep over model/Container.v): rejected record => "
           "write raises, stream / pending block / count unchanged, history = history without it; the tie of that model to fastavro's "
           "Writer is corr:validate-vs-writer here and the container correspondences of C04-C07"]


def expr(c):
    dt = "true" if c.wopts.get("disable_tuple_notation") else "false"
    return "run_c10 %s %s %s %s" % (dt, G.env_to_coq(c.named), G.schema_to_coq(c.parsed), G.py_to_coq(c.datum))


def vtext(datum, schema, raise_errors, strict, dt):
    """T / F / V (ValidationError) / E:<class> (anything else)"""
    import fastavro
    from fastavro.validation import ValidationError
    try:
        r = core.with_timeout(lambda: fastavro.validate(datum, schema, raise_errors=raise_errors, strict=strict,
                                                        disable_tuple_notation=dt), 20)
        return "T" if r is True else ("F" if r is False else "?" + repr(r)[:20])
    except ValidationError:
        return "V"
    except core.Timeout:
        return "TIMEOUT"
    except RecursionError:
        return "E:RecursionError"
    except Exception as e:
        return "E:" + type(e).__name__


def impl_text(c):
    dt = bool(c.wopts.get("disable_tuple_notation"))
    s = c.schema_arg()
    parts = []
    for strict in (False, True):
        parts.append((vtext(c.datum, s, False, strict, dt), vtext(c.datum, s, True, strict, dt)))
    return parts


def coarse(t):
    return "E" if t.startswith("E:") else t


def f9_shape(v, s, named, tn):
    """the datum omits a default-less field whose type accepts None although write_record's test `"null" not in field_type` is true"""
    s = U.resolve(s, named)
    if isinstance(s, list):
        x = v[1] if (isinstance(v, tuple) and tn and len(v) == 2) else v
        return any(CC.conforms(x, b, named, tn) and f9_shape(x, b, named, tn) for b in s)
    t = s if isinstance(s, str) else s["type"]
    if t == "array" and isinstance(v, (list, tuple)):
        return any(f9_shape(x, s["items"], named, tn) for x in v)
    if t == "map" and isinstance(v, dict):
        return any(f9_shape(x, s["values"], named, tn) for x in v.values())
    if t in ("record", "error") and isinstance(v, dict):
        for f in s["fields"]:
            ft = f["type"]
            if f["name"] in v:
                if f9_shape(v[f["name"]], ft, named, tn):
                    return True
            elif "default" not in f:
                spelled = ("null" in ft) if isinstance(ft, (str, list, dict)) else False
                if not spelled and CC.conforms(None, ft, named, tn):
                    return True
    return False


def check_validate(ctx, c, m, stats):
    tn = not c.wopts.get("disable_tuple_notation")
    dt = not tn
    kind = getattr_kind(c)
    key = (repr(c.raw), repr(c.datum), dt)
    ctx.count("corr:validate", key, nontrivial=CC.has_depth(c.datum))
    parts = impl_text(c)
    mparts = (m or "||").split("|")
    flat = [x for p in parts for x in p]
    if "TIMEOUT" in flat:
        ctx.violation("corr:validate", c.to_json(), impl=str(parts), model=(m or "")[:300], signature="C10:validate:timeout", found_input=True)
        return parts
    for k, strict in enumerate((False, True)):
        nr, r = parts[k]
        expected = U.conforms_x(c.datum, c.parsed, c.named, tn, strict)
        stats["expected_true" if expected else "expected_false"] += 1
        why = None
        if nr in ("T", "F"):
            if (nr == "T") != expected:
                why = ("accepts-nonconforming" if nr == "T" else "rejects-conforming")
        elif nr.startswith("E:"):
            why = "raises-" + nr[2:] + "-instead-of-answering"
        if why is None:
            # raising mode: ValidationError in precisely the False cases
            if (nr == "T" and r != "T") or (nr == "F" and r != "V"):
                why = "raise-mode-disagrees:%s-vs-%s" % (nr, r)
        if why:
            ctx.violation("corr:validate", c.to_json(), impl=f"strict={strict}: {nr}/{r}", model=(m or "")[:300],
                          signature="C10:validate:%s:%s%s" % (kind, why, ":strict" if strict and not why.startswith("raises-") else ""), found_input=True,
                          detail=f"documented mapping says {'conforming' if expected else 'non-conforming'}; validate(raise_errors=False)={nr}, "
                                 f"validate(raise_errors=True)={r}; mutation={kind}")
            continue
        mt = mparts[k] if k < len(mparts) else ""
        it = coarse(nr) + "/" + coarse(r)
        if mt != it:
            ctx.violation("corr:validate", c.to_json(), impl=it, model=mt, signature="C10:model-differs:validate", found_input=False,
                          detail=f"strict={strict}; the implementation agrees with the documented mapping on this case")
    return parts


def getattr_kind(c):
    return c.tag.split("#", 1)[1] if "#" in c.tag else "conforming"


def container_bytes(schema, records, dt, sync_interval):
    import fastavro
    fo = io.BytesIO()
    fastavro.writer(fo, schema, records, validator=True, sync_marker=b"\x07" * 16, sync_interval=sync_interval,
                    disable_tuple_notation=dt)
    return fo.getvalue()


def check_writer(ctx, c, m, parts, stats, good):
    """corr:validate-vs-writer for one case; `good` = a conforming datum of the same schema (or None)"""
    import fastavro
    from fastavro.validation import ValidationError
    tn = not c.wopts.get("disable_tuple_notation")
    dt = not tn
    nr = parts[0][0]
    key = (repr(c.raw), repr(c.datum), dt)
    kind = getattr_kind(c)
    mw = (m or "||").split("|")[2] if m and m.count("|") >= 2 else ""
    s = c.schema_arg()
    if nr == "T":
        ctx.count("corr:validate-vs-writer", key + ("accepted",), nontrivial=CC.has_depth(c.datum))
        stats["accepted"] += 1
        w = CC.impl_write(s, c.datum, disable_tuple_notation=dt)
        if w[0] != "ok":
            if w[1] in ("OverflowError", "error"):
                stats["float_range_excluded"] += 1
                return
            feat = "absent-field-null-not-spelled" if f9_shape(c.datum, c.parsed, c.named, tn) else (
                "tuple-arity-in-a-later-branch" if kind == "tuple-arity" else (
                    "type-hint-names-no-record-branch" if (w[1] == "ValueError" and not U.writable_x(c.datum, c.parsed, c.named, tn)) else "other"))
            ctx.violation("corr:validate-vs-writer", c.to_json(), impl="writer raised " + str(w[1]), model=mw[:300],
                          signature="C10:validate-vs-writer:accepted-writer-raises-%s:%s" % (w[1], feat), found_input=True,
                          detail="validate returned True but schemaless_writer raised; mutation=" + kind)
            return
        r = CC.impl_read(s, w[1])
        if r[0] != "ok" or r[2] != len(w[1]) or not CC.norm_equiv(c.datum, r[1], c.parsed, c.named, tn):
            ctx.violation("corr:validate-vs-writer", c.to_json(), impl=str(r)[:400], model=mw[:300],
                          signature="C10:validate-vs-writer:accepted-not-round-tripped", found_input=True,
                          detail="validate returned True, the writer encoded, but the value read back is not the normalised datum")
            return
        mfields = (m or "").split("|")
        if len(mfields) > 5 and mfields[5] != "hyp":
            ctx.violation("side-condition", c.to_json(), impl=None, model=mfields[5], signature="C10:side-condition:data_ok",
                          found_input=False, kind="broken-obligation",
                          detail="a hypothesis of C10_accepted_typed / C10_only_validation_error (wf_py / pyfloats_ok / wf_schema / wf_env / dflt_floats_ok / closed_refs / closed_env) is false on a generated case")
        if mw.startswith("W:"):
            if mw[2:].split(";")[0] != w[1].hex():
                ctx.violation("corr:validate-vs-writer", c.to_json(), impl=w[1].hex()[:600], model=mw[:600],
                              signature="C10:model-differs:writer-bytes", found_input=False)
            if ";FBAD" in mw:
                ctx.violation("side-condition", c.to_json(), impl=None, model=mw[:300], signature="C10:side-condition:floats_ok",
                              found_input=False, kind="broken-obligation")
        elif mw != "U":
            ctx.violation("corr:validate-vs-writer", c.to_json(), impl=w[1].hex()[:600], model=mw[:600],
                          signature="C10:model-differs:writer-status", found_input=False)
        if stats["accepted"] % 3 == 0:          # the container writer with validation enabled
            try:
                data = container_bytes(s, [c.datum], dt, 16000)
                out = list(fastavro.reader(io.BytesIO(data)))
                ok = len(out) == 1 and CC.norm_equiv(c.datum, out[0], c.parsed, c.named, tn)
                why = "" if ok else "read back " + repr(out)[:200]
            except Exception as e:
                ok, why = False, "raised " + type(e).__name__
            ctx.count("corr:validate-vs-writer", key + ("container",), nontrivial=CC.has_depth(c.datum))
            if not ok:
                ctx.violation("corr:validate-vs-writer", c.to_json(), impl=why, model=mw[:300],
                              signature="C10:validate-vs-writer:accepted-container-writer-fails", found_input=True)
        return
    # ---- rejected (False) or a foreign exception: the validating writer must raise before emitting anything
    if good is None:
        return
    ctx.count("corr:validate-vs-writer", key + ("rejected",), nontrivial=CC.has_depth(c.datum))
    stats["rejected"] += 1
    si = ctx.rng.choice([0, 16000])
    try:
        from fastavro.write import Writer
        fo = io.BytesIO()
        wr = Writer(fo, s, validator=True, sync_marker=b"\x07" * 16, sync_interval=si, options={"disable_tuple_notation": dt})
        wr.write(good)
        before = fo.getvalue()
        raised = None
        try:
            core.with_timeout(lambda: wr.write(c.datum), 20)
        except ValidationError:
            raised = "V"
        except Exception as e:
            raised = "E:" + type(e).__name__
        after = fo.getvalue()
        wr.flush()
        out = list(fastavro.reader(io.BytesIO(fo.getvalue())))
        expected_exc = "V" if nr == "F" else nr
        problems = []
        if raised is None:
            problems.append("Writer.write did not raise")
        elif coarse(raised) != coarse(expected_exc):
            problems.append(f"Writer.write raised {raised}, validate says {expected_exc}")
        if after != before:
            problems.append("bytes reached the stream during the rejected write")
        if not (len(out) == 1 and CC.norm_equiv(good, out[0], c.parsed, c.named, tn)):
            problems.append("after flush the file does not hold exactly the records accepted before: " + repr(out)[:200])
        if fo.getvalue() != container_bytes(s, [good], dt, si):
            problems.append("after flush the file differs from a file holding exactly the accepted records (bytes of the rejected record in a block)")
        # the function form
        fo2 = io.BytesIO()
        try:
            fastavro.writer(fo2, s, [good, c.datum], validator=True, sync_marker=b"\x07" * 16, sync_interval=si, disable_tuple_notation=dt)
            problems.append("writer(validator=True) did not raise")
        except Exception:
            pass
        if fo2.getvalue() != before:
            problems.append("writer(): the stream is not exactly the bytes before the rejected record")
    except Exception as e:
        problems = ["harness/writer set-up raised " + type(e).__name__ + ": " + str(e)[:200]]
    if problems:
        ctx.violation("corr:validate-vs-writer", dict(c.to_json(), good=repr(good)[:600], sync_interval=si), impl="; ".join(problems)[:800],
                      model="rejected record: raise, no byte emitted", signature="C10:validate-vs-writer:rejected:" +
                      problems[0].split(":")[0].replace(" ", "-")[:60], found_input=True, detail="mutation=" + kind)


def check_strict_writer(ctx, c, m, parts, stats):
    """corr:strict-writer: schemaless_writer(strict=True) / (strict_allow_default=True) vs the model's elaboration under the same
    options (the branch search runs the validator with the writer's options), and the statement: what validate(strict=True)
    accepts and the strict writer's field discipline admits must be encoded and read back"""
    import fastavro
    tn = not c.wopts.get("disable_tuple_notation")
    dt = not tn
    s = c.schema_arg()
    mp = (m or "").split("|")
    for k, (opt, allow_default) in enumerate((("strict", False), ("strict_allow_default", True))):
        mw = mp[3 + k] if len(mp) > 3 + k else ""
        key = (repr(c.raw), repr(c.datum), dt, opt)
        ctx.count("corr:strict-writer", key, nontrivial=CC.has_depth(c.datum))
        w = CC.impl_write(s, c.datum, disable_tuple_notation=dt, **{opt: True})
        claim = U.strict_claim(c.datum, c.parsed, c.named, tn, allow_default)
        if claim:
            stats["strict_claims"] += 1
            vt = parts[1][0] if not allow_default else parts[0][0]
            ok, why = True, ""
            if vt != "T":
                ok, why = False, f"validate(strict={not allow_default}) = {vt} on a datum that conforms strictly"
            elif w[0] != "ok":
                if w[1] not in ("OverflowError", "error"):
                    ok, why = False, f"schemaless_writer({opt}=True) raised {w[1]} on a datum validate accepts"
            else:
                r = CC.impl_read(s, w[1])
                if r[0] != "ok" or r[2] != len(w[1]) or not CC.norm_equiv(c.datum, r[1], c.parsed, c.named, tn):
                    ok, why = False, "written but not read back as the normalised datum"
            if ok and w[0] == "ok" and stats["strict_claims"] % 4 == 0:
                try:
                    fo = io.BytesIO()
                    fastavro.writer(fo, s, [c.datum], validator=True, disable_tuple_notation=dt, **{opt: True})
                    out = list(fastavro.reader(io.BytesIO(fo.getvalue())))
                    if not (len(out) == 1 and CC.norm_equiv(c.datum, out[0], c.parsed, c.named, tn)):
                        ok, why = False, f"writer(validator=True, {opt}=True): read back " + repr(out)[:200]
                except Exception as e:
                    ok, why = False, f"writer(validator=True, {opt}=True) raised {type(e).__name__}"
            if not ok:
                ctx.violation("corr:strict-writer", dict(c.to_json(), writer_option=opt), impl=why, model=mw[:300],
                              signature="C10:strict-writer:%s:accepted-by-validate-not-written" % opt, found_input=True,
                              detail=why + "; mutation=" + getattr_kind(c))
                continue
        if mw == "U" or not mw:
            continue
        it = ("W:" + w[1].hex()) if w[0] == "ok" else "E"
        if mw.split(";")[0] != it:
            ctx.violation("corr:strict-writer", dict(c.to_json(), writer_option=opt), impl=it[:600], model=mw[:600],
                          signature="C10:model-differs:strict-writer:" + opt, found_input=False,
                          detail="the statement's strict claim does not apply to this datum or holds; only the model differs")


def many_expected(singles, raise_errors):
    """what validate_many must answer given the single answers (in order)"""
    if raise_errors:
        for t in singles:
            if t.startswith("E"):
                return coarse(t)
        return "V" if any(t == "V" for t in singles) else "T"
    for t in singles:
        if t.startswith("E"):
            return coarse(t)
    return "T" if all(t == "T" for t in singles) else "F"


def check_many(ctx, group, results):
    import fastavro.validation
    from fastavro.validation import ValidationError
    c0 = group[0]
    dt = bool(c0.wopts.get("disable_tuple_notation"))
    for k, strict in enumerate((False, True)):
        for j, raise_errors in enumerate((False, True)):
            singles = [res[k][j] for res in results]
            exp = many_expected(singles, raise_errors)
            try:
                r = fastavro.validation.validate_many([c.datum for c in group], c0.parsed, raise_errors=raise_errors, strict=strict,
                                           disable_tuple_notation=dt)
                got = "T" if r is True else "F"
            except ValidationError:
                got = "V"
            except AttributeError:
                raise
            except Exception as e:
                got = "E"
            ctx.count("corr:validate-many", (repr(c0.raw), tuple(repr(c.datum) for c in group), strict, raise_errors, dt))
            if got != exp:
                ctx.violation("corr:validate-many", [c.to_json() for c in group], impl=got, model=exp + " from " + ",".join(singles),
                              signature="C10:validate-many:differs-from-single-validations", found_input=True,
                              detail=f"strict={strict} raise_errors={raise_errors}")


WITNESS_SCHEMAS = [
    # F9: dict-form null, and a union whose null is in dict form
    ({"type": "record", "name": "R9", "fields": [{"name": "a", "type": {"type": "null"}}, {"name": "b", "type": "int"}]}, {"b": 1}, "missing-required-field"),
    ({"type": "record", "name": "R9b", "fields": [{"name": "a", "type": [{"type": "null"}, "int"]}]}, {}, "missing-required-field"),
    # plain null spelled as a string: accepted and written
    ({"type": "record", "name": "R9c", "fields": [{"name": "a", "type": ["null", "int"]}, {"name": "n", "type": "null"}]}, {}, "missing-required-field"),
    # a tuple that is not a (name, value) pair under a union
    (["int", "string"], (1, 2, 3), "tuple-arity"),
    ({"type": "array", "items": ["null", {"type": "array", "items": "int"}]}, [None, (1, 2, 3)], "tuple-arity"),
    # a validating record branch followed by a branch on which validation raises
    ([{"type": "record", "name": "A1", "fields": [{"name": "x", "type": {"type": "array", "items": "int"}}]},
      {"type": "map", "values": ["int", "string"]}], {"x": (1, 2, 3)}, "tuple-arity"),
    # regression (9496e1e + bf75db4): a '-type' entry naming no record branch while a map branch fits -- rejected by both now
    ([{"type": "record", "name": "A2", "fields": [{"name": "x", "type": "int"}]}, {"type": "map", "values": ["int", "string"]}],
     {"x": 1, "-type": "B"}, "wrong-hint"),
    # strict writers: the branch search itself is strict -- A lacks its nullable default-less field, B fits exactly
    ([{"type": "record", "name": "SA", "fields": [{"name": "a", "type": "int"}, {"name": "b", "type": ["null", "string"]}]},
      {"type": "record", "name": "SB", "fields": [{"name": "a", "type": "int"}]}], {"a": 1}, "conforming"),
    # an explicit None in a non-nullable field that declares a default is NOT an absent field: rejected by validate and writers
    ({"type": "record", "name": "RD", "fields": [{"name": "count", "type": "int", "default": 0}, {"name": "s", "type": "string", "default": "x"}]},
     {"count": None, "s": "y"}, "none-for-defaulted-field"),
    ({"type": "array", "items": {"type": "record", "name": "RD2", "fields": [{"name": "f", "type": "double", "default": 1.5}]}},
     [{"f": 2.0}, {"f": None}], "none-for-defaulted-field"),
    # a tuple hint must give the FULL name of a named branch: the bare short name of a namespaced type names no branch
    ([{"type": "record", "name": "B", "namespace": "ns", "fields": [{"name": "x", "type": "int"}]}, "null"], ("B", {"x": 1}), "wrong-hint"),
    ({"type": "array", "items": [{"type": "enum", "name": "a.b.En", "symbols": ["A", "B"]}, "string"]}, [("a.b.En", "A"), ("En", "B")], "wrong-hint"),
    ([{"type": "fixed", "name": "p.Fx", "size": 2}, "bytes"], ("Fx", b"ab"), "wrong-hint"),
    ([{"type": "record", "name": "B", "namespace": "ns", "fields": [{"name": "x", "type": "int"}]}, "null"], ("record", {"x": 1}), "wrong-hint"),
    # O1 (observation): omitted bytes field whose default is a JSON string
    ({"type": "record", "name": "RO1", "fields": [{"name": "a", "type": "bytes", "default": "abc"}]}, {}, "missing-defaulted-field"),
]


def witness_cases():
    import fastavro
    out = []
    for raw, datum, kind in WITNESS_SCHEMAS:
        c = CC.Case()
        c.raw = json.loads(json.dumps(raw))
        c.named = {}
        c.parsed = fastavro.parse_schema(c.raw, c.named)
        c.datum, c.suffix, c.wopts, c.ropts, c.use_raw = datum, b"", {}, {}, False
        c.tag = "witness#" + kind
        out.append(c)
    return out


def run(ctx):
    rng = ctx.rng
    n = 1100 if ctx.quick() else 24000
    base = CC.gen_cases(ctx, n // 2, hints=True, big=False, wopts_variants=True) + U.make_cases(ctx, n - n // 2)
    cases, origs = [], []
    kinds = {}
    for c in base:
        tn = not c.wopts.get("disable_tuple_notation")
        c.ropts, c.suffix = {}, b""
        origs.append(c.datum)
        if rng.random() < 0.55:
            mu = U.mutate(rng, c.datum, c.parsed, c.named, tn)
            if mu is not None:
                try:
                    G.py_to_coq(mu[0])
                except TypeError:
                    mu = None
            if mu is not None:
                c.datum, kind = mu
                c.tag = c.tag + "#" + kind
                kinds[kind] = kinds.get(kind, 0) + 1
        cases.append(c)
    wit = witness_cases()           # first: their replays are the minimal ones
    cases = wit + cases
    origs = [None] * len(wit) + origs
    ctx.notes["mutation_kinds"] = kinds
    model = core.coq_eval([expr(c) for c in cases], U.IMPORTS, ctx.workdir, tag="c10", shard=120)
    stats = dict(expected_true=0, expected_false=0, accepted=0, rejected=0, float_range_excluded=0, strict_claims=0)
    results = []
    still_valid = 0
    for c, m, orig in zip(cases, model, origs):
        parts = check_validate(ctx, c, m, stats)
        results.append(parts)
        if "#" in c.tag and parts[0][0] == "T":
            still_valid += 1
        good = None
        if orig is not None and (orig is not c.datum) and U.conforms_x(orig, c.parsed, c.named, not c.wopts.get("disable_tuple_notation")):
            good = orig
        check_writer(ctx, c, m, parts, stats, good)
        check_strict_writer(ctx, c, m, parts, stats)
    # fixed validate_many witness: a datum rejected because its '-type' entry excludes every union branch (the ValidationError
    # raised by the union carries no error entries)
    import fastavro
    wc = []
    for d in ({"x": 1}, {"x": 1, "-type": "B"}):
        c = CC.Case()
        c.raw = [{"type": "record", "name": "AM", "fields": [{"name": "x", "type": "int"}]}, "null"]
        c.named = {}
        c.parsed = fastavro.parse_schema(json.loads(json.dumps(c.raw)), c.named) if not wc else wc[0].parsed
        c.named = c.named if not wc else wc[0].named
        c.datum, c.suffix, c.wopts, c.ropts, c.use_raw, c.tag = d, b"", {}, {}, False, "witness#wrong-hint"
        wc.append(c)
    check_many(ctx, wc, [impl_text(c) for c in wc])
    # validate_many must honour disable_tuple_notation like validate(): a tuple under a union is then a plain sequence
    for raw, data in (([{"type": "array", "items": "int"}, "null"], [(1, 2, 3), [4]]),
                      ([{"type": "array", "items": "string"}, "string"], [("string", "x"), "y"]),
                      ({"type": "array", "items": ["null", {"type": "array", "items": "long"}]}, [[(1, 2)], [None, (3,)]])):
        wd = []
        for d in data:
            c = CC.Case()
            c.raw = raw
            c.named = {} if not wd else wd[0].named
            c.parsed = fastavro.parse_schema(json.loads(json.dumps(raw)), c.named) if not wd else wd[0].parsed
            c.datum, c.suffix, c.wopts, c.ropts, c.use_raw, c.tag = d, b"", {"disable_tuple_notation": True}, {}, False, "witness#tuple-as-sequence"
            wd.append(c)
        check_many(ctx, wd, [impl_text(c) for c in wd])
    # ---- validate_many over the data of one schema
    i = 0
    while i < len(cases):
        j = i + 1
        while j < len(cases) and cases[j].parsed is cases[i].parsed and cases[j].wopts == cases[i].wopts and j - i < 4:
            j += 1
        if j - i >= 2 or cases[i].wopts.get("disable_tuple_notation"):
            check_many(ctx, cases[i:j], results[i:j])
        i = j
    ctx.notes["predicate_true/false_evaluations"] = [stats["expected_true"], stats["expected_false"]]
    ctx.notes["accepted/rejected_writer_cases"] = [stats["accepted"], stats["rejected"]]
    ctx.notes["float_range_excluded"] = stats["float_range_excluded"]
    ctx.notes["strict_writer_claims_evaluated"] = stats["strict_claims"]
    ctx.notes["mutated_but_still_accepted"] = still_valid
    ctx.notes["model_error_share"] = round(sum(1 for m in model if m and m.startswith("E/")) / max(1, len(model)), 4)
    # O1 observation
    o1 = [r for c, r in zip(cases, results) if c.tag.startswith("witness") and isinstance(c.raw, dict) and c.raw.get("name") == "RO1"]
    ctx.notes["observations"] = {"O1_bytes_default_as_string_validate": o1[0][0][0] if o1 else None}
    for c, m in list(zip(cases, model))[:500:100]:
        ctx.sample(dict(schema=c.raw, datum=repr(c.datum)[:200], tag=c.tag, model=(m or "")[:160]))


def replay(ctx, rep):
    case = rep["case"]
    if isinstance(case, list):
        print("validate_many group: re-run the check")
        return False
    c = CC.Case.from_json(case)
    m = core.coq_eval([expr(c)], U.IMPORTS, ctx.workdir, tag="rp", shard=10)[0]
    parts = impl_text(c)
    tn = not c.wopts.get("disable_tuple_notation")
    print("implementation (non-strict | strict; no-raise/raise):", parts)
    print("model         :", (m or "")[:400])
    ok = True
    for k, strict in enumerate((False, True)):
        exp = U.conforms_x(c.datum, c.parsed, c.named, tn, strict)
        nr, r = parts[k]
        print(f"documented mapping (strict={strict}):", exp)
        ok = ok and nr in ("T", "F") and (nr == "T") == exp and ((nr == "T" and r == "T") or (nr == "F" and r == "V"))
    if ok and parts[0][0] == "T":
        w = CC.impl_write(c.schema_arg(), c.datum, disable_tuple_notation=not tn)
        print("writer        :", w[0], (w[1].hex() if w[0] == "ok" else w[1]))
        ok = w[0] == "ok" or w[1] in ("OverflowError", "error")
    if ok and "good" in case and parts[0][0] != "T":
        stats = dict(expected_true=0, expected_false=0, accepted=0, rejected=0, float_range_excluded=0)
        nv = len(ctx.violations)
        good = eval(case["good"], dict(CC.EVAL_ENV))
        check_writer(ctx, c, m, parts, stats, good)
        check_strict_writer(ctx, c, m, parts, stats)
        ok = len(ctx.violations) == nv
    return ok
