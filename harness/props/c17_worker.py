"""Implementation-side worker for C17/C18.  Runs in its own interpreter with
PYTHONPATH=<repo under test> (never imports the harness package).

  c17_worker.py history <in.pkl> <out.jsonl>   run a whole call history in THIS interpreter
  c17_worker.py fresh   <in.pkl> <out.json>    run ONE call (arguments already resolved) and exit

A call description is a dict {"api": ..., <args>}; inside a history, arguments may be
{"$slot": name} references to objects living in the interpreter (parsed schemas, caller
supplied named_schemas dicts) and "$out": name stores the result there.
"""
import base64, importlib, io, json, os, pickle, pkgutil, random, shutil, struct, sys, tempfile, types
import datetime, decimal, uuid

# ----------------------------------------------------------------------------- canonical form
def canon(x, exempt=(), _seen=None):
    """Deep canonical string: bytes hex, floats by bit pattern (all NaNs equal), Decimal by
    as_tuple, dicts in insertion order, objects whose id is in `exempt` by a placeholder."""
    if _seen is None:
        _seen = set()
    if id(x) in exempt:
        return "<exempt>"
    if x is None or x is True or x is False:
        return repr(x)
    t = type(x)
    if t is int:
        return "i%d" % x
    if t is str:
        return "s" + json.dumps(x)
    if t is bytes:
        return "b" + x.hex()
    if t is bytearray:
        return "ba" + bytes(x).hex()
    if t is float:
        if x != x:
            return "fNaN"
        return "f" + struct.pack(">d", x).hex()
    if isinstance(x, decimal.Decimal):
        s, d, e = x.as_tuple()
        return "D(%d,%s,%s)" % (s, "".join(map(str, d)), e)
    if isinstance(x, datetime.datetime):
        return "dt(%s|%s)" % (x.isoformat(), x.utcoffset())
    if isinstance(x, (datetime.date, datetime.time, datetime.timedelta)):
        return "%s(%s)" % (t.__name__, x.isoformat() if hasattr(x, "isoformat") else repr(x))
    if isinstance(x, uuid.UUID):
        return "u" + x.hex
    if isinstance(x, (dict, list, tuple, set, frozenset)):
        if id(x) in _seen:
            return "<cycle>"
        _seen = _seen | {id(x)}
        if isinstance(x, dict):
            return t.__name__ + "{" + ",".join(canon(k, exempt, _seen) + ":" + canon(v, exempt, _seen) for k, v in x.items()) + "}"
        if isinstance(x, (set, frozenset)):
            return t.__name__ + "{" + ",".join(sorted(canon(v, exempt, _seen) for v in x)) + "}"
        return t.__name__ + "[" + ",".join(canon(v, exempt, _seen) for v in x) + "]"
    if isinstance(x, (types.FunctionType, types.BuiltinFunctionType, types.MethodType, type)):
        return "fn:%s.%s@%x" % (getattr(x, "__module__", "?"), getattr(x, "__qualname__", "?"), id(x))
    if isinstance(x, decimal.Context):
        return "ctx:" + repr(x)
    if isinstance(x, BaseException):
        return "exc:" + t.__name__
    if isinstance(x, types.ModuleType):
        return "module:" + x.__name__
    return "obj:%s:%s" % (t.__name__, _obj_state(x, exempt, _seen))


def _obj_state(x, exempt, seen):
    if id(x) in seen:
        return "<cycle>"
    seen = seen | {id(x)}
    d = getattr(x, "__dict__", None)
    if isinstance(d, dict):
        return canon(dict(d), exempt, seen)
    try:
        return repr(x) if type(x).__repr__ is not object.__repr__ else "@"
    except Exception:
        return "?"


# ----------------------------------------------------------------------------- global state snapshot
_MODS = None


def fa_modules():
    global _MODS
    if _MODS is None:
        import fastavro
        mods = [fastavro]
        for m in pkgutil.walk_packages(fastavro.__path__, "fastavro."):
            if m.name == "fastavro.__main__":
                continue
            try:
                mods.append(importlib.import_module(m.name))
            except Exception:
                continue                      # compiled mirrors are not importable here
        _MODS = [m for m in mods if getattr(m, "__file__", "").endswith(".py")]
    return _MODS


def _ctx_parts(prefix, c, out):
    out[prefix + ".prec"] = str(c.prec)
    fl = c.flags
    out[prefix + ".flags.Inexact"] = str(int(bool(fl[decimal.Inexact])))
    out[prefix + ".flags.Rounded"] = str(int(bool(fl[decimal.Rounded])))
    rest_flags = sorted(k.__name__ for k, v in fl.items() if v and k not in (decimal.Inexact, decimal.Rounded))
    out[prefix + ".rest"] = "rounding=%s Emin=%s Emax=%s capitals=%s clamp=%s otherflags=%s traps=%s" % (
        c.rounding, c.Emin, c.Emax, c.capitals, c.clamp, rest_flags,
        sorted(k.__name__ for k, v in c.traps.items() if v))


def snapshot():
    """key -> canonical string, for every module-level binding of every fastavro.* module
    (names included, so a new global shows up), every class attribute and every function default."""
    out = {}
    seen_fn = set()

    def fn_defaults(key, fn):
        if id(fn) in seen_fn:
            return
        seen_fn.add(id(fn))
        if fn.__defaults__:
            for i, d in enumerate(fn.__defaults__):
                out["%s.__defaults__[%d]" % (key, i)] = canon(d)
        if fn.__kwdefaults__:
            for k, d in fn.__kwdefaults__.items():
                out["%s.__kwdefaults__[%s]" % (key, k)] = canon(d)

    for mod in fa_modules():
        for name, val in list(vars(mod).items()):
            if name in ("__builtins__", "__cached__", "__loader__", "__spec__", "__doc__"):
                continue
            key = mod.__name__ + "." + name
            if isinstance(val, decimal.Context):
                _ctx_parts(key, val, out)
            elif isinstance(val, types.FunctionType):
                out[key] = canon(val)
                if val.__module__ == mod.__name__:
                    fn_defaults(key, val)
            elif isinstance(val, type):
                out[key] = canon(val)
                if val.__module__ == mod.__name__:
                    for k, v in list(vars(val).items()):
                        if k in ("__dict__", "__weakref__", "__doc__", "__module__", "__abstractmethods__", "_abc_impl",
                                 "__orig_bases__", "__parameters__", "__annotations__"):
                            continue
                        f = v.__func__ if isinstance(v, (staticmethod, classmethod)) else v
                        if isinstance(f, types.FunctionType):
                            out[key + "." + k] = canon(f)
                            fn_defaults(key + "." + k, f)
                        elif isinstance(v, property):
                            out[key + "." + k] = "property@%x" % id(v)
                        else:
                            out[key + "." + k] = canon(v)
            elif isinstance(val, types.ModuleType):
                out[key] = "module:" + val.__name__
            else:
                mo = getattr(val, "__module__", None) or ""
                if mo.startswith(("typing", "re")) or type(val).__module__ in ("typing", "re"):
                    out[key] = "typing/re@%x" % id(val)
                else:
                    out[key] = canon(val)
    return out


def snap_diff(a, b):
    keys = sorted(set(a) | set(b))
    return [[k, a.get(k, "<absent>")[:300], b.get(k, "<absent>")[:300]] for k in keys if a.get(k) != b.get(k)]


def ctx_cells():
    import fastavro._logical_readers_py as LR
    c = getattr(LR, "decimal_context", None)
    if not isinstance(c, decimal.Context):
        return None
    return [c.prec, int(bool(c.flags[decimal.Inexact])), int(bool(c.flags[decimal.Rounded]))]


# ----------------------------------------------------------------------------- executing one call
SYNC = bytes(range(16))


def outcome(fn, extra=None):
    """{"st": ok|raised, "val": canonical value | exception CLASS NAME, "extra": side outputs}"""
    try:
        v = fn()
        return dict(st="ok", val=canon(v), extra=extra() if extra else None)
    except BaseException as e:                       # class name only; never the message
        if isinstance(e, (KeyboardInterrupt, SystemExit)):
            raise
        return dict(st="raised", val=type(e).__name__, extra=extra() if extra else None)


def exec_call(c):
    """Returns (observable result as JSON-able, python result object or None)."""
    import fastavro
    from fastavro import schema as fschema
    api = c["api"]
    keep = {}

    if api == "parse_schema":
        kw = {}
        if c.get("named_schemas") is not None:
            kw["named_schemas"] = c["named_schemas"]
        if c.get("expand"):
            kw["expand"] = True

        def f():
            keep["r"] = fastavro.parse_schema(c["schema"], **kw)
            return [keep["r"], c.get("named_schemas")]          # the filled caller dict is an output too
        return outcome(f), keep.get("r")

    if api == "schemaless_writer":
        bio = io.BytesIO()
        return outcome(lambda: fastavro.schemaless_writer(bio, c["schema"], c["record"], **c.get("kw", {})),
                       lambda: "b" + bio.getvalue().hex()), None

    if api == "schemaless_reader":
        bio = io.BytesIO(c["data"])

        def f():
            keep["v"] = fastavro.schemaless_reader(bio, c["schema"], c.get("reader_schema"), **c.get("kw", {}))
            return keep["v"]
        r = outcome(f, lambda: bio.tell())
        if c.get("$mutate_result") and "v" in keep:
            consume(keep["v"])                 # the consumer edits what it was handed, after the call returned
        return r, None

    if api == "writer":
        bio = io.BytesIO()
        kw = dict(c.get("kw", {}))
        if "metadata" in c:
            kw["metadata"] = c["metadata"]
        # bytes written so far are observable, also when it raised midway
        return outcome(lambda: fastavro.writer(bio, c["schema"], c["records"], sync_marker=SYNC, **kw),
                       lambda: "b" + bio.getvalue().hex()), None

    if api == "reader":
        bio = io.BytesIO(c["data"])
        got = []

        def f():
            rd = fastavro.reader(bio, c.get("reader_schema"), **c.get("kw", {}))
            hdr = [rd.codec, rd.writer_schema, rd.metadata]
            for rec in rd:
                got.append(canon(rec))
                if c.get("$mutate_result"):
                    consume(rec)               # ... before the next record is read
            return hdr
        return outcome(f, lambda: got), None                   # records yielded before a failure are observable

    if api == "block_reader":
        from fastavro import block_reader
        bio = io.BytesIO(c["data"])
        got = []

        def f():
            br = block_reader(bio, c.get("reader_schema"))
            hdr = [br.codec, br.writer_schema, br.metadata]
            for blk in br:
                got.append([blk.num_records, blk.codec, [canon(x) for x in blk]])
            return hdr
        return outcome(f, lambda: got), None

    if api == "writer_new":
        # the Writer OBJECT api: records are handed in one by one by later calls, the file is finished by flush
        from fastavro.write import Writer
        bio = io.BytesIO()

        def f():
            keep["r"] = (Writer(bio, c["schema"], sync_marker=SYNC, **c.get("kw", {})), bio)
            return None
        return outcome(f, lambda: "b" + bio.getvalue().hex()), keep.get("r")

    if api == "writer_write":
        return outcome(lambda: c["writer"][0].write(c["record"])), None

    if api == "writer_flush":
        return outcome(lambda: c["writer"][0].flush(), lambda: "b" + c["writer"][1].getvalue().hex()), None

    if api == "reader_open":
        # readers are lazy: the header is parsed now, the records when the object is consumed (a later call)
        bio = io.BytesIO(c["data"])

        def f():
            keep["r"] = fastavro.reader(bio, c.get("reader_schema"), **c.get("kw", {}))
            return [keep["r"].codec, keep["r"].writer_schema, keep["r"].metadata]
        return outcome(f), keep.get("r")

    if api == "reader_consume":
        got = []

        def f():
            for rec in c["reader"]:
                got.append(canon(rec))
            return None
        return outcome(f, lambda: got), None

    if api == "validate":
        return outcome(lambda: fastavro.validate(c["datum"], c["schema"], **c.get("kw", {}))), None

    if api == "validate_many":
        from fastavro.validation import validate_many
        return outcome(lambda: validate_many(c["records"], c["schema"], **c.get("kw", {}))), None

    if api == "canonical":
        return outcome(lambda: fschema.to_parsing_canonical_form(c["schema"])), None

    if api == "fingerprint":
        return outcome(lambda: fschema.fingerprint(c["text"], c["algorithm"])), None

    if api == "json_writer":
        sio = io.StringIO()
        return outcome(lambda: fastavro.json_writer(sio, c["schema"], c["records"], **c.get("kw", {})),
                       lambda: "s" + json.dumps(sio.getvalue())), None

    if api == "json_reader":
        sio = io.StringIO(c["text"])
        got = []

        def f():
            for rec in fastavro.json_reader(sio, c["schema"], **c.get("kw", {})):
                got.append(canon(rec))
                if c.get("$mutate_result"):
                    consume(rec)
            return None
        return outcome(f, lambda: got), None

    if api == "generate_many":
        from fastavro.utils import generate_many

        def f():
            random.seed(c["seed"])
            return list(generate_many(c["schema"], c["count"]))
        return outcome(f), None

    if api == "load_schema":
        base = os.environ.get("C17_SCRATCH") or tempfile.gettempdir()
        d = tempfile.mkdtemp(prefix="ld", dir=base)
        try:
            for name, text in c["files"].items():
                with open(os.path.join(d, name + ".avsc"), "w") as fh:
                    fh.write(text)
            kw = {}
            if c.get("named_schemas") is not None:
                kw["named_schemas"] = c["named_schemas"]

            def f():
                keep["r"] = fschema.load_schema(os.path.join(d, c["top"] + ".avsc"), **kw)
                return [keep["r"], c.get("named_schemas")]
            return outcome(f), keep.get("r")
        finally:
            shutil.rmtree(d, ignore_errors=True)

    raise SystemExit("unknown api " + api)


EXEMPT_ARGS = ("named_schemas",        # "apart from filling the caller-supplied named-schema dictionary"
               "reader",               # a lazy reader object handed back for consumption: a stream, not schema/data
               "writer")               # a Writer object (and its stream)
OBSERVE_ARGS = ("metadata",)           # O2: neither schema nor data; recorded, not flagged


def consume(x, _seen=None):
    """what a consumer may do with a value it was handed: add to every container in it"""
    _seen = _seen if _seen is not None else set()
    if id(x) in _seen:
        return
    _seen.add(id(x))
    if isinstance(x, list):
        for v in list(x):
            consume(v, _seen)
        x.append("__consumer__")
    elif isinstance(x, dict):
        for v in list(x.values()):
            consume(v, _seen)
        x["__consumer__"] = 1
    elif isinstance(x, tuple):
        for v in x:
            consume(v, _seen)


def mutate(c):
    """harness-side: the CALLER changes a datum object it used in an earlier call (the history is pickled as one object
    graph, so `target` is that very object)"""
    t = c["target"]
    for k in c.get("path", []):
        t = t[k]
    if c["action"] == "set":
        t[c["key"]] = c["value"]
    elif c["action"] == "delete":
        t.pop(c["key"], None)
    elif c["action"] == "append":
        t.append(c["value"])


def resolve(c, slots):
    def r(v):
        if isinstance(v, dict) and len(v) == 1 and "$slot" in v:
            return slots.get(v["$slot"])
        return v
    return {k: r(v) for k, v in c.items() if k != "$out"}


def run_history(calls):
    fa_modules()
    slots = {}
    recs = []
    snap = snapshot()
    for i, c in enumerate(calls):
        if c["api"] == "new_dict":                      # harness-side helper, not an API call
            slots[c["$out"]] = {}
            continue
        if c["api"] == "mutate":                        # harness-side: the caller edits its own datum object
            mutate(c)
            continue
        rc = resolve(c, slots)
        exempt = {id(rc[k]) for k in EXEMPT_ARGS if rc.get(k) is not None}
        if "reader" in rc or "writer" in rc:
            pick = None                                 # a live reader object: only the rebuilt-arguments run applies
        else:                                           # (not even tried: pickling caches __slotnames__ on the classes)
            pick = base64.b64encode(pickle.dumps(rc, protocol=4)).decode()
        before = {k: canon(v, exempt) for k, v in rc.items() if k not in EXEMPT_ARGS}
        ctx_before = ctx_cells()
        res, obj = exec_call(rc)
        after = {k: canon(v, exempt) for k, v in rc.items() if k not in EXEMPT_ARGS}
        changed = [[k, before[k][:400], after[k][:400]] for k in before if before[k] != after[k]]
        snap2 = snapshot()
        rec = dict(i=i, api=c["api"], res=res, pickled=pick,
                   args_changed=[x for x in changed if x[0] not in OBSERVE_ARGS],
                   args_observed=[x for x in changed if x[0] in OBSERVE_ARGS],
                   globals_changed=snap_diff(snap, snap2), ctx_before=ctx_before, ctx=ctx_cells())
        snap = snap2
        if "$out" in c:
            slots[c["$out"]] = obj                      # None when the call raised
        recs.append(rec)
    return recs


def main():
    mode, inp, outp = sys.argv[1:4]
    with open(inp, "rb") as fh:
        payload = pickle.load(fh)
    if mode == "history":
        recs = run_history(payload)
        with open(outp, "w") as fh:
            for r in recs:
                fh.write(json.dumps(r) + "\n")
    elif mode == "fresh":
        rc = pickle.loads(base64.b64decode(payload)) if isinstance(payload, str) else payload
        res, _ = exec_call(rc)
        with open(outp, "w") as fh:
            json.dump(dict(res=res), fh)
    else:
        raise SystemExit("mode?")


if __name__ == "__main__":
    main()
