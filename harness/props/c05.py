"""C05 - container layout interoperates both ways with an independent implementation (the model)."""
import glob, io, json, os
from .. import core, gallina as G, codec_common as CC, container_common as K, gen
from . import c03, c04

SRCFACTS = ["container"]
RULE = ("corr:independent-parse = files written by fastavro (all 4 codecs) parsed by the model's reader (frames by the model, payloads "
        "decompressed by the stdlib) must give the written records; corr:foreign-files = files produced by the model's independent writer "
        "with random block partitions, empty blocks, records in multi-block layouts, header metadata map split into several chunks / "
        "negative-count chunks, codec key absent, every codec, plus the Java-written fixtures under tests/avro-files, read by fastavro.reader "
        "and block_reader; corr:block-reader = offsets/sizes/counts tile the file; corr:is_avro = all prefixes of the magic, every single-byte "
        "deviation (4 x 255, exhaustive), random strings, real files; non-trivial = file has at least one non-empty block")
TRUSTED = c04.TRUSTED
ASSUMPTIONS = ["fixtures whose schema uses the 'request' / 'error' message types or the snappy codec are skipped (not modelled / not importable)"]
PARTIAL = []


def lmap_term(rng, meta):
    """header metadata map as a layout: random chunking, both count forms"""
    items = ["(%s, LLeaf (ABytes %s))" % (G.cstr(k), G.hx(v.encode())) for k, v in meta.items()]
    blocks, i = [], 0
    while i < len(items):
        k = rng.randrange(1, len(items) - i + 1) if rng.random() < 0.6 else len(items) - i
        neg = rng.random() < 0.4
        blocks.append("(%s, %d, %s)" % ("true" if neg else "false", rng.choice([0, 5, 100]), G.clist(items[i:i + k])))
        i += k
    return "(LMap %s)" % G.clist(blocks)


def run(ctx):
    import fastavro
    rng = ctx.rng
    quick = ctx.quick()
    # ---- corr:independent-parse : fastavro writes, the model parses
    cases = c04.make_cases(ctx, 120 if quick else 3000)
    exprs, keep = [], []
    for c in cases:
        appended = len(c["records"]) >= 2 and (len(repr(c["raw"])) + len(c["records"])) % 4 == 1 and not c.get("piecewise")
        if appended:
            # the file is produced in TWO sessions: the second one appends (stream left at its end) and is given another codec,
            # marker and interval -- the appended blocks must follow the header the file already has
            full = c["records"]
            c = dict(c, records=full[:len(full) // 2])
        w = c04.impl_write_file(c)
        if w[0] != "ok":
            continue
        if appended:
            fo = w[1]
            try:
                fastavro.writer(fo, c["raw"] if c["use_raw"] else c["parsed"], full[len(full) // 2:], codec=rng.choice(K.CODECS),
                                sync_marker=bytes(rng.randrange(256) for _ in range(16)), sync_interval=rng.choice([1, 16000]))
            except Exception as e:
                ctx.violation("corr:independent-parse", c04.case_json(c), impl="append raised " + type(e).__name__ + ": " + str(e)[:200], model="appends",
                              signature="C05:writer:append-raises", found_input=True)
                continue
            c = dict(c, records=full, appended=True)
        c["data"] = w[1].getvalue()
        relayed = len(keep) < 4 or (len(repr(c["raw"])) + len(c["records"])) % 5 == 2
        if relayed and c["records"]:
            # the file is produced by a RELAY: a consumer takes the blocks of the file just written from block_reader, looks at the first
            # 0, 1, 2, ... records of each, and hands every block to Writer.write_block of a second container writer (another codec and
            # marker); that writer's file must have the prescribed layout and carry the same records, whatever the consumer looked at
            try:
                out2, codec2 = io.BytesIO(), rng.choice(K.CODECS)
                w2 = fastavro.write.Writer(out2, c["raw"] if c["use_raw"] else c["parsed"], codec=codec2,
                                           sync_marker=bytes(rng.randrange(256) for _ in range(16)))
                for bi, blk in enumerate(fastavro.block_reader(io.BytesIO(c["data"]))):
                    it = iter(blk)
                    for _ in range(1 + bi % 3 if len(keep) < 4 else bi % 3):
                        next(it, None)
                    w2.write_block(blk)
                w2.flush()
                c = dict(c, data=out2.getvalue(), codec=codec2, relayed=True)
            except Exception as e:
                ctx.violation("corr:independent-parse", dict(c04.case_json(c), relayed=True), impl="relay raised " + type(e).__name__ + ": " + str(e)[:200],
                              model="relays", signature="C05:writer:write_block-relay-raises", found_input=True)
                continue
        try:
            c["null"] = K.to_null(c["data"], c["codec"])
        except Exception:
            ctx.violation("corr:independent-parse", c04.case_json(c), impl=c["data"][:300].hex(), model="framable file",
                          signature="C05:writer:file-not-framable-by-independent-parser", found_input=True)
            continue
        exprs.append(K.expr_readfile(c["parsed"], c["named"], c["null"]))
        keep.append(c)
    model = CC.run_model(ctx, exprs, "c05p")
    for c, m in zip(keep, model):
        ctx.count("corr:independent-parse", (repr(c["raw"]), repr(c["records"]), c["codec"], c["si"]), nontrivial=bool(c["records"]))
        # what the independent parser recovers must be the written records (normalised): compare with fastavro's own reading text
        # and, independently of fastavro's reader, with the written data
        recs_txt = m.rsplit("|", 1)[0] if m else ""
        n_model = recs_txt.count(";")
        t, out = K.impl_read_file(c["data"])
        ok = m.endswith("|END") and n_model == len(c["records"]) and G.canon_model_text(t) == m and all(
            CC.norm_equiv(r, o, c["parsed"], c["named"]) for r, o in zip(c["records"], out))
        if not ok:
            ctx.violation("corr:independent-parse", c04.case_json(c), impl=t[:1500], model=m[:1500],
                          signature="C05:writer:independent-parser-does-not-recover-the-records", found_input=True)
        # header must carry avro.schema and avro.codec
        hl, meta, sync = K.split_header(c["data"])
        if meta.get(b"avro.codec") != c["codec"].encode() or b"avro.schema" not in meta or c["data"][:4] != b"Obj\x01":
            ctx.violation("corr:independent-parse", c04.case_json(c), impl=str(meta)[:500], model="magic + avro.schema + avro.codec",
                          signature="C05:writer:header-lacks-required-entries", found_input=True)
    # ---- corr:foreign-files : the model writes (independent writer), fastavro reads
    pool = []
    for fs in CC.FIXED_SCHEMAS:
        named = {}
        pool.append((fs, fastavro.parse_schema(json.loads(json.dumps(fs)), named), named))
    jobs = []
    for _ in range(110 if quick else 3000):
        if rng.random() < 0.4:
            raw, parsed, named = rng.choice(pool)
        else:
            try:
                raw, parsed, named = CC.make_schema(rng, max_depth=3)
            except Exception:
                continue
        codec = rng.choice(K.CODECS)
        meta = {}
        if rng.random() < 0.5:
            meta["user.key"] = rng.choice(["", "v", "é" * 3])
        meta["avro.schema"] = json.dumps(raw)
        with_codec_key = not (codec == "null" and rng.random() < 0.6)
        if with_codec_key:
            meta["avro.codec"] = codec
        if rng.random() < 0.3:
            meta["zzz"] = "last"
        sync = bytes(rng.randrange(256) for _ in range(16))
        nb = rng.choice([0, 1, 2, 3, 5])
        blocks, total = [], 0
        try:
            for _b in range(nb):
                k = rng.choice([0, 0, 1, 2, 4])
                lg = c03.LayoutGen(rng, named, max_depth=3)
                recs = [lg.gen(parsed) for _ in range(k)]
                total += k
                blocks.append("(%d, %s)" % (k, G.clist(recs)))
        except (gen.TooDeep, RecursionError):
            continue
        jobs.append(dict(raw=raw, parsed=parsed, named=named, codec=codec, total=total, nblocks=nb,
                         expr="run_foreign %s %s %s" % (lmap_term(rng, meta), G.hx(sync), G.clist(blocks))))
    files = CC.run_model(ctx, [j["expr"] for j in jobs], "c05f")
    rex, binfo = [], []
    for j, h in zip(jobs, files):
        j["null"] = bytes.fromhex(h)
        j["data"] = K.from_null(j["null"], j["codec"])
        rex.append(K.expr_readfile(j["parsed"], j["named"], j["null"]))
        binfo.append("run_blockinfos %s" % G.hx(j["null"]))
    rmodel = CC.run_model(ctx, rex, "c05r")
    bmodel = CC.run_model(ctx, binfo, "c05b")
    for j, m, bm in zip(jobs, rmodel, bmodel):
        case = dict(schema=j["raw"], codec=j["codec"], file=j["data"].hex(), n_records=j["total"], n_blocks=j["nblocks"])
        ctx.count("corr:foreign-files", (repr(j["raw"]), j["data"]), nontrivial=j["total"] > 0)
        if not m.endswith("|END") or m.count(";") != j["total"]:
            ctx.violation("corr:foreign-files", case, impl=None, model=m[:500], signature="C05:generator:model-rejects-its-own-file", found_input=False)
            continue
        t, out = K.impl_read_file(j["data"])
        if G.canon_model_text(t) != m:
            ctx.violation("corr:foreign-files", case, impl=t[:1500], model=m[:1500],
                          signature="C05:reader:" + ("raises-on-layout-valid-file" if not t.endswith("|END") else "records-differ-on-layout-valid-file"),
                          found_input=True)
        # block reader: records per block and tiling
        bt = K.impl_block_infos(j["data"])
        ctx.count("corr:block-reader", (repr(j["raw"]), j["data"]), nontrivial=j["nblocks"] > 0)
        try:
            hl, _, _ = K.split_header(j["data"])
            frames = K.split_blocks(j["data"], hl)
            expect = "".join("%d,%d,%d;" % (s, e - s, c) for c, _, _, s, e in frames) + "|END"
            tiles = (not frames and hl == len(j["data"])) or (frames[0][3] == hl and frames[-1][4] == len(j["data"]) and
                                                               all(a[4] == b[3] for a, b in zip(frames, frames[1:])))
        except K.Malformed:
            expect, tiles = None, False
        if bt != expect or not tiles or sum(c for c, *_ in frames) != j["total"] or (j["codec"] == "null" and bm != bt):
            ctx.violation("corr:block-reader", case, impl=bt[:800], model=(expect or "")[:800] + " / model: " + bm[:300],
                          signature="C05:block_reader:offsets-sizes-counts-do-not-tile-the-file", found_input=True)
        else:
            # records obtained by iterating the blocks
            try:
                recs = core.with_timeout(lambda: [r for b in fastavro.block_reader(io.BytesIO(j["data"])) for r in b], 30)
                bt2 = "".join(G.show_py(v) + ";" for v in recs) + "|END"
            except Exception as e:
                bt2 = "|RAISED"
            if G.canon_model_text(bt2) != m:
                ctx.violation("corr:block-reader", case, impl=bt2[:800], model=m[:800],
                              signature="C05:block_reader:records-differ", found_input=True)
    # ---- Java-written fixtures
    skipped = 0
    fx, fjobs = [], []
    for p in sorted(glob.glob(os.path.join(core.REPO, "tests", "avro-files", "*.avro"))):
        data = open(p, "rb").read()
        try:
            hl, meta, sync = K.split_header(data)
            codec = meta.get(b"avro.codec", b"null").decode()
            if codec not in K.CODECS:
                skipped += 1
                continue
            named = {}
            parsed = fastavro.parse_schema(json.loads(meta[b"avro.schema"].decode()), named)
            e = K.expr_readfile(parsed, named, K.to_null(data, codec))
        except Exception:
            skipped += 1
            continue
        fx.append(e); fjobs.append((p, data))
    fmodel = CC.run_model(ctx, fx, "c05j")
    for (p, data), m in zip(fjobs, fmodel):
        if b"logicalType" in data[:4096]:
            skipped += 1          # logical-type conversions are C16's subject; the codec model ignores the annotation
            continue
        t, out = K.impl_read_file(data)
        ctx.count("corr:fixtures", os.path.basename(p), nontrivial=len(out) > 0)
        if G.canon_model_text(t) != m:
            ctx.violation("corr:fixtures", dict(file=os.path.basename(p)), impl=t[:800], model=m[:800],
                          signature="C05:reader:fixture-records-differ-from-independent-parser", found_input=True)
    ctx.notes["fixtures_checked"] = len(fjobs)
    ctx.notes["fixtures_skipped"] = skipped
    # ---- corr:is_avro
    magic = b"Obj\x01"
    tests = [magic[:k] for k in range(5)] + [magic + b"x", magic * 2, b"", b"\x00" * 4, b"Obj\x02", b"obj\x01"]
    for pos in range(4):
        for b in range(256):
            if b != magic[pos]:
                tests.append(magic[:pos] + bytes([b]) + magic[pos + 1:] + b"rest")
    for _ in range(100 if quick else 5000):
        tests.append(bytes(rng.randrange(256) for _ in range(rng.randrange(0, 9))))
    tests += [c["data"] for c in keep[:20]]
    im = CC.run_model(ctx, ["run_is_avro %s" % G.hx(t) for t in tests], "c05a")
    for t, m in zip(tests, im):
        try:
            r = "T" if fastavro.is_avro(io.BytesIO(t)) else "F"
        except Exception as e:
            r = "E"
        ctx.count("corr:is_avro", t[:12], nontrivial=len(t) >= 4)
        if r != m or (r == "T") != t.startswith(magic):
            ctx.violation("corr:is_avro", dict(bytes=t[:40].hex()), impl=r, model=m, signature="C05:is_avro:wrong-answer", found_input=True)
    ctx.notes["is_avro_single_byte_deviations"] = "4 x 255 exhaustive"
    ctx.notes["foreign_codec_histogram"] = {k: sum(1 for j in jobs if j["codec"] == k) for k in K.CODECS}
    for j in jobs[:150:50]:
        ctx.sample(dict(schema=j["raw"], codec=j["codec"], n_blocks=j["nblocks"], n_records=j["total"], file_bytes=len(j["data"])))


def replay(ctx, rep):
    import fastavro
    c = rep["case"]
    if "bytes" in c:
        t = bytes.fromhex(c["bytes"])
        r = fastavro.is_avro(io.BytesIO(t))
        print("is_avro:", r, "starts with magic:", t.startswith(b"Obj\x01"))
        return r == t.startswith(b"Obj\x01")
    if "file" in c and "schema" in c:
        data = bytes.fromhex(c["file"])
        named = {}
        parsed = fastavro.parse_schema(c["schema"], named)
        m = CC.run_model(ctx, [K.expr_readfile(parsed, named, K.to_null(data, c["codec"]))], "rp")[0]
        t, _ = K.impl_read_file(data)
        print("implementation:", t[:400]); print("independent parser:", m[:400])
        return G.canon_model_text(t) == m
    print("re-run the check for this case kind")
    return False
