"""C16 - logical types: the specification's representation, round trip over the whole domain,
a decimal is never stored as a different number.

For every case three things are evaluated:
  (1) the IMPLEMENTATION: prepare_* called directly, fastavro.schemaless_writer (bytes on the wire,
      decoded with the tiny independent zig-zag decoder below), fastavro.schemaless_reader;
  (2) the MODEL (coq/model/Logical.v, evaluated inside Coq by vm_compute) on the abstracted input;
  (3) the PROPERTY'S OWN PREDICATE on the implementation: the stored value is what the specification
      prescribes (computed here with the standard library only) and what is read back equals the datum
      (truncated to the type's precision) -- or, for a datum the schema cannot represent, writing raised.
(3) failing => counterexample (found_input=True).  (1) != (2) with (3) holding => the tie broke only.
"""
import datetime as D
import decimal
import io
import math
import os
import time
import uuid
from decimal import Decimal

from .. import core

SRCFACTS = ["time"]
RULE = ("dates: ordinal 1, 3652059, every 1 Jan / 31 Dec / 29 Feb (sampled in quick), +-1 around the epoch, random; "
        "times: all carry boundaries (h, m, s, ms edges x us in {0,1,999,1000,999999}), random; "
        "datetimes: local value over the whole range incl. year 1 / 9999 edges, +-{0,1,999,1000,1001} us around the epoch and "
        "around second / day boundaries, offsets -23:59:59..+23:59:59, naive for local-* and (TZ=UTC) for timestamp-*; "
        "local-* additionally under four other process time zones (US Eastern, Japan, Newfoundland, Central Europe: DST gaps / "
        "folds, pre-epoch, range edges, random): stored value and read back must not depend on the zone; "
        "timestamp-* with aware data under the same four process zones: tzinfo = timezone.utc, timezone(0), a tzinfo subclass returning 0, "
        "+-1 us, +-1 s, fixed offsets up to +-23:59:59.999999, zoneinfo zones (London, New_York, Tokyo, Abidjan, Reykjavik, Lord_Howe); "
        "uuids: 0, 2^128-1, single-byte patterns, random; decimals: (precision <= 40, scale <= precision, size <= 17) accepted by "
        "parse_schema, values +-(2^(8k-1) - {0,1,2}), +-(2^(8k-1)+1), +-10^j, +-(10^j - 1), negative zero in several exponents, "
        "positive exponents, one digit too many, 1..4 fractional digits too many in every zero / non-zero pattern, one bit too large, NaN / Infinity, random; "
        "container positions: every logical type at top level, as record field, array item, map value, union branch, in nested "
        "containers and (named fixed decimal) by reference, read schemaless / from a container file, with and without a reader schema; "
        "reader alone: random byte strings incl. more digits than the precision and exact ties (half-even rounding); "
        "non-trivial = distinct datum inside the type's domain that is written without error")
TRUSTED = ["datetime / decimal / uuid are the standard library's: a date enters the model as its ordinal, a time as (h,m,s,us), "
           "a datetime as integer microseconds from the epoch ((dt - epoch) // timedelta(microseconds=1)), a Decimal as as_tuple(), "
           "a UUID as .int; date.fromordinal / toordinal agree with the model's calendar arithmetic ymd2ord on every date checked",
           "time.mktime under TZ=UTC (naive datetimes under timestamp-*) is the C library's",
           "int(a / b) (true division + truncation) is modelled as Z.quot: validated on every millisecond of the day (thorough) "
           "and on all k*unit + {-1,0,1} for micros"]
ASSUMPTIONS = ["process time zone is UTC for naive datetimes under timestamp-millis / timestamp-micros (the property says so)",
               "decimal schemas are those parse_schema accepts (precision >= 1, 0 <= scale <= precision, "
               "precision <= floor(log10(2) * (8*size - 1)) for fixed); |scale| far below the decimal context's Emax",
               "aware datetimes whose UTC image lies outside datetime.min..datetime.max are outside the property "
               "(writing works, reading raises OverflowError; model and implementation agree on that)"]
PARTIAL = []        # every theorem of props/C16.v is about the converters as they are in /repo now; the two
#                     `_refuted_old` theorems are about model/LogicalOld.v (prepare_fixed_decimal before eff0ba2)

IMPORTS = "From Coq Require Import String.\nFrom FA Require Import model.Base model.Logical model.LogicalPos.\n"

SIG_F2 = "C16:prepare_fixed_decimal:negative-overflow:stored-different-number"
SIG_NEGZERO = "C16:prepare_fixed_decimal:negative-zero:stored-different-number"

EPOCH_UTC = D.datetime(1970, 1, 1, tzinfo=D.timezone.utc)
EPOCH_NAIVE = D.datetime(1970, 1, 1)
US = D.timedelta(microseconds=1)
DT_MIN = -62135596800000000
DT_MAX = 253402300799999999
DAY_US = 86400 * 10 ** 6
MAX_ORD = 3652059
EPOCH_ORD = 719163

TS_KINDS = {  # name -> (model kind, schema, naive?)
    "timestamp-millis": (0, {"type": "long", "logicalType": "timestamp-millis"}, False),
    "timestamp-micros": (1, {"type": "long", "logicalType": "timestamp-micros"}, False),
    "local-timestamp-millis": (2, {"type": "long", "logicalType": "local-timestamp-millis"}, True),
    "local-timestamp-micros": (3, {"type": "long", "logicalType": "local-timestamp-micros"}, True),
    "timestamp-millis/naive-utc": (4, {"type": "long", "logicalType": "timestamp-millis"}, True),
    "timestamp-micros/naive-utc": (5, {"type": "long", "logicalType": "timestamp-micros"}, True),
}
S_DATE = {"type": "int", "logicalType": "date"}
S_TMIL = {"type": "int", "logicalType": "time-millis"}
S_TMIC = {"type": "long", "logicalType": "time-micros"}
S_UUID = {"type": "string", "logicalType": "uuid"}


# ------------------------------------------------------------------ small helpers
def z(n):
    return str(n) if n >= 0 else "(%d)" % n


def zl(l):
    return "[" + ";".join(z(int(x)) for x in l) + "]"


def dec_long(buf, pos=0):
    """independent zig-zag base-128 decoder: (value, next position)"""
    n = shift = 0
    while True:
        c = buf[pos]
        pos += 1
        n |= (c & 0x7F) << shift
        if not c & 0x80:
            break
        shift += 7
    return (n >> 1) ^ -(n & 1), pos


_parsed = {}


def parsed(schema):
    import fastavro
    k = repr(sorted(schema.items()))
    if k not in _parsed:
        _parsed[k] = fastavro.parse_schema(dict(schema))
    return _parsed[k]


def attempt(fn):
    try:
        return ("ok", core.with_timeout(fn, 10))
    except core.Timeout:
        return ("timeout", None)
    except Exception as e:      # the property only distinguishes "raised"
        return ("raised", type(e).__name__)


def wr(schema, obj):
    import fastavro
    bio = io.BytesIO()
    fastavro.schemaless_writer(bio, parsed(schema), obj)
    return bio.getvalue()


def rd(schema, raw):
    import fastavro
    return fastavro.schemaless_reader(io.BytesIO(raw), parsed(schema))


class ModelQueue:
    """Collects (Gallina function, items) batches from every family and evaluates them in ONE parallel
    coq_eval; each run_* below is a generator: register the batches, yield, then compare."""

    def __init__(self):
        self.jobs = []          # [fn, items, per, results]

    def add(self, fn, items, per=40):
        job = [fn, list(items), per, None]
        self.jobs.append(job)
        return job

    def run(self, ctx, tag="m"):
        exprs, where = [], []
        for j, (fn, items, per, _) in enumerate(self.jobs):
            for i in range(0, len(items), per):
                exprs.append("show_cases (%s) [%s]" % (fn, "; ".join(items[i:i + per])))
                where.append((j, len(items[i:i + per])))
        outs = core.coq_eval(exprs, IMPORTS, ctx.workdir, tag=tag, shard=20)
        for job in self.jobs:
            job[3] = []
        for o, (j, n) in zip(outs, where):
            parts = o.split(";")
            if len(parts) != n:
                raise RuntimeError("model output does not have one answer per case: " + o[:200])
            self.jobs[j][3].extend(parts)


def model_batch(ctx, fn, items, tag, per=40):
    """Evaluate the Gallina function fn : A -> string on every item (Gallina terms of type A)."""
    if not items:
        return []
    q = ModelQueue()
    job = q.add(fn, items, per)
    q.run(ctx, tag)
    return job[3]


def report(ctx, corr, case, key, impl, model, pred_ok, why, sig_pred, nontrivial=True):
    """count the case; predicate failing => counterexample; model != implementation only => tie broke."""
    ctx.count(corr, key, nontrivial=nontrivial)
    if not pred_ok:
        ctx.violation(corr, case, impl=impl, model=model, signature=sig_pred, found_input=True, detail=why)
    elif impl != model:
        ctx.violation(corr, case, impl=impl, model=model, signature="C16:%s:model-differs" % case["kind"],
                      found_input=False,
                      detail="implementation and model disagree; the property's predicate holds on this input")


# ------------------------------------------------------------------ dates
def date_case(o):
    return dict(kind="date", ordinal=o)


def eval_date(case):
    """implementation observables + the property's predicate"""
    from fastavro._logical_writers_py import prepare_date
    o = case["ordinal"]
    obj = D.date.fromordinal(o)
    spec = (obj - D.date(1970, 1, 1)).days
    prep = attempt(lambda: prepare_date(obj, S_DATE))
    w = attempt(lambda: wr(S_DATE, obj))
    if w[0] != "ok":
        return dict(prep=prep, wire=w[0], back=None), False, "writing a date inside the domain raised"
    stored, end = dec_long(w[1])
    b = attempt(lambda: rd(S_DATE, w[1]))
    back = b[1].toordinal() if b[0] == "ok" and type(b[1]) is D.date else b[0] + ":" + repr(b[1])
    impl = dict(prep=prep[1] if prep[0] == "ok" else prep[0], wire=stored, back=back)
    ok = end == len(w[1]) and stored == spec and prep == ("ok", spec) and b == ("ok", obj)
    why = None if ok else "stored %r (spec: %r days from 1970-01-01), read back %r, datum %r" % (stored, spec, b[1], obj)
    return impl, ok, why


def gen_dates(ctx):
    rng = ctx.rng
    os_ = {1, 2, 3, MAX_ORD, MAX_ORD - 1, EPOCH_ORD, EPOCH_ORD - 1, EPOCH_ORD + 1, EPOCH_ORD - 365, EPOCH_ORD + 366}
    years = range(1, 10000) if not ctx.quick() else sorted(set(rng.sample(range(1, 10000), 250)) |
                                                           {1, 2, 4, 100, 400, 1582, 1600, 1899, 1900, 1901, 1969, 1970, 1971,
                                                            1972, 2000, 2038, 2100, 2400, 9996, 9999})
    for y in years:
        os_.add(D.date(y, 1, 1).toordinal())
        os_.add(D.date(y, 12, 31).toordinal())
        os_.add(D.date(y, 3, 1).toordinal() - 1)          # 28 or 29 Feb
        os_.add(D.date(y, 3, 1).toordinal())
    for _ in range(400 if ctx.quick() else 20000):
        os_.add(rng.randrange(1, MAX_ORD + 1))
    return sorted(os_)


def run_dates(ctx, q):
    from fastavro._logical_readers_py import read_date
    ords = gen_dates(ctx)
    j_date = q.add("c_date", [z(o) for o in ords])
    ymd = [D.date.fromordinal(o) for o in ords]
    j_ymd = q.add("c_ymd", ["(%d,%d,%d)" % (d.year, d.month, d.day) for d in ymd])
    raw = [-EPOCH_ORD - 1, -EPOCH_ORD, -EPOCH_ORD + 1, MAX_ORD - EPOCH_ORD, MAX_ORD - EPOCH_ORD + 1, 2 ** 31 - 1, -2 ** 31, 0, -1]
    j_raw = q.add("fun d => show_res show_Z (read_date d)", [z(d) for d in raw])
    yield
    for o, m, my in zip(ords, j_date[3], j_ymd[3]):
        case = date_case(o)
        impl, ok, why = eval_date(case)
        mw, mr = m.split("|")
        mdl = dict(prep=int(mw), wire=int(mw), back=int(mr) if mr != "ERR" else "raised")
        report(ctx, "corr:date", case, ("date", o), impl, mdl, ok, why, "C16:date:stored-or-read-back-differs")
        ctx.count("corr:calendar", ("ymd", o))
        if int(my) != o:            # abstraction check: the standard library's ordinal vs the model's calendar arithmetic
            ctx.violation("corr:calendar", dict(kind="ymd", ordinal=o), impl=o, model=int(my),
                          signature="C16:abstraction:toordinal-differs-from-calendar-arithmetic", found_input=False)
    # reader alone, outside the domain: raises exactly where the model says so
    for d, m in zip(raw, j_raw[3]):
        r = attempt(lambda: read_date(d, S_DATE))
        impl = r[1].toordinal() if r[0] == "ok" else "raised"
        mdl = int(m) if m != "ERR" else "raised"
        report(ctx, "corr:date-reader", dict(kind="date-read", data=d), ("dr", d), impl, mdl, True, None, None, nontrivial=False)
    # ISO strings are accepted by prepare_date as well
    for s in ["1970-01-01", "0001-01-01", "9999-12-31", "2000-02-29", "1969-12-31"]:
        w = attempt(lambda: dec_long(wr(S_DATE, s))[0])
        spec = (D.date.fromisoformat(s) - D.date(1970, 1, 1)).days
        ctx.count("corr:date", ("iso", s))
        if w != ("ok", spec):
            ctx.violation("corr:date", dict(kind="date-iso", text=s), impl=w, model=spec,
                          signature="C16:date:iso-string-stored-differs", found_input=True)
    ctx.sample(dict(date="0001-01-01", stored=dec_long(wr(S_DATE, D.date(1, 1, 1)))[0]))
    ctx.notes["dates"] = len(ords)


# ------------------------------------------------------------------ times of day
def eval_time(case):
    from fastavro._logical_writers_py import prepare_time_millis, prepare_time_micros
    h, m, s, us = case["hmsu"]
    millis = case["kind"] == "time-millis"
    schema, prep_fn = (S_TMIL, prepare_time_millis) if millis else (S_TMIC, prepare_time_micros)
    obj = D.time(h, m, s, us)
    spec = ((h * 60 + m) * 60 + s) * 1000 + us // 1000 if millis else ((h * 60 + m) * 60 + s) * 10 ** 6 + us
    expect = obj.replace(microsecond=us // 1000 * 1000) if millis else obj
    prep = attempt(lambda: prep_fn(obj, schema))
    w = attempt(lambda: wr(schema, obj))
    if w[0] != "ok":
        return dict(prep=prep, wire=w[0], back=None), False, "writing a time of day raised"
    stored, end = dec_long(w[1])
    b = attempt(lambda: rd(schema, w[1]))
    back = [b[1].hour, b[1].minute, b[1].second, b[1].microsecond] if b[0] == "ok" and type(b[1]) is D.time else b[0]
    impl = dict(prep=prep[1] if prep[0] == "ok" else prep[0], wire=stored, back=back)
    ok = end == len(w[1]) and stored == spec and prep == ("ok", spec) and type(prep[1]) is int and b == ("ok", expect)
    why = None if ok else "stored %r (spec %r), read back %r, expected %r" % (stored, spec, b[1], expect)
    return impl, ok, why


def gen_times(ctx):
    rng = ctx.rng
    hs, ms, ss = [0, 1, 11, 12, 13, 22, 23], [0, 1, 29, 30, 58, 59], [0, 1, 29, 30, 58, 59]
    uss = [0, 1, 499, 500, 999, 1000, 1001, 1999, 2000, 499999, 500000, 999000, 999001, 999499, 999500, 999998, 999999]
    out = set()
    for h in hs:
        for m in ms:
            for s in ss:
                for us in (uss if not ctx.quick() else rng.sample(uss, 4) + [0, 999999]):
                    out.add((h, m, s, us))
    for _ in range(500 if ctx.quick() else 30000):
        out.add((rng.randrange(24), rng.randrange(60), rng.randrange(60), rng.randrange(10 ** 6)))
    return sorted(out)


def run_times(ctx, q):
    from fastavro._logical_readers_py import read_time_millis, read_time_micros
    ts = gen_times(ctx)
    items = ["(%d,%d,%d,%d)" % t for t in ts]
    jobs = {kind: q.add(fn, items) for kind, fn in (("time-millis", "c_time_millis"), ("time-micros", "c_time_micros"))}
    # readers alone on raw unit counts (all of the day is covered by the theorem + the thorough sweep)
    rng = ctx.rng
    readers = []
    for kind, unit, fn, mfn in (("time-millis", 1000, read_time_millis, "read_time_millis"),
                                ("time-micros", 10 ** 6, read_time_micros, "read_time_micros")):
        day = 86400 * unit
        raw = {0, 1, day - 1, day, day + 1, -1, -unit, -day, 2 * day, 3600 * unit - 1, 3600 * unit, 60 * unit - 1, 60 * unit}
        for _ in range(150 if ctx.quick() else 5000):
            k = rng.randrange(86400)
            raw.update({k * unit - 1, k * unit, k * unit + 1, rng.randrange(day)})
        raw = sorted(raw)
        readers.append((kind, unit, fn, raw, q.add("fun d => show_res show_tod (%s d)" % mfn, [z(d) for d in raw])))
    yield
    for kind in jobs:
        for t, m in zip(ts, jobs[kind][3]):
            case = dict(kind=kind, hmsu=list(t))
            impl, ok, why = eval_time(case)
            mw, mr = m.split("|")
            mdl = dict(prep=int(mw), wire=int(mw), back=[int(x) for x in mr.split(",")] if mr != "ERR" else "raised")
            report(ctx, "corr:" + kind, case, (kind, t), impl, mdl, ok, why, "C16:%s:stored-or-read-back-differs" % kind)
    for kind, unit, fn, raw, job in readers:
        day = 86400 * unit
        for d, m in zip(raw, job[3]):
            r = attempt(lambda: fn(d))
            impl = [r[1].hour, r[1].minute, r[1].second, r[1].microsecond] if r[0] == "ok" else "raised"
            mdl = [int(x) for x in m.split(",")] if m != "ERR" else "raised"
            inside = 0 <= d < day
            ok = True
            if inside:      # the reader's own predicate inside the domain: it names the d-th unit of the day
                hh, rem = divmod(d, 3600 * unit)
                mm, rem = divmod(rem, 60 * unit)
                sec, frac = divmod(rem, unit)
                ok = impl == [hh, mm, sec, frac * (10 ** 6 // unit)]
            report(ctx, "corr:%s-reader" % kind, dict(kind=kind + "-read", data=d), (kind, "r", d), impl, mdl, ok,
                   None if ok else "unit %d of the day read as %r" % (d, impl), "C16:%s:reader-wrong-time" % kind,
                   nontrivial=inside)
    ctx.sample(dict(time="23:59:59.999999", millis=dec_long(wr(S_TMIL, D.time(23, 59, 59, 999999)))[0],
                    micros=dec_long(wr(S_TMIC, D.time(23, 59, 59, 999999)))[0]))
    ctx.notes["times_of_day"] = len(ts)


# ------------------------------------------------------------------ timestamps
def make_dt(local_us, off_s):
    naive = EPOCH_NAIVE + D.timedelta(microseconds=local_us)
    if off_s is None:
        return naive
    return naive.replace(tzinfo=D.timezone(D.timedelta(seconds=off_s)))


class _ZeroTz(D.tzinfo):
    """a tzinfo whose utcoffset() is timedelta(0) without being datetime.timezone.utc"""

    def utcoffset(self, dt):
        return D.timedelta(0)

    def dst(self, dt):
        return None

    def tzname(self, dt):
        return "ZERO"


def make_obj(case):
    """the datum of a timestamp case; case["aware"] (optional) names the tzinfo attached to the wall clock local_us:
    "utc" (datetime.timezone.utc), "zero" (a tzinfo subclass returning timedelta(0)), ["fixed_us", n]
    (datetime.timezone of n microseconds), ["zoneinfo", key]"""
    a = case.get("aware")
    if a is None:
        return make_dt(case["local_us"], case["offset_s"])
    naive = EPOCH_NAIVE + D.timedelta(microseconds=case["local_us"])
    if a == "utc":
        return naive.replace(tzinfo=D.timezone.utc)
    if a == "zero":
        return naive.replace(tzinfo=_ZeroTz())
    if a[0] == "fixed_us":
        return naive.replace(tzinfo=D.timezone(D.timedelta(microseconds=a[1])))
    import zoneinfo
    return naive.replace(tzinfo=zoneinfo.ZoneInfo(a[1]))


class process_tz:
    """run a block under another process time zone (TZ + tzset), then restore UTC"""

    def __init__(self, zone):
        self.zone = zone

    def __enter__(self):
        if self.zone:
            os.environ["TZ"] = self.zone
            time.tzset()

    def __exit__(self, *a):
        os.environ["TZ"] = "UTC"
        time.tzset()


def eval_ts(case):
    with process_tz(case.get("tz")):
        return _eval_ts(case)


def _eval_ts(case):
    import fastavro._logical_writers_py as LW
    name = case["type"]
    mk, schema, naive = TS_KINDS[name]
    millis = mk in (0, 2, 4)
    obj = make_obj(case)
    if naive:
        t = (obj - EPOCH_NAIVE) // US
    else:
        t = (obj - EPOCH_UTC) // US
    prep_fn = {0: LW.prepare_timestamp_millis, 1: LW.prepare_timestamp_micros, 2: LW.prepare_local_timestamp_millis,
               3: LW.prepare_local_timestamp_micros, 4: LW.prepare_timestamp_millis, 5: LW.prepare_timestamp_micros}[mk]
    spec = t // 1000 if millis else t
    spec_back = spec * 1000 if millis else spec
    in_range = DT_MIN <= t <= DT_MAX
    prep = attempt(lambda: prep_fn(obj, schema))
    w = attempt(lambda: wr(schema, obj))
    if w[0] != "ok":
        return t, dict(prep=prep, wire=w[0], back=None), False, "writing a datetime raised"
    stored, end = dec_long(w[1])
    b = attempt(lambda: rd(schema, w[1]))
    if b[0] == "ok" and type(b[1]) is D.datetime:
        r = b[1]
        local_result = mk in (2, 3)
        if local_result:
            shape = r.tzinfo is None
            back = (r - EPOCH_NAIVE) // US if shape else "aware"
        else:
            shape = r.tzinfo is not None and r.utcoffset() == D.timedelta(0)
            back = (r - EPOCH_UTC) // US if r.tzinfo is not None else "naive"
    else:
        shape, back = False, "raised"
    impl = dict(prep=prep[1] if prep[0] == "ok" else prep[0], wire=stored, back=back)
    ok = end == len(w[1]) and stored == spec and prep == ("ok", spec)
    if in_range:
        ok = ok and shape and back == spec_back
    why = None if ok else "instant %d us: stored %r (spec %r), read back %r (expected %r, UTC/naive shape ok: %r)" % (
        t, stored, spec, back, spec_back, shape)
    return t, impl, ok, why


def gen_instants(ctx, n_random):
    rng = ctx.rng
    near = [0, 1, 2, 499, 500, 501, 999, 1000, 1001, 1499, 1500, 1999, 2000, 999999, 10 ** 6, 10 ** 6 + 1, DAY_US - 1, DAY_US, DAY_US + 1]
    vals = set()
    for v in near:
        vals.update({v, -v})
    for base in (DT_MIN, DT_MAX):
        for d in near[:12] + [DAY_US - 1, DAY_US]:
            vals.add(base + d if base == DT_MIN else base - d)
    for _ in range(n_random):
        c = rng.randrange(6)
        if c == 0:
            vals.add(rng.randrange(DT_MIN, DT_MAX + 1))
        elif c == 1:
            vals.add(rng.randrange(-2 * 10 ** 15, 0))             # pre-epoch, a few decades
        elif c == 2:
            vals.add(rng.randrange(0, 2 * 10 ** 15))
        elif c == 3:
            vals.add(rng.randrange(DT_MIN // 10 ** 6, DT_MAX // 10 ** 6) * 10 ** 6 + rng.choice([-1, 0, 1, 999, 1000, 999999]))
        elif c == 4:
            vals.add(rng.randrange(DT_MIN // DAY_US + 1, DT_MAX // DAY_US) * DAY_US + rng.choice([-1, 0, 1]))
        else:
            vals.add(rng.randrange(-10 ** 7, 10 ** 7))
    return sorted(v for v in vals if DT_MIN <= v <= DT_MAX)


OFFSETS = [0, 60, -60, 3600, -3600, 19800, -34200, 86340, -86340, 86399, -86399, 1, -1, 45296]


def run_timestamps(ctx, q):
    import fastavro._logical_readers_py as LR
    rng = ctx.rng
    time.tzset()
    n = 350 if ctx.quick() else 25000
    total = 0
    planned = []
    for name, (mk, schema, naive) in TS_KINDS.items():
        cases = []
        for v in gen_instants(ctx, n):
            if naive:
                cases.append(dict(kind="timestamp", type=name, local_us=v, offset_s=None))
            else:
                offs = [rng.choice(OFFSETS), rng.randrange(-86399, 86400)]
                if abs(v) < 3000 or v - DT_MIN < 3000 or DT_MAX - v < 3000:
                    offs += [0, 86399, -86399]
                for off in set(offs):
                    cases.append(dict(kind="timestamp", type=name, local_us=v, offset_s=off))
        evald = [eval_ts(c) for c in cases]
        planned.append((name, cases, evald, q.add("c_ts %d" % mk, [z(e[0]) for e in evald])))
        total += len(cases)
    rplanned = []
    for rname, fn, unit in (("read_timestamp_millis", LR.read_timestamp_millis, 1000), ("read_timestamp_micros", LR.read_timestamp_micros, 1),
                            ("read_local_timestamp_millis", LR.read_local_timestamp_millis, 1000),
                            ("read_local_timestamp_micros", LR.read_local_timestamp_micros, 1)):
        raw = [DT_MIN // unit - 1, DT_MIN // unit, DT_MIN // unit + 1, DT_MAX // unit, DT_MAX // unit + 1, 0, -1, 1, 2 ** 63 - 1, -2 ** 63]
        rplanned.append((rname, fn, raw, q.add("fun d => show_res show_Z (%s d)" % rname, [z(d) for d in raw])))
    yield
    for name, cases, evald, job in planned:
        for c, (t, impl, ok, why), m in zip(cases, evald, job[3]):
            mw, mr = m.split("|")
            mdl = dict(prep=int(mw), wire=int(mw), back=int(mr) if mr != "ERR" else "raised")
            c["instant_us"] = t
            report(ctx, "corr:" + name, c, (name, t, c["offset_s"]), impl, mdl, ok, why,
                   "C16:%s:stored-or-read-back-differs" % name, nontrivial=DT_MIN <= t <= DT_MAX)
    # readers alone at the edge of the datetime range
    for rname, fn, raw, job in rplanned:
        for d, m in zip(raw, job[3]):
            r = attempt(lambda: fn(d))
            if r[0] == "ok":
                impl = (r[1] - (EPOCH_NAIVE if r[1].tzinfo is None else EPOCH_UTC)) // US
            else:
                impl = "raised"
            mdl = int(m) if m != "ERR" else "raised"
            report(ctx, "corr:timestamp-reader", dict(kind="timestamp-read", reader=rname, data=d), (rname, d), impl, mdl,
                   True, None, None, nontrivial=False)
    # non-datetime data passes through the converters unchanged (ints are written as they are)
    for name, (mk, schema, naive) in list(TS_KINDS.items())[:4]:
        for v in (0, -1, 1234567890123):
            w = attempt(lambda: dec_long(wr(schema, v))[0])
            ctx.count("corr:" + name, (name, "int", v), nontrivial=False)
            if w != ("ok", v):
                ctx.violation("corr:" + name, dict(kind="timestamp-int", type=name, data=v), impl=w, model=v,
                              signature="C16:%s:int-passthrough-differs" % name, found_input=True)
    pre = make_dt(-1, 19800)
    ctx.sample(dict(datetime=repr(pre), timestamp_millis=dec_long(wr(TS_KINDS["timestamp-millis"][1], pre))[0],
                    read_back=repr(rd(TS_KINDS["timestamp-millis"][1], wr(TS_KINDS["timestamp-millis"][1], pre)))))
    ctx.notes["datetimes"] = total


# local-timestamp-* must not depend on the process time zone ("regardless of what specific time zone is considered
# local"): the same naive datetimes under other POSIX zones, incl. DST gaps / folds, pre-epoch values, range edges
ZONES = ["EST5EDT,M3.2.0,M11.1.0", "JST-9", "NST3:30NDT,M3.2.0,M11.1.0", "CET-1CEST,M3.5.0,M10.5.0/3"]


def gen_zone_values(ctx):
    rng = ctx.rng
    vals = {0, 1, -1, 999, 1000, -999, -1000, -1001, DAY_US, -DAY_US, DT_MIN, DT_MIN + 1, DT_MAX, DT_MAX - 999,
            DT_MIN + DAY_US, DT_MAX - DAY_US}
    walls = [D.datetime(2021, 3, 14, 2, 30), D.datetime(2021, 3, 14, 1, 59, 59, 999999), D.datetime(2021, 3, 14, 3, 0),
             D.datetime(2021, 11, 7, 1, 30), D.datetime(2021, 11, 7, 0, 59, 59, 999999), D.datetime(2021, 11, 7, 2, 0),
             D.datetime(2021, 3, 28, 2, 30), D.datetime(2021, 10, 31, 2, 30), D.datetime(2021, 3, 14, 2, 0, 0, 1),
             D.datetime(2021, 11, 7, 1, 0, 0, 500), D.datetime(1969, 12, 31, 23, 59, 59, 999000), D.datetime(1903, 7, 4, 6, 0, 0, 5000),
             D.datetime(2500, 1, 1, 0, 0, 0, 1000), D.datetime(2024, 2, 29, 12, 34, 56, 789012), D.datetime(1970, 1, 1, 9),
             D.datetime(1969, 12, 31, 15), D.datetime(1970, 1, 1, 3, 30), D.datetime(2038, 1, 19, 3, 14, 8)]
    for w in walls:
        vals.add((w - EPOCH_NAIVE) // US)
    for _ in range(40 if ctx.quick() else 3000):
        c = rng.randrange(4)
        if c == 0:
            vals.add(rng.randrange(DT_MIN, DT_MAX + 1))
        elif c == 1:
            vals.add(rng.randrange(-3 * 10 ** 15, 0))                       # pre-epoch, within a century
        elif c == 2:
            vals.add(rng.randrange(0, 3 * 10 ** 15))
        else:                                                               # around a US / EU transition of a random year
            y = rng.randrange(1971, 2037)
            w = D.datetime(y, rng.choice([3, 11, 10]), rng.randrange(1, 29), rng.choice([0, 1, 2, 3]), rng.randrange(60),
                           rng.randrange(60), rng.choice([0, 1, 999, 1000, 999999]))
            vals.add((w - EPOCH_NAIVE) // US)
    return sorted(vals)


def run_local_zones(ctx, q):
    planned = []
    vals = gen_zone_values(ctx)
    for zone in ZONES:
        for name in ("local-timestamp-millis", "local-timestamp-micros"):
            mk = TS_KINDS[name][0]
            cases = [dict(kind="timestamp", type=name, local_us=v, offset_s=None, tz=zone) for v in vals]
            try:
                with process_tz(zone):
                    evald = [_eval_ts(c) for c in cases]
            finally:
                os.environ["TZ"] = "UTC"
                time.tzset()
            planned.append((name, cases, evald, q.add("c_ts %d" % mk, [z(e[0]) for e in evald])))
    yield
    for name, cases, evald, job in planned:
        for c, (t, impl, ok, why), m in zip(cases, evald, job[3]):
            mw, mr = m.split("|")
            mdl = dict(prep=int(mw), wire=int(mw), back=int(mr) if mr != "ERR" else "raised")
            c["instant_us"] = t
            report(ctx, "corr:%s/other-process-zones" % name, c, (name, t, c["tz"]), impl, mdl, ok,
                   None if ok else "process TZ=%s: %s" % (c["tz"], why), "C16:%s:depends-on-process-time-zone" % name)
    ctx.notes["process_time_zones_for_local_timestamps"] = ZONES
    ctx.notes["local_timestamp_values_per_zone"] = len(vals)


# timestamp-millis / micros with AWARE data must not depend on the process time zone either -- in particular when the
# datum's offset is exactly zero (timezone.utc, timezone(timedelta(0)), a tzinfo returning timedelta(0), a zoneinfo zone
# that is at +00:00 at that instant), or tiny (+-1 us, +-1 s)
def aware_specs():
    specs = ["utc", "zero", ["fixed_us", 0], ["fixed_us", 1], ["fixed_us", -1], ["fixed_us", 10 ** 6], ["fixed_us", -10 ** 6],
             ["fixed_us", 3600 * 10 ** 6], ["fixed_us", -5 * 3600 * 10 ** 6], ["fixed_us", 19800 * 10 ** 6],
             ["fixed_us", 86399999999], ["fixed_us", -86399999999]]
    try:
        import zoneinfo
        for key in ("Europe/London", "America/New_York", "Asia/Tokyo", "Africa/Abidjan", "Atlantic/Reykjavik", "Australia/Lord_Howe"):
            try:
                zoneinfo.ZoneInfo(key)
                specs.append(["zoneinfo", key])
            except Exception:
                pass
    except ImportError:
        pass
    return specs


def run_aware_zones(ctx, q):
    rng = ctx.rng
    planned = []
    vals = gen_zone_values(ctx)
    specs = aware_specs()
    zero = [sp for sp in specs if sp in ("utc", "zero", ["fixed_us", 0]) or sp == ["zoneinfo", "Europe/London"]]
    for zone in ZONES:
        for name in ("timestamp-millis", "timestamp-micros"):
            mk = TS_KINDS[name][0]
            cases = []
            for v in vals:
                if not DT_MIN + DAY_US <= v <= DT_MAX - DAY_US:
                    continue                                    # UTC image must stay inside the datetime range
                for sp in zero + rng.sample(specs, 1 if ctx.quick() else 4):
                    if not ctx.quick() or rng.random() < 0.6 or sp in ("utc", ["fixed_us", 0]):
                        cases.append(dict(kind="timestamp", type=name, local_us=v, offset_s=None, aware=sp, tz=zone))
            with process_tz(zone):
                evald = [_eval_ts(c) for c in cases]
            planned.append((name, cases, evald, q.add("c_ts %d" % mk, [z(e[0]) for e in evald])))
    # naive data under timestamp-* in a zone without DST: outside the statement (it restricts naive data to TZ=UTC); the
    # code's documented reading is "local time of the process", compared here with the wall clock minus nine hours
    naive_jst = []
    with process_tz("JST-9"):
        import fastavro._logical_writers_py as LW
        for v in [x for x in vals if -2 * 10 ** 18 // 1000 <= x <= 10 ** 17][:60 if ctx.quick() else 2000]:
            obj = make_dt(v, None)
            r = attempt(lambda: (LW.prepare_timestamp_millis(obj, None), LW.prepare_timestamp_micros(obj, None)))
            naive_jst.append((v, r))
    yield
    for name, cases, evald, job in planned:
        for c, (t, impl, ok, why), m in zip(cases, evald, job[3]):
            mw, mr = m.split("|")
            mdl = dict(prep=int(mw), wire=int(mw), back=int(mr) if mr != "ERR" else "raised")
            c["instant_us"] = t
            report(ctx, "corr:%s/other-process-zones" % name, c, (name, t, repr(c["aware"]), c["tz"]), impl, mdl, ok,
                   None if ok else "process TZ=%s, tzinfo %r: %s" % (c["tz"], c["aware"], why),
                   "C16:%s:aware-datum-depends-on-process-time-zone" % name)
    for v, r in naive_jst:
        t = v - 9 * 3600 * 10 ** 6
        ctx.count("corr:timestamp/naive-under-JST", ("njst", v), nontrivial=False)
        if r != ("ok", (t // 1000, t)):
            ctx.violation("corr:timestamp/naive-under-JST", dict(kind="timestamp-naive-jst", local_us=v), impl=r, model=(t // 1000, t),
                          signature="C16:timestamp:naive-datum-not-read-as-process-local-time", found_input=False,
                          detail="outside the statement (naive data under timestamp-* is specified for TZ=UTC only)")
    ctx.notes["aware_tzinfo_kinds_under_other_process_zones"] = [repr(sp) for sp in specs]


# ------------------------------------------------------------------ uuids
def canon(n):
    h = "%032x" % n
    return "-".join([h[:8], h[8:12], h[12:16], h[16:20], h[20:]])


def eval_uuid(case):
    n = int(case["int"])
    obj = uuid.UUID(int=n)
    w = attempt(lambda: wr(S_UUID, obj))
    if w[0] != "ok":
        return dict(wire=w[0], back=None), False, "writing a UUID raised"
    ln, pos = dec_long(w[1])
    text = w[1][pos:].decode("ascii", "replace")
    b = attempt(lambda: rd(S_UUID, w[1]))
    back = b[1].int if b[0] == "ok" and isinstance(b[1], uuid.UUID) else "raised"
    ok = ln == 36 and text == canon(n) and back == n
    return dict(wire=text, back=back), ok, None if ok else "stored %r (canonical %r), read back %r" % (text, canon(n), back)


def run_uuids(ctx, q):
    rng = ctx.rng
    ns = {0, 1, 2 ** 128 - 1, 2 ** 127, 2 ** 64, 2 ** 64 - 1, 0x0123456789abcdef0123456789abcdef}
    for i in range(16):
        ns.add(0xFF << (8 * i))
        ns.add(0x0A << (8 * i))
    for _ in range(150 if ctx.quick() else 5000):
        ns.add(rng.getrandbits(128))
    ns = sorted(ns)
    job = q.add("c_uuid", [str(n) for n in ns])
    yield
    for n, m in zip(ns, job[3]):
        case = dict(kind="uuid", int=str(n))
        impl, ok, why = eval_uuid(case)
        mw, mr = m.split("|")
        report(ctx, "corr:uuid", case, ("uuid", n), impl, dict(wire=mw, back=int(mr)), ok, why,
               "C16:uuid:stored-or-read-back-differs")
    ctx.notes["uuids"] = len(ns)


# ------------------------------------------------------------------ every logical type in every container position
# The converters must be applied wherever the annotated type occurs: top level, record field, array item, map value,
# union branch, nested containers, and (named fixed) by reference -- read schemaless or from a container file, with and
# without a reader schema.  The wire bytes must be the container framing around the top-level encoding (which the
# families above tie to the model), and what is read back must be the container of the top-level read-back value.
def enc_long(n):
    n = (n << 1) ^ (n >> 63)
    out = bytearray()
    while n & ~0x7F:
        out.append((n & 0x7F) | 0x80)
        n >>= 7
    out.append(n)
    return bytes(out)


def enc_str(t):
    b = t.encode()
    return enc_long(len(b)) + b


FIXED_DEC = {"type": "fixed", "name": "FixDec", "size": 8, "logicalType": "decimal", "precision": 18, "scale": 4}
POS_LOGICALS = {   # name -> (schema, [(datum, expected read back)])
    "date": (S_DATE, [(D.date(1, 1, 1), D.date(1, 1, 1)), (D.date(1969, 12, 31), D.date(1969, 12, 31)), (D.date(9999, 12, 31), D.date(9999, 12, 31))]),
    "time-millis": (S_TMIL, [(D.time(23, 59, 59, 999999), D.time(23, 59, 59, 999000)), (D.time(0, 0, 0, 1000), D.time(0, 0, 0, 1000))]),
    "time-micros": (S_TMIC, [(D.time(23, 59, 59, 999999), D.time(23, 59, 59, 999999)), (D.time(12, 0, 1, 1), D.time(12, 0, 1, 1))]),
    "timestamp-millis": (TS_KINDS["timestamp-millis"][1],
                         [(D.datetime(1969, 12, 31, 23, 59, 59, 999999, tzinfo=D.timezone(D.timedelta(hours=5, minutes=30))),
                           D.datetime(1969, 12, 31, 18, 29, 59, 999000, tzinfo=D.timezone.utc)),
                          (D.datetime(2024, 2, 29, 12, 0, 0, 1500, tzinfo=D.timezone.utc), D.datetime(2024, 2, 29, 12, 0, 0, 1000, tzinfo=D.timezone.utc))]),
    "timestamp-micros": (TS_KINDS["timestamp-micros"][1],
                         [(D.datetime(1, 1, 2, 0, 0, 0, 1, tzinfo=D.timezone(D.timedelta(hours=-8))), D.datetime(1, 1, 2, 8, 0, 0, 1, tzinfo=D.timezone.utc)),
                          (D.datetime(2038, 1, 19, 3, 14, 8, 999999, tzinfo=D.timezone.utc), D.datetime(2038, 1, 19, 3, 14, 8, 999999, tzinfo=D.timezone.utc))]),
    "local-timestamp-millis": (TS_KINDS["local-timestamp-millis"][1],
                               [(D.datetime(1903, 7, 4, 6, 0, 0, 5999), D.datetime(1903, 7, 4, 6, 0, 0, 5000)), (D.datetime(2021, 3, 14, 2, 30), D.datetime(2021, 3, 14, 2, 30))]),
    "local-timestamp-micros": (TS_KINDS["local-timestamp-micros"][1],
                               [(D.datetime(1969, 12, 31, 23, 59, 59, 999999), D.datetime(1969, 12, 31, 23, 59, 59, 999999)), (D.datetime(9999, 12, 31, 23, 59, 59, 999999),) * 2]),
    "uuid": (S_UUID, [(uuid.UUID(int=0x0123456789abcdef0123456789abcdef),) * 2, (uuid.UUID(int=2 ** 128 - 1),) * 2]),
    "bytes-decimal": ({"type": "bytes", "logicalType": "decimal", "precision": 12, "scale": 3},
                      [(Decimal("-1.280"), Decimal("-1.28")), (Decimal("-0"), Decimal("0")), (Decimal("123456789.123"),) * 2, (Decimal("1E+3"), Decimal("1000"))]),
    "fixed-decimal": (FIXED_DEC, [(Decimal("-92233720368547.7580"),) * 2, (Decimal("-0.0001"),) * 2, (Decimal("5E+2"), Decimal("500"))]),
}


def rec(name, fields):
    return {"type": "record", "name": name, "fields": [{"name": n, "type": t} for n, t in fields]}


# position -> (schema L -> schema, datum x -> datum, wire w -> wire, expected e -> expected)
POSITIONS = {
    "top-level": (lambda L: L, lambda x: x, lambda w: w, lambda e: e),
    "record-field": (lambda L: rec("R", [("a", "int"), ("f", L)]), lambda x: {"a": 7, "f": x}, lambda w: enc_long(7) + w, lambda e: {"a": 7, "f": e}),
    "array-item": (lambda L: {"type": "array", "items": L}, lambda x: [x, x], lambda w: enc_long(2) + w + w + enc_long(0), lambda e: [e, e]),
    "map-value": (lambda L: {"type": "map", "values": L}, lambda x: {"k": x}, lambda w: enc_long(1) + enc_str("k") + w + enc_long(0), lambda e: {"k": e}),
    "union-branch": (lambda L: ["null", L], lambda x: x, lambda w: enc_long(1) + w, lambda e: e),
    "union-in-record": (lambda L: rec("R", [("f", ["null", L]), ("g", ["null", "string"])]), lambda x: {"f": x, "g": None},
                        lambda w: enc_long(1) + w + enc_long(0), lambda e: {"f": e, "g": None}),
    "map-of-arrays": (lambda L: {"type": "map", "values": {"type": "array", "items": L}}, lambda x: {"k": [x]},
                      lambda w: enc_long(1) + enc_str("k") + enc_long(1) + w + enc_long(0) + enc_long(0), lambda e: {"k": [e]}),
    "array-of-maps": (lambda L: {"type": "array", "items": {"type": "map", "values": L}}, lambda x: [{"k": x}],
                      lambda w: enc_long(1) + enc_long(1) + enc_str("k") + w + enc_long(0) + enc_long(0), lambda e: [{"k": e}]),
    "map-in-record": (lambda L: rec("R", [("m", {"type": "map", "values": L})]), lambda x: {"m": {"k": x, }},
                      lambda w: enc_long(1) + enc_str("k") + w + enc_long(0), lambda e: {"m": {"k": e}}),
    "array-of-unions": (lambda L: {"type": "array", "items": ["null", L]}, lambda x: [None, x],
                        lambda w: enc_long(2) + enc_long(0) + enc_long(1) + w + enc_long(0), lambda e: [None, e]),
}
# the named fixed decimal defined once and then used by reference
BY_NAME = {
    "field-by-name": (lambda L: rec("R", [("d", L), ("f", L["name"])]), lambda x: {"d": x, "f": x}, lambda w: w + w, lambda e: {"d": e, "f": e}),
    "map-value-by-name": (lambda L: rec("R", [("d", L), ("m", {"type": "map", "values": L["name"]})]), lambda x: {"d": x, "m": {"k": x}},
                          lambda w: w + enc_long(1) + enc_str("k") + w + enc_long(0), lambda e: {"d": e, "m": {"k": e}}),
    "array-item-by-name": (lambda L: rec("R", [("d", L), ("a", {"type": "array", "items": L["name"]})]), lambda x: {"d": x, "a": [x]},
                           lambda w: w + enc_long(1) + w + enc_long(0), lambda e: {"d": e, "a": [e]}),
    "union-branch-by-name": (lambda L: rec("R", [("d", L), ("u", ["null", L["name"]])]), lambda x: {"d": x, "u": x},
                             lambda w: w + enc_long(1) + w, lambda e: {"d": e, "u": e}),
}
READ_MODES = ["schemaless", "schemaless+reader-schema", "container", "container+reader-schema"]


def same_shape(a, b):
    """equal values AND equal Python types at the leaves (a raw int / str / bytes is not a date / UUID / Decimal)"""
    if isinstance(a, dict) and isinstance(b, dict):
        return a.keys() == b.keys() and all(same_shape(a[k], b[k]) for k in a)
    if isinstance(a, list) and isinstance(b, list):
        return len(a) == len(b) and all(same_shape(x, y) for x, y in zip(a, b))
    return type(a) is type(b) and a == b


def eval_position(case):
    import fastavro
    name, pos, mode = case["logical"], case["position"], case["mode"]
    L, data = POS_LOGICALS[name]
    x, e = data[case["datum"]]
    mk_schema, mk_datum, mk_wire, mk_expect = (POSITIONS.get(pos) or BY_NAME[pos])
    schema = fastavro.parse_schema(mk_schema(dict(L)))
    datum, expect = mk_datum(x), mk_expect(e)
    top = attempt(lambda: wr(L, x))
    if top[0] != "ok":
        return dict(wire="top-level write " + top[0]), False, "the datum cannot be written at top level"
    want_wire = mk_wire(top[1])

    def go():
        if mode.startswith("schemaless"):
            bio = io.BytesIO()
            fastavro.schemaless_writer(bio, schema, datum)
            raw = bio.getvalue()
            back = fastavro.schemaless_reader(io.BytesIO(raw), schema, schema if mode.endswith("reader-schema") else None)
            return raw, back
        bio = io.BytesIO()
        fastavro.writer(bio, schema, [datum, datum])
        bio.seek(0)
        recs = list(fastavro.reader(bio, reader_schema=schema if mode.endswith("reader-schema") else None))
        if len(recs) != 2 or not same_shape(recs[0], recs[1]):
            return None, ("records", recs)
        return None, recs[0]
    r = attempt(go)
    if r[0] != "ok":
        return dict(result=r[0], error=r[1]), False, "writing / reading the datum in this position raised %s" % r[1]
    raw, back = r[1]
    impl = dict(wire=raw.hex() if raw is not None else None, back=back)
    if raw is not None and raw != want_wire:
        return impl, False, "bytes written %s are not the container framing around the top-level encoding %s" % (raw.hex(), want_wire.hex())
    if not same_shape(back, expect):
        return impl, False, "read back %r, expected %r" % (back, expect)
    return impl, True, None


# model side of the positions (model/LogicalPos.v): schema shapes, and Python data <-> Gallina trees / printed trees
SHAPES = {   # "L" the annotated leaf, "N" the named fixed by reference, "P" plain, A array, M map, U union, R record
    "top-level": "L", "record-field": ("R", [("a", "P"), ("f", "L")]), "array-item": ("A", "L"), "map-value": ("M", "L"),
    "union-branch": ("U", ["P", "L"]), "union-in-record": ("R", [("f", ("U", ["P", "L"])), ("g", ("U", ["P", "P"]))]),
    "map-of-arrays": ("M", ("A", "L")), "array-of-maps": ("A", ("M", "L")), "map-in-record": ("R", [("m", ("M", "L"))]),
    "array-of-unions": ("A", ("U", ["P", "L"])),
    "field-by-name": ("R", [("d", "L"), ("f", "N")]), "map-value-by-name": ("R", [("d", "L"), ("m", ("M", "N"))]),
    "array-item-by-name": ("R", [("d", "L"), ("a", ("A", "N"))]), "union-branch-by-name": ("R", [("d", "L"), ("u", ("U", ["P", "N"]))]),
}
LTYPE_TERMS = {"date": "LDate", "time-millis": "LTimeMillis", "time-micros": "LTimeMicros", "timestamp-millis": "LTsMillis",
               "timestamp-micros": "LTsMicros", "local-timestamp-millis": "LLocalTsMillis", "local-timestamp-micros": "LLocalTsMicros",
               "uuid": "LUuid", "bytes-decimal": "(LDecBytes 12 3)", "fixed-decimal": "(LDecFixed 18 4 8)"}


def lval_term(x):
    """Python logical object -> Gallina lval"""
    if isinstance(x, D.datetime):
        wall = (x.replace(tzinfo=None) - EPOCH_NAIVE) // US
        return "(LNaive %s)" % z(wall) if x.tzinfo is None else "(LAware %s %s)" % (z(wall), z(x.utcoffset() // US))
    if isinstance(x, D.date):
        return "(LDateV %d)" % x.toordinal()
    if isinstance(x, D.time):
        return "(LTimeV %d %d %d %d)" % (x.hour, x.minute, x.second, x.microsecond)
    if isinstance(x, uuid.UUID):
        return "(LUuidV %d)" % x.int
    sg, ds, e = x.as_tuple()
    return "(LDecimalV %s %s %s)" % ("true" if sg else "false", zl(ds), z(e))


def canon_dec(c, e):
    if c == 0:
        return "X0e0"
    while c % 10 == 0:
        c, e = c // 10, e + 1
    return "X%de%d" % (c, e)


def lval_show(x):
    """Python object read back -> the text show_lval prints (decimals in canonical coefficient / exponent)"""
    if isinstance(x, D.datetime):
        wall = (x.replace(tzinfo=None) - EPOCH_NAIVE) // US
        return "N%d" % wall if x.tzinfo is None else "A%d.%d" % (wall, x.utcoffset() // US)
    if isinstance(x, D.date):
        return "D%d" % x.toordinal()
    if isinstance(x, D.time):
        return "T%d.%d.%d.%d" % (x.hour, x.minute, x.second, x.microsecond)
    if isinstance(x, uuid.UUID):
        return "U%d" % x.int
    if isinstance(x, Decimal):
        sg, ds, e = x.as_tuple()
        return canon_dec(int("".join(map(str, ds))) * (-1 if sg else 1), e)
    return "raw:%r" % (x,)


def schema_term(sh, lt):
    if sh == "L":
        return "(SLogical %s)" % lt
    if sh == "N":
        return "(SNamed 7)"
    if sh == "P":
        return "SPlain"
    if sh[0] == "A":
        return "(SArrayOf %s)" % schema_term(sh[1], lt)
    if sh[0] == "M":
        return "(SMapOf %s)" % schema_term(sh[1], lt)
    if sh[0] == "U":
        return "(SUnionOf [%s])" % "; ".join(schema_term(b, lt) for b in sh[1])
    return "(SRecordOf [%s])" % "; ".join(schema_term(f, lt) for _, f in sh[1])


def walk(sh, v, leaf, gallina):
    """Python datum (or value read back) -> Gallina tree term (gallina=True) or the text show_tree prints"""
    if sh in ("L", "N"):
        return "(TLeaf %s)" % leaf(v) if gallina else leaf(v)
    if sh == "P":
        n = 0 if v is None else v
        return "(TPlain %d)" % n if gallina else ("P%d" % n if isinstance(n, int) and not isinstance(n, bool) else "raw:%r" % (n,))
    if sh[0] == "A":
        if not isinstance(v, list):
            return "shape:%r" % (v,)
        items = [walk(sh[1], x, leaf, gallina) for x in v]
        return "(TList [%s])" % "; ".join(items) if gallina else "[" + "".join(i + "," for i in items) + "]"
    if sh[0] == "M":
        if not isinstance(v, dict):
            return "shape:%r" % (v,)
        items = [(i + 1, walk(sh[1], x, leaf, gallina)) for i, (_, x) in enumerate(v.items())]
        return "(TMap [%s])" % "; ".join("(%d, %s)" % it for it in items) if gallina else "{" + "".join("%d:%s," % it for it in items) + "}"
    if sh[0] == "U":
        i = 0 if v is None else max(j for j, b in enumerate(sh[1]) if b != "P") if any(b != "P" for b in sh[1]) else 0
        inner = walk(sh[1][i], v, leaf, gallina)
        return "(TBranch %d %s)" % (i, inner) if gallina else "b%d(%s)" % (i, inner)
    if not isinstance(v, dict):
        return "shape:%r" % (v,)
    items = [walk(f, v.get(n), leaf, gallina) for n, f in sh[1]]
    return "(TRec [%s])" % "; ".join(items) if gallina else "<" + "".join(i + "," for i in items) + ">"


def canon_model_tree(text):
    """bring the decimals of a printed model tree into canonical coefficient / exponent form"""
    import re
    return re.sub(r"X(-?\d+)e(-?\d+)", lambda m: canon_dec(int(m.group(1)), int(m.group(2))), text)


def run_positions(ctx, q):
    plan = []
    for name, (L, data) in POS_LOGICALS.items():
        positions = list(POSITIONS) + (list(BY_NAME) if L.get("type") == "fixed" else [])
        for pos in positions:
            mk_datum = (POSITIONS.get(pos) or BY_NAME[pos])[1]
            for i in range(len(data)):
                lt = LTYPE_TERMS[name]
                term = "c_roundtrip_tree 0 [(7, SLogical %s)] %s %s" % (lt, schema_term(SHAPES[pos], lt),
                                                                        walk(SHAPES[pos], mk_datum(data[i][0]), lval_term, True))
                plan.append((name, pos, i, term))
    job = q.add("fun x => x", plan and [t[3] for t in plan], per=10)
    yield
    model = {(name, pos, i): canon_model_tree(m) for (name, pos, i, _), m in zip(plan, job[3])}
    n = 0
    for name, (L, data) in POS_LOGICALS.items():
        positions = list(POSITIONS) + (list(BY_NAME) if L.get("type") == "fixed" else [])
        for pos in positions:
            for mode in READ_MODES:
                for i in range(len(data)):
                    if ctx.quick() and i and mode != "schemaless" and pos not in ("map-value", "array-item"):
                        continue
                    case = dict(kind="position", logical=name, position=pos, mode=mode, datum=i)
                    impl, ok, why = eval_position(case)
                    n += 1
                    ctx.count("corr:container-positions", (name, pos, mode, i))
                    if not ok:
                        sym = "raised" if "raised" in (why or "") else "stored-bytes-differ" if "bytes written" in why else "read-back-not-converted-or-differs"
                        ctx.violation("corr:container-positions", case, impl=impl, model=model[(name, pos, i)],
                                      signature="C16:container-position:%s:%s" % (pos, sym), found_input=True,
                                      detail="%s in position %s, read %s: %s" % (name, pos, mode, why))
                        continue
                    # the model's read_tree (write_tree v) (= normal_tree v, theorem C16_positions) printed vs the value read back
                    shown = walk(SHAPES[pos], impl["back"], lval_show, False)
                    if shown != model[(name, pos, i)]:
                        ctx.violation("corr:container-positions", case, impl=shown, model=model[(name, pos, i)],
                                      signature="C16:position:model-differs", found_input=False,
                                      detail="value read back differs from the model's read_tree (write_tree v)")
    ctx.notes["container_position_cases"] = n
    ctx.notes["container_positions"] = list(POSITIONS) + list(BY_NAME)


# ------------------------------------------------------------------ decimals
def dec_schema(kind, p, sc, size=None, omit_scale=False):
    s = {"type": "bytes" if kind == "bytes-decimal" else "fixed", "logicalType": "decimal", "precision": p}
    if not (omit_scale and sc == 0):
        s["scale"] = sc
    if kind == "fixed-decimal":
        s["name"] = "F%d_%d_%d" % (size, p, sc)
        s["size"] = size
    return s


def schema_ok(s):
    try:
        parsed(s)
        return True
    except Exception:
        return False


def from_tuple(t):
    return Decimal((int(t[0]), tuple(int(d) for d in t[1]), t[2] if isinstance(t[2], str) else int(t[2])))


def dec_value(c, e):
    """exact Decimal for c * 10^e"""
    return Decimal((1 if c < 0 else 0, tuple(int(ch) for ch in str(abs(c))), e))


def eval_decimal(case):
    """implementation observables and the property's predicate for one decimal case"""
    import fastavro._logical_writers_py as LW
    kind, p, sc, size = case["kind"], case["precision"], case["scale"], case.get("size")
    schema = dec_schema(kind, p, sc, size, case.get("omit_scale", False))
    obj = from_tuple(case["datum"])
    sign, digits, exp = obj.as_tuple()
    finite = isinstance(exp, int)
    prep_fn = LW.prepare_bytes_decimal if kind == "bytes-decimal" else LW.prepare_fixed_decimal
    prep = attempt(lambda: prep_fn(obj, schema))
    w = attempt(lambda: wr(schema, obj))
    payload = None
    if w[0] == "ok":
        if kind == "bytes-decimal":
            ln, pos = dec_long(w[1])
            payload = w[1][pos:]
            framing = ln == len(payload)
        else:
            payload = w[1]
            framing = True
    # what the specification prescribes
    within = finite and len(digits) <= p and -exp <= sc          # precision and scale respected
    su, representable = None, False
    if within:
        su = int("".join(map(str, digits))) * 10 ** (exp + sc) * (-1 if sign else 1)
        representable = True
        if kind == "fixed-decimal":
            representable = size > 0 and -(1 << (8 * size - 1)) <= su < (1 << (8 * size - 1))
    impl = dict(prep="x" + prep[1].hex() if prep[0] == "ok" else "raised", wire="x" + payload.hex() if payload is not None else "raised")
    if w[0] != "ok":
        ok = not representable
        why = None if ok else "writing raised %s although the schema can represent the datum" % w[1]
        impl["back"] = None
        return impl, ok, why, ("C16:%s:representable-datum-rejected" % kind)
    b = attempt(lambda: rd(schema, w[1]))
    impl["back"] = b[1] if b[0] == "ok" else "raised"
    same_number = b[0] == "ok" and isinstance(b[1], Decimal) and finite and b[1] == obj
    stored = int.from_bytes(payload, "big", signed=True)
    ok = framing and same_number and representable and stored == su and (kind == "bytes-decimal" or len(payload) == size)
    if ok:
        return impl, True, None, None
    if not same_number:
        why = "no error, stored 0x%s = unscaled %d, read back %r, datum %r: a different number" % (payload.hex(), stored, b[1], obj)
        if kind == "fixed-decimal" and within and sign and su == 0:
            sig = SIG_NEGZERO
        elif kind == "fixed-decimal" and within and sign and not representable:
            sig = SIG_F2
        else:
            sig = "C16:%s:stored-different-number" % kind
    elif not representable:
        why, sig = "datum outside precision / scale / size was written without an error", "C16:%s:unrepresentable-datum-accepted" % kind
    else:
        why, sig = "stored bytes 0x%s are not the two's complement of %r in the prescribed length" % (payload.hex(), su), \
            "C16:%s:stored-bytes-not-spec-encoding" % kind
    return impl, False, why, sig


def dec_values(rng, p, sc, ks, nrand):
    out = []

    def mk(su, exp=-sc):
        out.append((1 if su < 0 else 0, [int(c) for c in str(abs(su))], exp))
    for k in ks:
        top = 1 << (8 * k - 1)
        for d in (0, 1, 2):
            mk(top - d)
            mk(-(top - d))
        mk(top + 1)
        mk(-top - 1)
    for j in range(0, p + 2):
        mk(10 ** j)
        mk(-(10 ** j))
        if j:
            mk(10 ** j - 1)
            mk(-(10 ** j - 1))
        out.append((0, [1], j - sc))            # 1E+(j-sc): one digit, positive exponent for j > sc
        out.append((1, [1], j - sc))
    # zeros, negative zero in several exponents
    for e in (0, -sc, 3, -1 if sc else 1):
        out.append((1, [0], e))
        out.append((0, [0], e))
    # one digit too many; one fractional digit too many
    out.append((0, [9] * (p + 1), -sc))
    out.append((1, [1] + [0] * p, -sc))
    out.append((0, [1], -sc - 1))
    out.append((1, [5] * min(p, 3), -sc - 1))
    for _ in range(nrand):
        n = rng.randint(1, p)
        ds = [rng.randint(1, 9)] + [rng.randint(0, 9) for _ in range(n - 1)]
        out.append((rng.randint(0, 1), ds, rng.randint(-sc, rng.choice([-sc, 0, 1, 3]) if sc else 3)))
    return out


def excess_values(rng, p, sc, quick):
    """k = 1..4 fractional digits beyond the scale, in every zero / non-zero pattern of those k digits
    ('1.2340', '1.2304', '1.2300', '0.0010' ... under scale 2), alternating signs: as_tuple() has exponent -(scale+k)"""
    out = []
    idx = 0
    for k in (1, 2, 3, 4):
        pats = list(range(2 ** k))
        if quick and k == 4:
            pats = sorted(set(rng.sample(pats, 4)) | {0b0110, 0b1110, 0b1010})
        n = min(p, k + 2)
        for pat in pats:
            tail = [(rng.randint(1, 9) if (pat >> (k - 1 - j)) & 1 else 0) for j in range(k)]
            ds = ([rng.randint(1, 9) for _ in range(max(0, n - k))] + tail)[-n:]
            idx += 1
            out.append((idx % 2, ds, -sc - k))
            out.append((idx % 2, ds, -sc))                    # the same digits within the scale: representable
    return out


def band_values(p, sc, k):
    """few-digit mantissas with trailing zeros (positive exponent / scale padding) right below 2^(8k-1), inside the
    one-bit band [2^(8k-1), 2^(8k)) and right above it, both signs: the precision check sees one or two digits only,
    so these reach the size check"""
    out = []
    for nd in (1, 2, 3):
        if nd > p:
            continue
        for target in (1 << (8 * k - 1), 1 << (8 * k)):
            m = len(str(target)) - nd
            if m < 0:
                continue
            up = -(-target // 10 ** m)                       # smallest nd-digit mantissa with mant * 10^m >= target
            if up >= 10 ** nd:
                up, mu = 10 ** (nd - 1), m + 1
            else:
                mu = m
            dn, md = (target - 1) // 10 ** m, m              # largest with mant * 10^m < target
            if dn < 10 ** (nd - 1):
                md = m - 1
                dn = (target - 1) // 10 ** md if md >= 0 else 0
            for mant, mm in ((up, mu), (dn, md)):
                if mm >= 0 and 0 < mant < 10 ** nd:
                    for sg in (0, 1):
                        out.append((sg, [int(c) for c in str(mant)], mm - sc))
    return out


def gen_decimal_cases(ctx):
    rng = ctx.rng
    quick = ctx.quick()
    combos = []
    precisions = list(range(1, 41))
    for p in precisions:
        scs = sorted({0, 1, p // 2, p - 1, p} & set(range(0, p + 1))) if quick else list(range(0, p + 1))
        for sc in scs:
            combos.append((p, sc))
    if quick:
        keep = [(1, 0), (1, 1), (2, 2), (2, 0), (4, 2), (40, 0), (40, 40), (38, 19), (18, 9), (19, 0), (9, 3)]
        combos = keep + rng.sample(combos, 22)
    elif len(combos) > 420:
        keep = [(1, 0), (1, 1), (2, 2), (2, 0), (4, 2), (40, 0), (40, 40), (38, 19), (18, 9), (19, 0), (9, 3)]
        combos = keep + rng.sample(combos, 400)
    cases = []
    budget = 45 if quick else 90
    for p, sc in combos:
        # bytes
        ks = sorted(set(rng.sample(range(1, 18), 3 if quick else 6)) | {1})
        vals = dec_values(rng, p, sc, ks, 6 if quick else 25)
        if len(vals) > budget:
            head = [v for v in vals if not any(v[1])]                 # zeros always
            vals = head + rng.sample(vals, budget)
        omit = rng.random() < 0.3
        vals += excess_values(rng, p, sc, quick)              # always: excess fractional digits, all zero patterns
        for v in vals:
            cases.append(dict(kind="bytes-decimal", precision=p, scale=sc, datum=list(v), omit_scale=omit))
        # fixed: every size the schema parser accepts for this precision (a sample in quick)
        sizes = [n for n in range(1, 18) if schema_ok(dec_schema("fixed-decimal", p, sc, n))]
        if not sizes:
            continue
        pick = sorted({sizes[0], sizes[-1]} | set(rng.sample(sizes, min(len(sizes), 1 if quick else 4))))
        for size in pick:
            ks = sorted({size, max(1, size - 1), size + 1})
            vals = dec_values(rng, p, sc, ks, 6 if quick else 25)
            if len(vals) > budget:
                head = [v for v in vals if not any(v[1])]
                vals = head + rng.sample(vals, budget)
            vals += band_values(p, sc, size)                  # always: one bit too large through trailing zeros
            if not quick or size == pick[0]:
                vals += excess_values(rng, p, sc, quick)
            for v in vals:
                cases.append(dict(kind="fixed-decimal", precision=p, scale=sc, size=size, datum=list(v), omit_scale=omit))
    # the recorded witnesses, always
    cases.insert(0, dict(kind="fixed-decimal", precision=2, scale=2, size=1, datum=[1, [5], 0]))        # F2
    cases.insert(1, dict(kind="fixed-decimal", precision=4, scale=2, size=2, datum=[1, [0], 0]))        # negative zero
    cases.insert(2, dict(kind="fixed-decimal", precision=4, scale=2, size=2, datum=[1, [3, 2, 7, 6, 8], -2]))
    cases.insert(3, dict(kind="bytes-decimal", precision=4, scale=2, datum=[1, [0], 0]))
    # non-finite data must be rejected
    for spec in ("n", "N", "F"):
        for sg in (0, 1):
            cases.append(dict(kind="bytes-decimal", precision=5, scale=2, datum=[sg, [] if spec == "F" else [1], spec]))
            cases.append(dict(kind="fixed-decimal", precision=5, scale=2, size=4, datum=[sg, [] if spec == "F" else [1], spec]))
    return cases


def dec_item(c):
    sg, ds, e = c["datum"]
    b = "true" if sg else "false"
    if c["kind"] == "bytes-decimal":
        return "(%d,%d,%s,%s,%s)" % (c["precision"], c["scale"], b, zl(ds), z(e))
    return "(%d,%d,%d,%s,%s,%s)" % (c["precision"], c["scale"], c["size"], b, zl(ds), z(e))


def model_dec(m):
    """'xHEX|c,e' -> dict"""
    mw, mr = m.split("|")
    back = None
    if mr not in ("-", "ERR"):
        c, e = mr.split(",")
        back = dec_value(int(c), int(e))
    return dict(wire=mw if mw != "ERR" else "raised", back=back)


def gen_read_decimal_cases(ctx):
    rng = ctx.rng
    rcases = []
    for _ in range(500 if ctx.quick() else 20000):
        p = rng.choice([1, 2, 3, 5, 9, 18, 19, 28, 38, 40])
        sc = rng.randint(0, p)
        c = rng.randrange(4)
        if c == 0:
            raw = bytes(rng.getrandbits(8) for _ in range(rng.randint(1, 17)))
        elif c == 1:                      # exactly p digits followed by a tie / near tie
            q = rng.randrange(10 ** (p - 1), 10 ** p)
            tail = rng.choice(["5", "50", "500", "49", "51", "4999", "5001", "0", "00"])
            n = int(str(q) + tail) * rng.choice([1, -1])
            raw = n.to_bytes((n.bit_length() + 8) // 8, "big", signed=True)
        elif c == 2:                      # all nines: rounding carries into a new digit
            n = (10 ** (p + rng.randint(1, 3)) - rng.choice([1, 5, 10])) * rng.choice([1, -1])
            raw = n.to_bytes((n.bit_length() + 8) // 8, "big", signed=True)
        else:
            n = rng.randrange(-10 ** p + 1, 10 ** p)
            raw = n.to_bytes((n.bit_length() + 8) // 8 + rng.randint(0, 2), "big", signed=True)
        rcases.append((p, sc, raw))
    rcases += [(3, 0, b""), (3, 1, b"\x00"), (3, 1, b"\xff"), (2, 2, b"\x0c"), (2, 0, b"\x03\xe7")]
    return rcases


def run_decimals(ctx, q):
    import fastavro._logical_readers_py as LR
    rng = ctx.rng
    cases = gen_decimal_cases(ctx)
    finite = [c for c in cases if not isinstance(c["datum"][2], str)]
    jb = q.add("c_dec_bytes", [dec_item(c) for c in finite if c["kind"] == "bytes-decimal"], per=25)
    jf = q.add("c_dec_fixed", [dec_item(c) for c in finite if c["kind"] == "fixed-decimal"], per=25)
    jp = q.add("c_prep_fixed", [dec_item(c) for c in finite if c["kind"] == "fixed-decimal"], per=25)
    rcases = gen_read_decimal_cases(ctx)
    jr = q.add("c_read_dec", ['(%d,%d,hx "%s")' % (p, sc, raw.hex()) for p, sc, raw in rcases], per=25)
    yield
    ib, if_ = iter(jb[3]), iter(zip(jf[3], jp[3]))
    raised_both = 0
    for c in cases:
        impl, ok, why, sig = eval_decimal(c)
        if isinstance(c["datum"][2], str):
            mdl = dict(prep="raised", wire="raised", back=None)         # as_tuple() exponent is a str: exp + scale raises
        elif c["kind"] == "bytes-decimal":
            mdl = model_dec(next(ib))
            mdl["prep"] = mdl["wire"]
        else:
            m, pm = next(if_)
            mdl = model_dec(m)
            mdl["prep"] = pm if pm != "ERR" else "raised"
        # numbers read back are compared as numbers (Decimal == is exact), everything else literally
        cmp_impl = dict(impl)
        if isinstance(impl.get("back"), Decimal) and isinstance(mdl["back"], Decimal) and impl["back"] == mdl["back"]:
            cmp_impl["back"] = mdl["back"]
        if impl["wire"] == "raised":
            raised_both += 1
        key = (c["kind"], c["precision"], c["scale"], c.get("size"), tuple(map(str, c["datum"])))
        report(ctx, "corr:" + c["kind"], c, key, cmp_impl, mdl, ok, why, sig, nontrivial=impl["wire"] != "raised")
    ctx.notes["decimal_cases"] = len(cases)
    ctx.notes["decimal_cases_write_raises"] = raised_both
    if raised_both > 0.45 * len(cases):
        raise RuntimeError("decimal generator: %d of %d cases are rejected; the check would be vacuous" % (raised_both, len(cases)))

    # reader alone: arbitrary bytes, more digits than the precision, exact ties (ROUND_HALF_EVEN)
    for (p, sc, raw), m in zip(rcases, jr[3]):
        r = attempt(lambda: LR.read_decimal(raw, {"precision": p, "scale": sc}))
        c, e = m.split(",")
        mdl = dec_value(int(c), int(e))
        impl = r[1] if r[0] == "ok" else "raised"
        same = r[0] == "ok" and impl == mdl
        report(ctx, "corr:read_decimal", dict(kind="decimal-read", precision=p, scale=sc, data=raw.hex()), ("rd", p, sc, raw),
               mdl if same else impl, mdl, True, None, None)
    ctx.sample(dict(schema="fixed(2) decimal(4,2)", datum="Decimal('-1.28')",
                    stored=wr(dec_schema("fixed-decimal", 4, 2, 2), Decimal("-1.28")).hex()))


# ------------------------------------------------------------------ thorough sweeps (implementation against the closed forms
# the theorems prove equal to the model; a sample of the same values also goes through the model above)
def _sweep_dates(rng_):
    from fastavro._logical_writers_py import prepare_date
    from fastavro._logical_readers_py import read_date
    lo, hi = rng_
    bad = []
    fo = D.date.fromordinal
    for o in range(lo, hi):
        d = fo(o)
        if d.toordinal() != o or prepare_date(d, None) != o - EPOCH_ORD or read_date(o - EPOCH_ORD) != d:
            bad.append(o)
            if len(bad) > 5:
                break
    return hi - lo, bad


def _sweep_millis(rng_):
    from fastavro._logical_writers_py import prepare_time_millis
    from fastavro._logical_readers_py import read_time_millis
    lo, hi = rng_
    bad = []
    T = D.time
    for n in range(lo, hi):
        t = read_time_millis(n)
        s, ms = divmod(n, 1000)
        m, s = divmod(s, 60)
        h, m = divmod(m, 60)
        if t != T(h, m, s, ms * 1000) or prepare_time_millis(t, None) != n:
            bad.append(n)
            if len(bad) > 5:
                break
    return hi - lo, bad


def _sweep_micros(arg):
    from fastavro._logical_writers_py import prepare_time_micros, prepare_time_millis
    from fastavro._logical_readers_py import read_time_micros
    lo, hi = arg
    bad = []
    done = 0
    T = D.time
    day = 86400 * 10 ** 6
    for k in range(lo, hi):
        for n in (k * 10 ** 6 - 1, k * 10 ** 6, k * 10 ** 6 + 1, k * 10 ** 6 + 999, k * 10 ** 6 + 1000, k * 10 ** 6 + (k * 7919) % 10 ** 6):
            if not 0 <= n < day:
                continue
            done += 1
            t = read_time_micros(n)
            s, us = divmod(n, 10 ** 6)
            m, s = divmod(s, 60)
            h, m = divmod(m, 60)
            if t != T(h, m, s, us) or prepare_time_micros(t, None) != n or prepare_time_millis(t, None) != n // 1000:
                bad.append(n)
    return done, bad[:6]


def _sweep_ts(arg):
    import random
    import fastavro._logical_writers_py as LW
    import fastavro._logical_readers_py as LR
    seed, count = arg
    r = random.Random(seed)
    bad = []
    done = 0
    for _ in range(count):
        t = r.randrange(DT_MIN, DT_MAX + 1) if r.random() < 0.7 else r.randrange(-10 ** 13, 10 ** 13)
        off = r.randrange(-86399, 86400)
        local = t + off * 10 ** 6
        if not DT_MIN <= local <= DT_MAX:
            continue
        done += 1
        aware = make_dt(local, off)
        naive = make_dt(t, None)
        a = LW.prepare_timestamp_millis(aware, None)
        b = LW.prepare_timestamp_micros(aware, None)
        c = LW.prepare_local_timestamp_millis(naive, None)
        d = LW.prepare_local_timestamp_micros(naive, None)
        e = LW.prepare_timestamp_millis(naive, None)
        f = LW.prepare_timestamp_micros(naive, None)
        if not (a == c == e == t // 1000 and b == d == f == t):
            bad.append((t, off, "prepare"))
        elif ((LR.read_timestamp_millis(a) - EPOCH_UTC) // US != t // 1000 * 1000 or (LR.read_timestamp_micros(b) - EPOCH_UTC) // US != t
              or (LR.read_local_timestamp_millis(c) - EPOCH_NAIVE) // US != t // 1000 * 1000
              or (LR.read_local_timestamp_micros(d) - EPOCH_NAIVE) // US != t):
            bad.append((t, off, "read"))
    return done, bad[:6]


def chunks(lo, hi, n):
    step = (hi - lo + n - 1) // n
    return [(a, min(hi, a + step)) for a in range(lo, hi, step)]


def run_sweeps(ctx):
    import multiprocessing as mp
    time.tzset()
    t0 = time.time()
    seeds = [(ctx.rng.getrandbits(32), 60000) for _ in range(32)]
    with mp.get_context("fork").Pool(16) as pool:
        jobs = [("all 3652059 dates (prepare_date, read_date, fromordinal/toordinal)", _sweep_dates, chunks(1, MAX_ORD + 1, 64),
                 MAX_ORD, "C16:date:stored-or-read-back-differs"),
                ("all 86400000 milliseconds of the day (read_time_millis n, prepare_time_millis of it)", _sweep_millis,
                 chunks(0, 86400000, 256), 86400000, "C16:time-millis:stored-or-read-back-differs"),
                ("time-micros at every second k: k*10^6 + {-1,0,1,999,1000, one pseudo-random}", _sweep_micros,
                 chunks(0, 86401, 64), 86400 * 6, "C16:time-micros:stored-or-read-back-differs"),
                ("random instants x offsets, all six timestamp converters and four readers", _sweep_ts, seeds, 32 * 60000,
                 "C16:timestamp:stored-or-read-back-differs")]
        for what, fn, parts, _, sig in jobs:
            results = pool.map(fn, parts)
            n = sum(r[0] for r in results)
            bad = [b for r in results for b in r[1]]
            ctx.evaluations += n
            ctx.corr["sweep:" + fn.__name__[7:]] = n
            ctx.notes["sweep:" + fn.__name__[7:]] = what + (": all agree" if not bad else ": FAILURES %r" % bad[:5])
            if bad:
                ctx.violation("sweep:" + fn.__name__[7:], dict(kind="sweep", what=what, failing=bad[:6]), impl=bad[:6],
                              model="closed form of the C16 theorems", signature=sig, found_input=True)
    ctx.notes["sweeps_wall_s"] = round(time.time() - t0, 1)


# ------------------------------------------------------------------ entry points
def run(ctx):
    os.environ["TZ"] = "UTC"
    time.tzset()
    phases = {}
    q = ModelQueue()
    t0 = time.time()
    gens = [fn(ctx, q) for fn in (run_dates, run_times, run_timestamps, run_local_zones, run_aware_zones, run_uuids, run_decimals, run_positions)]
    for g in gens:
        next(g)                          # generate the cases, register the model batches
    phases["generate"] = round(time.time() - t0, 1)
    t0 = time.time()
    q.run(ctx)                           # the model, inside Coq, all families in parallel
    phases["model_in_coq"] = round(time.time() - t0, 1)
    t0 = time.time()
    for g in gens:
        for _ in g:                      # implementation, predicate, comparison
            pass
    phases["implementation_and_compare"] = round(time.time() - t0, 1)
    if not ctx.quick():
        t0 = time.time()
        run_sweeps(ctx)
        phases["sweeps"] = round(time.time() - t0, 1)
    ctx.notes["phase_wall_s"] = phases
    ctx.exhaustive = not ctx.quick()
    ctx.notes["exhaustive_families"] = ("thorough: every date, every millisecond of the day" if not ctx.quick() else
                                        "quick: boundary families + random; exhaustive sweeps run in the thorough tier")
    by_sig = {}
    for v in ctx.violations:
        by_sig[v["signature"]] = by_sig.get(v["signature"], 0) + 1
    ctx.notes["failing_cases_by_signature"] = by_sig


def replay(ctx, rep):
    os.environ["TZ"] = "UTC"
    time.tzset()
    c = rep["case"]
    k = c.get("kind")
    if k == "date":
        impl, ok, why = eval_date(c)
    elif k in ("time-millis", "time-micros"):
        impl, ok, why = eval_time(c)
    elif k == "timestamp":
        _, impl, ok, why = eval_ts(c)
    elif k == "uuid":
        impl, ok, why = eval_uuid(c)
    elif k == "position":
        impl, ok, why = eval_position(c)
    elif k in ("bytes-decimal", "fixed-decimal"):
        impl, ok, why, _ = eval_decimal(c)
        if not isinstance(c["datum"][2], str):
            fn = "c_dec_bytes" if k == "bytes-decimal" else "c_dec_fixed"
            print("model (written|read back):", model_batch(ctx, fn, [dec_item(c)], "rp")[0])
    elif k == "sweep":
        print("re-run the thorough tier to repeat a sweep; first failing values:", c.get("failing"))
        return False
    else:
        print("this replay records a model/implementation difference without a failing input:", rep.get("implementation"), rep.get("model"))
        return False
    print("implementation:", impl)
    print("property predicate:", "holds" if ok else "FAILS: %s" % why)
    return ok
