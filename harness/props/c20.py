"""C20 - generate_one / generate_many always produce data that conforms to the schema.

The library's random source is replaced FROM THE OUTSIDE (no source hook): `fastavro.utils.random` and
`fastavro.utils.uuid` are swapped for proxy objects that serve randint / random / choices / getrandbits / uuid4
from a seeded (or planned, or replayed) source and RECORD every draw as the integer the model consumes: an UN-normalised
draw D with  randint: D mod (b - a + 1) = result - a;  random(): D mod 0x3FF0000000000000 = the float's bit pattern;
choices: D mod len(population) = the index;  getrandbits(k): D mod 2^k = the integer;  uuid4: D mod 2^128 = the 128-bit
integer before the version bits are set.  (The reduction is done by the model with ITS idea of the range, so a changed
range in the code shows up as a different value even where both ranges contain the residue.)  For every case:

  (1) IMPLEMENTATION  list(generate_many(schema, n)) / generate_one(schema) under the proxies;
  (2) MODEL           coq/model/Gen.v `gen_many` / `gen_one` on exactly the recorded draws (vm_compute inside Coq);
                      same values (gallina.show_py text) and all draws consumed;
  (3) the STATEMENT'S OWN PREDICATE on the implementation, for every generated value: fastavro.validate is True,
      schemaless_writer and writer() accept it, reading back gives the value (logical types: the logical Python object
      computed here with the standard library only), the count is n.
(3) failing => counterexample.  (1) != (2) with (3) holding => only the tie broke (no-failing-input-found).
"""
import copy
import datetime as D
import decimal
import hashlib
import io
import json
import math
import random as _random
import struct
import uuid as _uuid
from string import ascii_letters

from .. import core, gen, gallina as G

SRCFACTS = ["time", "ints", "inventory"]
RULE = ("cases = (schema, count n in {0,1,2,7} or generate_one, stream): schemas from gen.SchemaGen (all constructs, references, "
        "namespaces, defaults, recursion through unions/arrays/maps) extended with every known logical type on its base type "
        "(int-date, int-time-millis, long-time-micros, long-(local-)timestamp-millis/micros, string-uuid, bytes-decimal, fixed-decimal "
        "with valid precision/scale), logical names on the wrong base type, + a fixed pool (every leaf alone, fixed size 0, 1-symbol enum, "
        "union of named references, reference to a logical-typed fixed, Node list, trees, F12 shapes); half of the type names, namespaces, "
        "field names and enum symbols contain Avro keywords (Subfields, typeOf, com.acme.fields.X, symbol 'fields_0', ...), inline and by reference; streams boundary-biased (each draw is "
        "the minimum / maximum of its range with probability 0.15 each: extreme date ordinals, time 0 / last unit of the day, timestamp "
        "caps, first / last union branch and enum symbol, all-zero / all-one bytes and uuids, 0.0 and 1-2^-53); raw or pre-parsed schema; "
        "schemas whose worst-case number of draws exceeds the cap are not used; for types recursive through a union the stream is planned "
        "so that the nesting depth stays below the model's fuel (see ASSUMPTIONS); non-trivial = at least one draw consumed; "
        "distinct by (schema, n, draws); "
        "corr:gen-reuse = histories on ONE live schema object (dict / list, raw): generate, edit the object IN PLACE (field added to the top-level "
        "or a nested named record, field retyped, primitive union branch replaced; each result re-parsed to be valid), generate again, optionally "
        "revert and generate again, the edited form first, or three calls on an unchanged object; every batch must satisfy the statement against "
        "the CURRENT schema, equal what a never-seen deep copy of the schema yields on the same recorded draws, and equal the model; + the four "
        "fixed histories of a growing record / nested record / one-branch union; "
        "corr:gen-interleave = 2-3 LIVE generate_many generators (next() alternately, generate_one in between) over schemas that define the same "
        "type names differently and refer to them by name (5 fixed groups + generated schemas with one definition edited); each yielded value is "
        "checked against ITS schema and each consumer's values against the model on that consumer's draws; "
        "corr:gen-depth = 5 recursive types whose recursive union branch is not the null branch (Expr{arg:[long,Expr]}, Chain, Bush through an "
        "array, mutual A/B, Opt through a map), streams planned so that the recursive branch is taken k = 1..12, 15, 20 (thorough: ..45) times in a row; "
        "corr:gen-strings = ~3000 (thorough 90000) strings as values, array items, map keys and record / union members under fresh sub-seeds: "
        "validate + schemaless write + read back, ten draws per string; unplanned randint draws also hit the special results inside their range "
        "(UTF-8 length boundaries, the surrogate block, integer widths) and random() the neighbourhood of common thresholds")
TRUSTED = ["random / uuid are replaced by proxies that implement randint, random, choices, getrandbits, uuid4 themselves; "
           "CPython's own derivation of those results from the Mersenne twister is not part of the claim (the theorems hold for every stream)",
           "datetime / decimal / uuid of the standard library compute the logical view a generated value is compared with after reading back",
           "the schema reaches the model as the parsed dict fastavro.parse_schema returned (naming is C11's business)"]
ASSUMPTIONS = ["the interpreter's recursion limit is not modelled: for a type recursive through a union with a terminating branch the check plans the "
               "union draws so that nesting stays below depth ~40 (unplanned unlucky streams may hit RecursionError in the real code)",
               "valid schemas only: unique field names, no field called '-type', decimal annotations carry a precision "
               "(parse_schema accepts the invalid forms; they are C11's business)",
               "error_union / request schemas are not modelled",
               "the model has no notion of object identity: 'the result depends only on the schema's current content and the draws' is what "
               "corr:gen-reuse checks against a fresh deep copy; SF_inventory pins the set of module-level mutable objects a cache would need"]
PARTIAL = ["C20_terminates ('every well-formed schema is generated with some fuel') is REFUTED for the faithful model: C20_refuted_rec_array / "
           "C20_terminates_refuted (T{kids: array<T>} is never generated, any fuel, any stream: finding F12); the positive part is "
           "C20_terminates_ranked (acyclic reference graph: fuel = rank never runs out on any stream, and a stream of >= cost draws yields a value)",
           "C20_conforms is proved for ALL well-formed schemas (recursive ones included) in the form 'validate never answers False and never raises on a "
           "generated value, at any fuel'; that enough validate fuel exists is proved with an explicit bound for acyclic reference graphs "
           "(C20_conforms_ranked: 2 per level) and for recursive schemas of the shape parse_schema produces when validating the field defaults "
           "terminates (C20_conforms_fuel: 5 * depth of the value + fd + 4); C20_default_cycle proves that the hypothesis on defaults cannot be "
           "dropped (R{f: R2 = {}}, R2{g: R = {}}: validate({}, R) never returns, RecursionError in the real code)",
           "'accepted by the binary and container writers and read back' is a Coq theorem for schemas with an acyclic reference graph "
           "(C20_written_and_read_back, C20_container_read_back: every generated value validates, satisfies C10's wneed, is elaborated by the "
           "default writer to a well-typed wire value, and is read back as its documented normalisation; a container written from "
           "generate_many's values and flushed reads back as exactly their wire values; composition of C20_conforms, C10_writer_accepts_iff, "
           "C01_roundtrip_normalised, C07 history_reads_back; Reals axioms through the float lemmas) under the computable side conditions "
           "gen_side (gschb: acyclic / plain field types / safe defaults; genokb; schema side of data_ok); recursive types are outside; the "
           "theorem speaks about stored values: for the logical readers it needs unions_plain (no union branch carries a logicalType -- known "
           "finding K3: a value filed under a string-uuid branch it was not generated for); the direct predicate on the implementation "
           "still decides the clause for every generated value; the C20_readable_* theorems give the facts the logical READERS need"]

IMPORTS = ("From Coq Require Import String.\n"
           "From FA Require Import model.Base model.Value model.Schema model.Validate model.Gen.\n"
           "Open Scope Z_scope.\n")

SIG_F12 = "C20:gen_data:recursion-through-array-or-map:RecursionError"
EPOCH_ORD = 719163
MAX_ORD = 3652059
EPOCH_UTC = D.datetime(1970, 1, 1, tzinfo=D.timezone.utc)
EPOCH_NAIVE = D.datetime(1970, 1, 1)
MAX_DRAWS = 150000


# ------------------------------------------------------------------ the recording proxies
class Budget(BaseException):
    """more draws than any planned case needs: the generation is exploding (not an Exception on purpose)"""


def bias(rng, n):
    """a draw in range(n): the extremes with probability 0.15 each"""
    if n <= 1:
        return 0
    r = rng.random()
    if r < 0.15:
        return 0
    if r < 0.30:
        return n - 1
    return rng.randrange(n)


ONE_BITS = 0x3FF0000000000000


def modulus(kind, n):
    return ONE_BITS if kind == "f" else n


# results worth hitting whenever a randint range contains them: UTF-8 length boundaries, the surrogate block, integer widths
SPECIAL_RESULTS = [0, 1, -1, 0x7F, 0x80, 0x7FF, 0x800, 0xD7FF, 0xD800, 0xDBFF, 0xDC00, 0xDFFF, 0xE000, 0xFFFD, 0xFFFF, 0x10000,
                   (1 << 31) - 1, 1 << 31, -(1 << 31), -(1 << 31) - 1, (1 << 63) - 1, -(1 << 63)]


def fresh(rng, kind, n, base=None):
    """a boundary-biased residue; for randint(base, base + n - 1) also the special results inside the range"""
    if kind == "f":
        r = rng.random()
        if r < 0.1:          # the neighbourhood of the usual probability thresholds
            return G.fbits(rng.choice([0.5, 0.9, 0.95, 0.97, 0.99, 0.999]) + rng.choice([-1, 0, 1]) * 2.0 ** -53)
        return G.fbits(bias(rng, 1 << 53) / float(1 << 53))
    if base is not None and n > 64 and rng.random() < 0.12:
        c = [x - base for x in SPECIAL_RESULTS if base <= x < base + n]
        if c:
            return rng.choice(c)
    return bias(rng, n)


def lift(rng, r, m):
    """an un-normalised draw congruent to r modulo m"""
    if rng.random() < 0.3:
        return r
    return rng.randrange(1, 1 << 12) * m + r


class Source:
    """Serves typed draws (kind, range, value) from a feed (planned / replayed) or, when the feed does not match
    what the code asks for (or is absent), from the rng.  Records everything served."""

    def __init__(self, rng, feed=None):
        self.rng, self.feed, self.pos = rng, feed, 0
        self.rec = []
        self.mismatch = False

    def take(self, kind, n, base=None):
        """the residue the code receives; what is recorded is an UN-normalised draw D with D mod m = residue (m = the
        range the code asked for), so that the model's own reduction `D mod (its idea of the range)` notices a changed range"""
        if len(self.rec) >= MAX_DRAWS:
            raise Budget()
        m = modulus(kind, n)
        D = None
        if self.feed is not None and not self.mismatch:
            if self.pos < len(self.feed) and self.feed[self.pos][0] == kind and self.feed[self.pos][1] == n:
                D = self.feed[self.pos][2]
                self.pos += 1
            else:
                self.mismatch = True
        if D is None:
            D = lift(self.rng, fresh(self.rng, kind, n, base), m)
        self.rec.append((kind, n, D))
        return D % m


class RandomProxy:
    """stands in for the `random` module inside fastavro.utils"""

    def __init__(self, src):
        self._src = src

    def randint(self, a, b):
        if b < a:
            raise ValueError("empty range in randrange(%d, %d)" % (a, b + 1))
        return a + self._src.take("i", b - a + 1, base=a)

    def random(self):
        return G.bits_to_float(self._src.take("f", 0))

    def choices(self, population, weights=None, *, cum_weights=None, k=1):
        if weights is not None or cum_weights is not None:
            raise TypeError("RandomProxy.choices: weights are not supported by the check")
        n = len(population)
        if n == 0:
            raise IndexError("Cannot choose from an empty sequence")
        return [population[self._src.take("c", n)] for _ in range(k)]

    def getrandbits(self, k):
        if k < 0:
            raise ValueError("number of bits must be non-negative")
        return self._src.take("b", 1 << k)

    def __getattr__(self, name):          # anything else the code might start to use: unrecorded -> the tie breaks visibly
        return getattr(_random, name)


class UuidProxy:
    """stands in for the `uuid` module inside fastavro.utils"""

    def __init__(self, src):
        self._src = src

    def uuid4(self):
        return _uuid.UUID(int=self._src.take("u", 1 << 128), version=4)

    def __getattr__(self, name):
        return getattr(_uuid, name)


def run_impl(case, rng):
    """-> (status, values, recorded typed draws, feed mismatch?)   status: ok | RecursionError | Budget | timeout | raised:<Exc>"""
    import fastavro.utils as U
    src = Source(rng, case.get("feed"))
    old_r, old_u = U.random, U.uuid
    U.random, U.uuid = RandomProxy(src), UuidProxy(src)
    schema = case["schema_arg"]
    try:
        try:
            if case["mode"] == "one":
                vals = core.with_timeout(lambda: [U.generate_one(schema)], 30)
            else:
                vals = core.with_timeout(lambda: list(U.generate_many(schema, case["n"])), 30)
            st = "ok"
        except RecursionError:
            st, vals = "RecursionError", None
        except Budget:
            st, vals = "Budget", None
        except core.Timeout:
            st, vals = "timeout", None
        except MemoryError:
            st, vals = "Budget", None
        except Exception as e:
            st, vals = "raised:" + type(e).__name__, None
    finally:
        U.random, U.uuid = old_r, old_u
    return st, vals, src.rec, src.mismatch


# ------------------------------------------------------------------ schema analysis (harness side, for steering and classification only)
INF = float("inf")


def refs_of(s, out):
    if isinstance(s, str):
        if s not in gen.PRIMS:
            out.add(s)
    elif isinstance(s, list):
        for b in s:
            refs_of(b, out)
    else:
        t = s["type"]
        if t == "array":
            refs_of(s["items"], out)
        elif t == "map":
            refs_of(s["values"], out)
        elif t in ("record", "error"):
            for f in s["fields"]:
                refs_of(f["type"], out)
    return out


def is_cyclic(parsed, named):
    """a named type reachable from the schema reaches itself"""
    graph = {k: refs_of(v, set()) for k, v in named.items()}
    start = refs_of(parsed, set())
    seen = set()
    stack = list(start)
    while stack:
        k = stack.pop()
        if k in seen:
            continue
        seen.add(k)
        stack.extend(graph.get(k, ()))
    for k in seen:
        reach, st = set(), list(graph.get(k, ()))
        while st:
            x = st.pop()
            if x in reach:
                continue
            reach.add(x)
            st.extend(graph.get(x, ()))
        if k in reach:
            return True
    return False


def finish_heights(parsed, named):
    """least nesting depth within which gen_data CAN return (best union branches); inf = it never returns (F12 class)"""
    h = {k: INF for k in named}

    def ht(s):
        if isinstance(s, str):
            return 1 if s in gen.PRIMS else 1 + h.get(s, INF)
        if isinstance(s, list):
            return 1 + min([ht(b) for b in s] or [INF])
        t = s["type"]
        if t == "array":
            return 1 + ht(s["items"])
        if t == "map":
            return 1 + ht(s["values"])
        if t in ("record", "error"):
            return 1 + max([ht(f["type"]) for f in s["fields"]] or [0])
        return 1
    for _ in range(len(named) + 2):
        changed = False
        for k, v in named.items():
            x = ht(v)
            if x < h[k]:
                h[k], changed = x, True
        if not changed:
            break
    return ht, h


def has_container_on_cycle(parsed, named):
    """some array / map contains (transitively) a reference that leads back to a type containing it"""
    txt = json.dumps([parsed, {k: v for k, v in named.items()}], default=str)
    return '"array"' in txt or '"map"' in txt


def max_draws(s, named, depth=0, seen=()):
    """worst-case number of draws for one value (inf for recursive types)"""
    if isinstance(s, str):
        if s in gen.PRIMS:
            return {"null": 0, "string": 10}.get(s, 1)
        if s in seen:
            return INF
        return max_draws(named[s], named, depth + 1, seen + (s,))
    if isinstance(s, list):
        return 1 + max([max_draws(b, named, depth + 1, seen) for b in s] or [0])
    t = s["type"]
    if t == "array":
        return 10 * max_draws(s["items"], named, depth + 1, seen)
    if t == "map":
        return 10 * (10 + max_draws(s["values"], named, depth + 1, seen))
    if t in ("record", "error"):
        return sum(max_draws(f["type"], named, depth + 1, seen) for f in s["fields"])
    if t == "string":
        return 1 if s.get("logicalType") == "uuid" else 10
    return 0 if t == "null" else 1


def logical_of(s):
    lt = s.get("logicalType") if isinstance(s, dict) else None
    return "%s-%s" % (s["type"], lt) if isinstance(lt, str) and lt else None


class Planner:
    """Plans the typed draws of ONE gen_data call top-down, mirroring the order in which gen_data asks for them, and steers union
    draws so that recursive types stay shallow.  Only a steering device: what is compared is what the proxies recorded, and a plan
    that does not match what the code asks for is abandoned (counted in the evidence)."""

    def __init__(self, rng, named, ht, soft_depth=6, node_budget=400):
        self.rng, self.named, self.ht = rng, named, ht
        self.soft, self.budget = soft_depth, node_budget
        self.out, self.nodes = [], 0
        self.forced = 0           # number of union draws (depth first) that must take the branch that recurses

    def draw(self, kind, n):
        r = fresh(self.rng, kind, n)
        self.out.append((kind, n, lift(self.rng, r, modulus(kind, n))))
        return r

    def letters(self):
        for _ in range(10):
            self.draw("c", len(ascii_letters))

    def go(self, s, depth=0):
        self.nodes += 1
        if len(self.out) > MAX_DRAWS:
            raise Budget()
        if isinstance(s, list):
            n = len(s)
            if self.forced > 0:
                hs = [self.ht(b) for b in s]
                i = hs.index(max(hs))
                self.forced -= 1
                self.out.append(("i", n, i))
            elif depth >= self.soft or self.nodes > self.budget:
                hs = [self.ht(b) for b in s]
                best = min(hs)
                i = self.rng.choice([k for k, x in enumerate(hs) if x == best])
                self.out.append(("i", n, i))
            else:
                i = self.draw("i", n)
            return self.go(s[i], depth + 1)
        if isinstance(s, str) and s not in gen.PRIMS:
            return self.go(self.named[s], depth + 1)
        t = s if isinstance(s, str) else s["type"]
        lt = logical_of(s)
        if t == "null":
            return
        if t == "string":
            if lt == "string-uuid":
                self.draw("u", 1 << 128)
            else:
                self.letters()
        elif t == "int":
            if lt == "int-date":
                self.draw("i", MAX_ORD)
            elif lt == "int-time-millis":
                self.draw("i", 86400000)
            else:
                self.draw("i", 1 << 32)
        elif t == "long":
            if lt == "long-time-micros":
                self.draw("i", 86400000000)
            elif lt in ("long-timestamp-millis", "long-local-timestamp-millis"):
                self.draw("i", (1 << 45) + 1)
            elif lt in ("long-timestamp-micros", "long-local-timestamp-micros"):
                self.draw("i", (1 << 55) + 1)
            else:
                self.draw("i", 1 << 64)
        elif t in ("float", "double"):
            self.draw("f", 0)
        elif t == "boolean":
            self.draw("i", 2)
        elif t == "bytes":
            self.draw("b", 1 << 80)
        elif t == "fixed":
            self.draw("b", 1 << (8 * s["size"]))
        elif t == "enum":
            self.draw("i", len(s["symbols"]))
        elif t == "array":
            for _ in range(10):
                self.go(s["items"], depth + 1)
        elif t == "map":
            for _ in range(10):
                self.letters()
                self.go(s["values"], depth + 1)
        elif t in ("record", "error"):
            for f in s["fields"]:
                self.go(f["type"], depth + 1)
        else:
            raise ValueError(t)


# ------------------------------------------------------------------ schemas
LOGICALS = [("int", "date"), ("int", "time-millis"), ("long", "time-micros"), ("long", "timestamp-millis"),
            ("long", "timestamp-micros"), ("long", "local-timestamp-millis"), ("long", "local-timestamp-micros"),
            ("string", "uuid")]
WRONG_BASE = [("long", "date"), ("string", "date"), ("int", "time-micros"), ("long", "time-millis"), ("int", "timestamp-millis"),
              ("bytes", "uuid"), ("int", "uuid"), ("string", "timestamp-micros"), ("double", "date"), ("boolean", "time-millis"),
              ("float", "decimal"), ("null", "uuid")]


# identifiers that CONTAIN Avro keywords (a by-name reference is a str: `"fields" in schema` is then a substring test)
KEYWORDY = ["Subfields", "typeOf", "itemsList", "null_able", "longer", "recordKeeper", "metafields", "enumerated", "fixedPoint",
            "mapper", "arrayOf", "unionized", "default_", "stringy", "bytesize", "sizeOf", "symbolsTable", "valuesOf", "nameTag",
            "interval", "doubled", "floaty", "booleanish", "errors", "request_", "logicalTypes", "aliases_", "namespaced", "order_",
            "my_fields_x", "a_type", "the_name", "symbols", "fields", "items", "values", "size", "type_", "name_"]
KEYWORDY_NS = ["com.acme.fields", "meta.type.name", "items.values", "symbols.size", "x.nullable.y", "record.enums", "fields"]


def keywordize(raw, rng, p=0.35):
    """rename field names and enum symbols of a raw schema IN PLACE to keyword-like identifiers (consistently: enum defaults and the
    defaults of fields of an inline enum type follow)"""
    if isinstance(raw, list):
        for b in raw:
            keywordize(b, rng, p)
    elif isinstance(raw, dict):
        t = raw.get("type")
        if t == "enum" and rng.random() < p:
            ren = {}
            for i, x in enumerate(raw["symbols"]):
                ren[x] = rng.choice(KEYWORDY).replace(".", "_") + "_%d" % i
            raw["symbols"] = [ren[x] for x in raw["symbols"]]
            if raw.get("default") in ren:
                raw["default"] = ren[raw["default"]]
            raw["__renamed_symbols"] = ren
        elif t in ("record", "error"):
            used = {f["name"] for f in raw["fields"]}
            for f in raw["fields"]:
                keywordize(f["type"], rng, p)
                ft = f["type"]
                if isinstance(ft, dict) and "__renamed_symbols" in ft and f.get("default") in ft["__renamed_symbols"]:
                    f["default"] = ft["__renamed_symbols"][f["default"]]
                if rng.random() < p:
                    new = rng.choice(KEYWORDY)
                    if new not in used:
                        used.add(new)
                        f["name"] = new
        elif t == "array":
            keywordize(raw["items"], rng, p)
        elif t == "map":
            keywordize(raw["values"], rng, p)
    return raw


def drop_rename_marks(raw):
    if isinstance(raw, list):
        for b in raw:
            drop_rename_marks(b)
    elif isinstance(raw, dict):
        raw.pop("__renamed_symbols", None)
        for k in ("items", "values"):
            if k in raw:
                drop_rename_marks(raw[k])
        for f in raw.get("fields", []) if isinstance(raw.get("fields"), list) else []:
            drop_rename_marks(f["type"])
    return raw


class LogicalSchemaGen(gen.SchemaGen):
    """gen.SchemaGen plus the logical types, and names / namespaces that contain Avro keywords"""

    def __init__(self, rng, max_depth=3, p_logical=0.3, p_keyword=0.5):
        super().__init__(rng, max_depth=max_depth)
        self.p_logical = p_logical
        self.p_keyword = p_keyword

    def fresh(self, kind):
        if self.rng.random() < self.p_keyword:
            self.counter += 1
            return self.rng.choice(KEYWORDY) + str(self.counter)
        return super().fresh(kind)

    def name_attrs(self, kind, ns):
        rng = self.rng
        if rng.random() < self.p_keyword * 0.6:
            base = self.fresh(kind)
            n2 = rng.choice(KEYWORDY_NS)
            if rng.random() < 0.5:
                return {"name": base, "namespace": n2}, n2 + "." + base, n2
            return {"name": n2 + "." + base}, n2 + "." + base, n2
        return super().name_attrs(kind, ns)

    def decimal_attrs(self, maxp):
        p = self.rng.randint(1, maxp)
        d = {"logicalType": "decimal", "precision": p}
        r = self.rng.random()
        if r < 0.7:
            d["scale"] = self.rng.randint(0, p)
        return d

    def schema(self, depth=0, ns="", allow_union=True, top=False):
        rng = self.rng
        if rng.random() < self.p_logical:
            r = rng.random()
            if r < 0.6:
                t, lt = rng.choice(LOGICALS)
                return {"type": t, "logicalType": lt}
            if r < 0.7:
                t, lt = rng.choice(WRONG_BASE)
                return {"type": t, "logicalType": lt}
            if r < 0.85:
                d = {"type": "bytes"}
                d.update(self.decimal_attrs(30))
                return d
            at, full, _ = self.name_attrs("fixed", ns)
            size = rng.choice([1, 2, 3, 4, 8, 12, 16])
            at.update(type="fixed", size=size)
            at.update(self.decimal_attrs(max(1, int(math.floor(math.log10(2) * (8 * size - 1))))))
            self.defined.append((full, "fixed", ns))
            return at
        return super().schema(depth, ns, allow_union, top)


def L(t, lt, **kw):
    d = {"type": t, "logicalType": lt}
    d.update(kw)
    return d


NODE = {"type": "record", "name": "Node", "fields": [{"name": "v", "type": "long"}, {"name": "next", "type": ["null", "Node"]}]}
TREE = {"type": "record", "name": "Tree", "namespace": "t", "fields": [
    {"name": "left", "type": ["null", "Tree"]}, {"name": "v", "type": L("int", "date")}, {"name": "right", "type": ["Tree", "null"]}]}
ROSE = {"type": "record", "name": "Rose", "fields": [{"name": "kids", "type": {"type": "array", "items": ["null", "Rose"]}}]}
ROSEMAP = {"type": "record", "name": "RM", "fields": [{"name": "m", "type": {"type": "map", "values": ["RM", "null", "int"]}}]}
F12_SCHEMAS = [
    {"type": "record", "name": "T", "fields": [{"name": "kids", "type": {"type": "array", "items": "T"}}]},
    {"type": "record", "name": "T", "namespace": "ns", "fields": [{"name": "a", "type": "int"}, {"name": "kids", "type": {"type": "array", "items": "T"}}]},
    {"type": "record", "name": "M", "fields": [{"name": "m", "type": {"type": "map", "values": "M"}}]},
    {"type": "record", "name": "P", "fields": [{"name": "u", "type": ["null", "int"]},
                                                {"name": "q", "type": {"type": "record", "name": "Q", "fields": [
                                                    {"name": "ps", "type": {"type": "array", "items": "P"}}]}}]},
]
POOL = [
    "null", "boolean", "int", "long", "float", "double", "bytes", "string",
    {"type": "int"}, {"type": "string", "logicalType": "custom"},
    L("int", "date"), L("int", "time-millis"), L("long", "time-micros"), L("long", "timestamp-millis"), L("long", "timestamp-micros"),
    L("long", "local-timestamp-millis"), L("long", "local-timestamp-micros"), L("string", "uuid"),
    L("bytes", "decimal", precision=4, scale=2), L("bytes", "decimal", precision=30), L("bytes", "decimal", precision=1, scale=1),
    {"type": "fixed", "name": "D8", "size": 8, "logicalType": "decimal", "precision": 18, "scale": 3},
    {"type": "fixed", "name": "D1", "size": 1, "logicalType": "decimal", "precision": 2, "scale": 0},
    {"type": "fixed", "name": "D16", "size": 16, "logicalType": "decimal", "precision": 5, "scale": 5},
    {"type": "fixed", "name": "F0", "size": 0}, {"type": "fixed", "name": "F1", "size": 1}, {"type": "fixed", "name": "F33", "size": 33},
    {"type": "enum", "name": "E1", "symbols": ["ONLY"]}, {"type": "enum", "name": "E", "symbols": ["A", "B", "C"], "default": "B"},
    {"type": "array", "items": L("int", "date")}, {"type": "map", "values": L("string", "uuid")},
    {"type": "array", "items": "null"}, {"type": "map", "values": {"type": "array", "items": "boolean"}},
    ["null"], ["null", "int", "string"], ["float", "double"], ["long", "int"], [L("int", "date"), L("long", "timestamp-micros"), "string"],
    {"type": "record", "name": "Empty", "fields": []},
    {"type": "error", "name": "Err1", "fields": [{"name": "msg", "type": "string"}]},
    {"type": "record", "name": "U", "namespace": "n", "fields": [
        {"name": "e", "type": {"type": "enum", "name": "Ee", "symbols": ["X", "Y"]}},
        {"name": "f", "type": {"type": "fixed", "name": "Ff", "size": 3}},
        {"name": "r", "type": {"type": "record", "name": "Rr", "fields": [{"name": "x", "type": L("int", "time-millis")}]}},
        {"name": "u", "type": ["Ee", "n.Ff", "Rr", "null"]},
        {"name": "a", "type": {"type": "array", "items": "Rr"}}]},
    {"type": "record", "name": "LR", "fields": [
        {"name": "d", "type": {"type": "fixed", "name": "Dec", "size": 6, "logicalType": "decimal", "precision": 9, "scale": 2}},
        {"name": "again", "type": "Dec"}, {"name": "opt", "type": ["null", "Dec"]}, {"name": "many", "type": {"type": "map", "values": "Dec"}}]},
    {"type": "record", "name": "Dflt", "fields": [{"name": "a", "type": "int", "default": 7}, {"name": "c", "type": ["null", "string"], "default": None},
                                                   {"name": "d", "type": {"type": "array", "items": "int"}, "default": []}]},
    {"type": "record", "name": "UU", "fields": [{"name": "u", "type": [
        {"type": "record", "name": "A", "fields": [{"name": "x", "type": "int"}, {"name": "y", "type": ["null", "int"], "default": None}]},
        {"type": "record", "name": "B", "fields": [{"name": "x", "type": "int"}, {"name": "z", "type": ["null", "int"], "default": None}]},
        {"type": "map", "values": "int"}]}]},
    [L("string", "uuid"), {"type": "enum", "name": "E2", "symbols": ["A", "B"]}],
    [{"type": "array", "items": "long"}, "bytes"], ["long", L("int", "date")], [L("long", "time-micros"), L("int", "date")],
    {"type": "record", "name": "Holder", "namespace": "com.acme.fields", "fields": [
        {"name": "fields", "type": {"type": "record", "name": "Subfields", "fields": [{"name": "type", "type": "int"}, {"name": "name", "type": "string"}]}},
        {"name": "items", "type": {"type": "array", "items": "Subfields"}},
        {"name": "values", "type": {"type": "map", "values": "com.acme.fields.Subfields"}},
        {"name": "symbols", "type": {"type": "enum", "name": "symbolsTable", "symbols": ["fields", "type", "null_", "record"]}},
        {"name": "size", "type": {"type": "fixed", "name": "sizeOf", "size": 2}},
        {"name": "again", "type": ["null", "Subfields", "symbolsTable", "sizeOf"]}]},
    {"type": "array", "items": {"type": "record", "name": "metafields", "fields": [{"name": "next", "type": ["null", "metafields"]},
                                                                                       {"name": "default_", "type": "long", "default": 3}]}},
    NODE, TREE, ROSE, ROSEMAP,
]


class Entry:
    """a schema prepared for the check"""
    __slots__ = ("raw", "parsed", "named", "coq_schema", "coq_env", "cyclic", "finish", "ht", "cost", "tag", "has_decimal", "has_logical", "has_union")


def prepare(raw, tag):
    import fastavro
    e = Entry()
    e.raw = json.loads(json.dumps(raw))
    e.named = {}
    e.parsed = fastavro.parse_schema(json.loads(json.dumps(raw)), e.named)
    e.coq_schema, e.coq_env = G.schema_to_coq(e.parsed), G.env_to_coq(e.named)
    e.cyclic = is_cyclic(e.parsed, e.named)
    e.ht, _ = finish_heights(e.parsed, e.named)
    e.finish = e.ht(e.parsed)
    e.cost = max_draws(e.parsed, e.named)
    e.tag = tag
    e.has_decimal = '"decimal"' in json.dumps(e.raw)
    e.has_logical = '"logicalType"' in json.dumps(e.raw)
    e.has_union = has_union(e.parsed) or any(has_union(v) for v in e.named.values())
    return e


def has_union(s):
    if isinstance(s, list):
        return True
    if isinstance(s, dict):
        t = s.get("type")
        if t == "array":
            return has_union(s["items"])
        if t == "map":
            return has_union(s["values"])
        if t in ("record", "error"):
            return any(has_union(f["type"]) for f in s["fields"])
    return False


def valid_for_statement(raw):
    """the generator's own schemas are valid by construction except for duplicate field names"""
    ok = True

    def walk(s):
        nonlocal ok
        if isinstance(s, list):
            for b in s:
                walk(b)
        elif isinstance(s, dict):
            t = s.get("type")
            if t in ("record", "error"):
                names = [f["name"] for f in s["fields"]]
                if len(set(names)) != len(names):
                    ok = False
                for f in s["fields"]:
                    walk(f["type"])
            elif t == "array":
                walk(s["items"])
            elif t == "map":
                walk(s["values"])
    walk(raw)
    return ok


# ------------------------------------------------------------------ the statement's own predicate
def same_float(a, b):
    return isinstance(a, float) and isinstance(b, float) and G.fbits(a) == G.fbits(b)


def f32round(x):
    return struct.unpack("<f", struct.pack("<f", x))[0]


def logical_view(v, s):
    """the Python object the logical reader must return for the stored value v (standard library only); None = no logical type"""
    lt = logical_of(s)
    if lt == "int-date":
        return D.date.fromordinal(v + EPOCH_ORD)
    if lt == "int-time-millis":
        return D.time(v // 3600000, v // 60000 % 60, v // 1000 % 60, v % 1000 * 1000)
    if lt == "long-time-micros":
        return D.time(v // 3600000000, v // 60000000 % 60, v // 1000000 % 60, v % 1000000)
    if lt == "long-timestamp-millis":
        return EPOCH_UTC + D.timedelta(microseconds=v * 1000)
    if lt == "long-timestamp-micros":
        return EPOCH_UTC + D.timedelta(microseconds=v)
    if lt == "long-local-timestamp-millis":
        return EPOCH_NAIVE + D.timedelta(microseconds=v * 1000)
    if lt == "long-local-timestamp-micros":
        return EPOCH_NAIVE + D.timedelta(microseconds=v)
    if lt == "string-uuid":
        return _uuid.UUID(hex=v)
    if lt in ("bytes-decimal", "fixed-decimal"):
        c = decimal.Context(prec=s["precision"])
        return c.create_decimal(int.from_bytes(v, "big", signed=True)).scaleb(-s.get("scale", 0), c)
    return None


def resolve(s, named):
    while isinstance(s, str) and s not in gen.PRIMS:
        s = named[s]
    return s


def shape_ok(v, s, named):
    """v is a value the Avro type s admits, in the documented Python mapping (independent of fastavro's validator):
    the base type under a logical annotation (a generated value is the STORED form: int / str / bytes)"""
    s = resolve(s, named)
    if isinstance(s, list):
        return any(shape_ok(v, b, named) for b in s)
    t = s if isinstance(s, str) else s["type"]
    if t == "null":
        return v is None
    if t == "boolean":
        return type(v) is bool
    if t in ("int", "long"):
        lo, hi = (-(1 << 31), (1 << 31) - 1) if t == "int" else (-(1 << 63), (1 << 63) - 1)
        return type(v) is int and lo <= v <= hi
    if t in ("float", "double"):
        return type(v) in (int, float)
    if t == "bytes":
        return type(v) is bytes
    if t == "string":
        return type(v) is str
    if t == "fixed":
        return type(v) is bytes and len(v) == s["size"]
    if t == "enum":
        return type(v) is str and v in s["symbols"]
    if t == "array":      # a bytes object is a sequence of ints: validate and the writers admit it under an array (C01/C10 mapping)
        return type(v) in (list, bytes) and all(shape_ok(x, s["items"], named) for x in v)
    if t == "map":
        return type(v) is dict and all(type(k) is str for k in v) and all(shape_ok(x, s["values"], named) for x in v.values())
    if t in ("record", "error"):
        return type(v) is dict and list(v.keys()) == [f["name"] for f in s["fields"]] and \
            all(shape_ok(v[f["name"]], f["type"], named) for f in s["fields"])
    return False


def _accepts_null(ft, named):
    ft = resolve(ft, named) if not isinstance(ft, list) else ft
    if isinstance(ft, list):
        return any(_accepts_null(b, named) for b in ft)
    return (ft if isinstance(ft, str) else ft.get("type")) == "null"


def writer_admits(v, s, named):
    """v is a datum the WRITER may file under s (C10's conformance relation, looser than shape_ok for records: a field may be
    absent when it has a default or accepts null, keys that are not fields are ignored).  Used only to decide whether the
    union branch a generated value ends up in is ambiguous (then the read-back view is C09's business, not C20's)."""
    s = resolve(s, named)
    if isinstance(s, list):
        return any(writer_admits(v, b, named) for b in s)
    t = s if isinstance(s, str) else s["type"]
    if t == "array":
        return type(v) in (list, bytes) and all(writer_admits(x, s["items"], named) for x in v)
    if t == "map":
        return type(v) is dict and all(type(k) is str for k in v) and all(writer_admits(x, s["values"], named) for x in v.values())
    if t in ("record", "error"):
        return type(v) is dict and all((writer_admits(v[f["name"]], f["type"], named) if f["name"] in v
                                        else ("default" in f or _accepts_null(f["type"], named))) for f in s["fields"])
    return shape_ok(v, s, named)


AMBIGUOUS = [0]


def read_equiv(v, out, s, named):
    """`out` is what reading back the written `v` must give, under SOME union branch that admits v"""
    s = resolve(s, named)
    if isinstance(s, list):
        adm = [b for b in s if shape_ok(v, b, named)]
        if len([b for b in s if writer_admits(v, b, named)]) >= 2:
            # several branches admit the stored value: which one the writer files it under is C09's business, and the reader
            # then returns that branch's view of it (an int generated as a date may come back as a time of day)
            AMBIGUOUS[0] += 1
            return True
        return any(read_equiv(v, out, b, named) for b in adm)
    t = s if isinstance(s, str) else s["type"]
    if isinstance(s, dict) and logical_of(s) is not None and t in ("int", "long", "string", "bytes", "fixed"):
        try:
            lv = logical_view(v, s)
        except Exception:
            lv = None
        if lv is not None:
            return type(out) is type(lv) and out == lv and (not isinstance(lv, decimal.Decimal) or out.as_tuple() == lv.as_tuple())
    if t == "null":
        return out is None
    if t == "boolean":
        return type(out) is bool and out == v
    if t in ("int", "long"):
        return type(out) is int and out == v
    if t == "float":
        return same_float(out, f32round(float(v)))
    if t == "double":
        return same_float(out, float(v))
    if t in ("bytes", "fixed"):
        return type(out) is bytes and out == v
    if t in ("string", "enum"):
        return type(out) is str and out == v
    if t == "array":
        return type(out) is list and type(v) in (list, bytes) and len(out) == len(v) and \
            all(read_equiv(a, b, s["items"], named) for a, b in zip(v, out))
    if t == "map":
        return type(out) is dict and list(out.keys()) == list(v.keys()) and all(read_equiv(v[k], out[k], s["values"], named) for k in v)
    if t in ("record", "error"):
        return type(out) is dict and list(out.keys()) == [f["name"] for f in s["fields"]] and \
            all(read_equiv(v[f["name"]], out[f["name"]], f["type"], named) for f in s["fields"])
    return False


def deep_same(a, b):
    if type(a) is not type(b):
        return False
    if isinstance(a, float):
        return G.fbits(a) == G.fbits(b)
    if isinstance(a, list):
        return len(a) == len(b) and all(deep_same(x, y) for x, y in zip(a, b))
    if isinstance(a, dict):
        return list(a.keys()) == list(b.keys()) and all(deep_same(a[k], b[k]) for k in a)
    if isinstance(a, decimal.Decimal):
        return a.as_tuple() == b.as_tuple()
    return a == b


def attempt(fn, seconds=30):
    try:
        return ("ok", core.with_timeout(fn, seconds))
    except core.Timeout:
        return ("timeout", None)
    except RecursionError:
        return ("raised", "RecursionError")
    except Exception as e:
        return ("raised", type(e).__name__ + ": " + str(e)[:160])


def predicate(entry, schema_arg, vals, n_expected, check_container=True):
    """C20's statement on the implementation.  -> (holds, symptom, detail)"""
    import fastavro
    if len(vals) != n_expected:
        return False, "count", "%d values for count %d" % (len(vals), n_expected)
    for k, v in enumerate(vals):
        if not shape_ok(v, entry.parsed, entry.named):
            return False, "value-not-of-the-type", "value %d = %r is not a datum of the schema's type" % (k, v)
        r = attempt(lambda: fastavro.validate(v, schema_arg))
        if r != ("ok", True):
            return False, "does-not-validate", "validate(value %d) = %r; value %r" % (k, r, v)
        fo = io.BytesIO()
        w = attempt(lambda: fastavro.schemaless_writer(fo, schema_arg, v))
        if w[0] != "ok":
            return False, "schemaless-writer-rejects", "schemaless_writer: %r; value %r" % (w, v)
        data = fo.getvalue()
        fi = io.BytesIO(data)
        rd = attempt(lambda: fastavro.schemaless_reader(fi, schema_arg))
        if rd[0] != "ok":
            return False, "cannot-be-read-back", "schemaless_reader: %r; value %r" % (rd, v)
        if fi.tell() != len(data):
            return False, "read-back-stops-early", "reader consumed %d of %d bytes" % (fi.tell(), len(data))
        if not read_equiv(v, rd[1], entry.parsed, entry.named):
            return False, "read-back-differs", "read back %r for generated %r" % (rd[1], v)
        if not entry.has_decimal and not (entry.has_logical and entry.has_union):
            # what was read back (the logical Python object) is itself writable and stable.  Not demanded by the statement; left out
            # where the writer's union choice (C09) may file the logical object under another branch (a datetime is a date) and
            # for decimals (reading rounds to the precision)
            fo2 = io.BytesIO()
            w2 = attempt(lambda: fastavro.schemaless_writer(fo2, schema_arg, rd[1]))
            if w2[0] != "ok":
                return False, "read-back-value-not-writable", "schemaless_writer(read back) %r; %r" % (w2, rd[1])
            r2 = attempt(lambda: fastavro.schemaless_reader(io.BytesIO(fo2.getvalue()), schema_arg))
            if r2[0] != "ok" or not deep_same(r2[1], rd[1]):
                return False, "read-back-not-stable", "second round trip gives %r, first %r" % (r2[1], rd[1])
    if check_container:
        fo = io.BytesIO()
        w = attempt(lambda: fastavro.writer(fo, schema_arg, vals), 60)
        if w[0] != "ok":
            return False, "container-writer-rejects", "writer(): %r" % (w,)
        fo.seek(0)
        rd = attempt(lambda: list(fastavro.reader(fo)), 60)
        if rd[0] != "ok":
            return False, "container-cannot-be-read-back", "reader(): %r" % (rd,)
        if len(rd[1]) != len(vals) or not all(read_equiv(v, o, entry.parsed, entry.named) for v, o in zip(vals, rd[1])):
            return False, "container-read-back-differs", "container round trip differs"
    return True, None, None


KNOWN_LOGICAL = {"int-date", "int-time-millis", "long-time-micros", "long-timestamp-millis", "long-timestamp-micros",
                 "long-local-timestamp-millis", "long-local-timestamp-micros", "string-uuid", "bytes-decimal", "fixed-decimal"}


def features(entry):
    """coarse description of the schema for signatures"""
    txt = json.dumps(entry.raw)
    lts = sorted({m for m in ("date", "time-millis", "time-micros", "timestamp-millis", "timestamp-micros", "local-timestamp-millis",
                              "local-timestamp-micros", "uuid", "decimal") if '"logicalType": "%s"' % m in txt})
    return "+".join(lts) if 0 < len(lts) <= 2 else ("logical-mixed" if lts else "plain")


def blame(entry, vals):
    """the type name of the first leaf whose generated value is not of its type (for the signature)"""
    def go(v, s):
        s2 = resolve(s, entry.named)
        if isinstance(s2, list):
            if any(shape_ok(v, b, entry.named) for b in s2):
                return None
            def kind(b):
                b = resolve(b, entry.named)
                return b if isinstance(b, str) else b["type"]
            same = [b for b in s2 if (type(v) is dict and kind(b) in ("record", "error", "map")) or (type(v) is list and kind(b) == "array")
                    or (type(v) is int and kind(b) in ("int", "long")) or (type(v) is str and kind(b) in ("string", "enum"))
                    or (type(v) is bytes and kind(b) in ("bytes", "fixed"))]
            for b in same:
                r = go(v, b)
                if r:
                    return r
            return "union"
        t = s2 if isinstance(s2, str) else s2["type"]
        if shape_ok(v, s2, entry.named):
            return None
        if t == "array" and type(v) is list:
            for x in v:
                b = go(x, s2["items"])
                if b:
                    return b
        if t == "map" and type(v) is dict:
            for x in v.values():
                b = go(x, s2["values"])
                if b:
                    return b
        if t in ("record", "error") and type(v) is dict:
            for f in s2["fields"]:
                if f["name"] in v:
                    b = go(v[f["name"]], f["type"])
                    if b:
                        return b
        return logical_of(s2) if logical_of(s2) in KNOWN_LOGICAL else t
    for v in vals:
        b = go(v, entry.parsed)
        if b:
            return b
    return None


SIG_STRING = "C20:generate:string-value:cannot-be-written"
SIG_ISO = "C20:validate+writer:str-datum-in-union-with-int-date-branch:ValueError"
SIG_UUID = "C20:writer+reader:str-datum-filed-under-string-uuid-branch-of-union:ValueError-on-read"


def classify(entry, vals, symptom, why):
    """signature of a failing predicate: one per defect"""
    if "Invalid isoformat string" in (why or "") and entry.has_union:
        # prepare_date (applied by _validate to every int-date candidate of a union) parses ANY str as an ISO date and raises
        return SIG_ISO
    if symptom in ("cannot-be-read-back", "container-cannot-be-read-back") and "badly formed hexadecimal UUID" in (why or "") and entry.has_union:
        # a str generated for another branch (enum symbol, plain string) is filed by the writer under the earlier string-uuid
        # branch (any str validates there); read_uuid then raises
        return SIG_UUID
    if "UnicodeEncodeError" in (why or ""):
        return SIG_STRING          # a generated str (value or map key) that has no UTF-8 encoding
    b = blame(entry, vals) if symptom in ("value-not-of-the-type", "does-not-validate") else None
    if symptom == "count":
        return "C20:generate_many:count"
    if b is None:
        b = unreadable_leaf(entry, vals)
    return "C20:generate:%s:%s" % (symptom, b or features(entry))


def leaves(v, s, named):
    """(value, leaf schema) pairs of a generated value, following the union branch that admits the value"""
    s = resolve(s, named)
    if isinstance(s, list):
        for b in s:
            if shape_ok(v, b, named):
                yield from leaves(v, b, named)
                return
        return
    t = s if isinstance(s, str) else s["type"]
    if t == "array" and type(v) is list:
        for x in v:
            yield from leaves(x, s["items"], named)
    elif t == "map" and type(v) is dict:
        for x in v.values():
            yield from leaves(x, s["values"], named)
    elif t in ("record", "error") and type(v) is dict:
        for f in s["fields"]:
            if f["name"] in v:
                yield from leaves(v[f["name"]], f["type"], named)
    else:
        yield v, s


def unreadable_leaf(entry, vals):
    """the logical type of the first leaf whose stored value is outside its logical reader's domain"""
    for v in vals:
        for x, s in leaves(v, entry.parsed, entry.named):
            if isinstance(s, dict) and logical_of(s):
                try:
                    logical_view(x, s)
                except Exception:
                    return logical_of(s)
    return None


# ------------------------------------------------------------------ cases
def stream_of(rec):
    return [d for _, _, d in rec]


def model_expr(entry, case, rec):
    draws = G.clist(G.zlit(d) for d in stream_of(rec))
    if case["mode"] == "one":
        return "run_gen_one %s %s %s" % (entry.coq_env, entry.coq_schema, draws)
    return "run_gen_many %s %s %s %s" % (entry.coq_env, entry.coq_schema, G.zlit(case["n"]), draws)


def impl_text(case, vals):
    try:
        if case["mode"] == "one":
            return "G:" + G.show_py(vals[0]) + "|0"
        return "G:" + G.show_py(list(vals)) + "|0"
    except UnicodeEncodeError:          # a str with a lone surrogate has no UTF-8 form (and no model term)
        return "G:<a str that cannot be UTF-8 encoded> " + ascii(vals)[:400]


def case_json(entry, case, rec):
    return dict(schema=entry.raw, use_raw=case["use_raw"], mode=case["mode"], n=case["n"], tag=entry.tag,
                draws=[[k, str(n), str(d)] for k, n, d in rec])


def make_case(ctx, entry, planned, mode=None, n=None):
    rng = ctx.rng
    case = dict(mode=mode or ("one" if rng.random() < 0.2 else "many"))
    case["n"] = 1 if case["mode"] == "one" else (n if n is not None else rng.choice([0, 1, 1, 2, 2, 7]))
    case["use_raw"] = rng.random() < 0.6
    case["schema_arg"] = entry.raw if case["use_raw"] else entry.parsed
    case["feed"] = None
    if planned:
        feed = []
        try:
            for _ in range(case["n"]):
                p = Planner(rng, entry.named, entry.ht)
                p.go(entry.parsed)
                feed.extend(p.out)
            case["feed"] = feed
        except (Budget, RecursionError):
            return None
    return case


def evaluate(ctx, entry, case, st, vals, rec, mismatch, m, corr="corr:gen"):
    """compare one executed case with the model's answer m and evaluate the statement on the implementation"""
    cj = case_json(entry, case, rec)
    key = (json.dumps(entry.raw, sort_keys=True), case["mode"], case["n"], tuple(stream_of(rec)))
    ctx.count(corr, key, nontrivial=len(rec) > 0)
    feat = features(entry)
    if st == "ok":
        holds, symptom, why = predicate(entry, case["schema_arg"], vals, case["n"])
        t = impl_text(case, vals)
        if not holds:
            ctx.violation(corr, cj, impl=t[:1500], model=(m or "")[:1500], signature=classify(entry, vals, symptom, why),
                          found_input=True, detail=why)
        elif t != m:
            ctx.violation(corr, cj, impl=t[:1500], model=(m or "")[:1500], signature="C20:model-differs", found_input=False,
                          detail="generated values differ from the model's on the recorded draws (or the draws were not all consumed); "
                                 "every generated value still validates, is written and read back")
        return holds and t == m
    if st in ("RecursionError", "Budget", "timeout") and entry.finish == INF:
        st = "RecursionError (or more than %d draws)" % MAX_DRAWS if st != "RecursionError" else st
    if st.startswith("RecursionError"):
        if entry.finish == INF:
            ctx.violation(corr, cj, impl=st, model=m, signature=SIG_F12 if has_container_on_cycle(entry.parsed, entry.named)
                          else "C20:gen_data:type-contains-itself-unconditionally:RecursionError", found_input=True,
                          detail="gen_data never returns for a type that contains itself through an array or map (always 10 items): "
                                 "the model runs out of fuel for every fuel and stream (C20_refuted_rec_array)")
            if m not in ("FUEL", "E"):      # E: the recorded (truncated) draws ran out before the model's fuel did
                ctx.violation(corr, cj, impl="RecursionError", model=m, signature="C20:model-differs", found_input=False)
            return False
        if entry.cyclic and (mismatch or case.get("feed") is None):
            ctx.notes["unlucky_streams_recursion_error"] = ctx.notes.get("unlucky_streams_recursion_error", 0) + 1
            return True
        ctx.violation(corr, cj, impl="RecursionError", model=m, signature="C20:gen_data:RecursionError:" + ("recursive-through-union" if entry.cyclic else feat),
                      found_input=True, detail="RecursionError although the nesting the stream asks for is shallow")
        return False
    if st in ("Budget", "timeout"):
        if entry.cyclic and entry.finish != INF and (mismatch or case.get("feed") is None):
            ctx.notes["unlucky_streams_exploding"] = ctx.notes.get("unlucky_streams_exploding", 0) + 1
            return True
        ctx.violation(corr, cj, impl=st, model=m, signature="C20:gen_data:does-not-return:" + feat, found_input=True,
                      detail="generation did not finish within %d draws / 30 s" % MAX_DRAWS)
        return False
    # any other exception on a valid schema
    ctx.violation(corr, cj, impl=st, model=m, signature="C20:gen_data:%s" % st.replace("raised:", "raised-"), found_input=True,
                  detail="generate raised on a valid schema; model: %s" % m)
    return False


# ------------------------------------------------------------------ corr:gen-reuse: one schema OBJECT across several calls
SIG_REUSE = "C20:generate:schema-object-edited-in-place-between-calls:values-for-the-old-schema"
ADD_TYPES = ["int", "string", "double", "boolean", {"type": "int", "logicalType": "date"}, ["null", "long"],
             {"type": "array", "items": "string"}]


def _nav(root, path):
    x = root
    for k in path:
        x = x[k]
    return x


def edit_sites(s, path=(), depth=0, out=None, field_has_default=False):
    """places of a RAW schema where an in-place edit keeps it valid: records (add a field), fields of primitive type without a
    default (retype), unions not guarded by a field default (replace a primitive branch)"""
    if out is None:
        out = dict(records=[], fields=[], unions=[])
    if isinstance(s, list):
        if not field_has_default:
            out["unions"].append((path, depth))
        for i, b in enumerate(s):
            edit_sites(b, path + (i,), depth + 1, out)
    elif isinstance(s, dict):
        t = s.get("type")
        if t in ("record", "error"):
            out["records"].append((path, depth))
            for i, f in enumerate(s["fields"]):
                fp = path + ("fields", i)
                ft = f["type"]
                if "default" not in f and (ft in gen.PRIMS or (isinstance(ft, dict) and ft.get("type") in gen.PRIMS)):
                    out["fields"].append((fp, depth))
                edit_sites(ft, fp + ("type",), depth + 1, out, "default" in f)
        elif t == "array":
            edit_sites(s["items"], path + ("items",), depth + 1, out)
        elif t == "map":
            edit_sites(s["values"], path + ("values",), depth + 1, out)
    return out


def branch_type(b):
    if isinstance(b, str):
        return b if b in gen.PRIMS else "named"
    if isinstance(b, dict):
        return b["type"] if b["type"] in gen.PRIMS + ["array", "map"] else "named"
    return "union"


def pick_edit(rng, S, serial):
    """one declarative in-place edit of S: dict(op, path, ...); None when S offers no site"""
    sites = edit_sites(S)
    kinds = [k for k in ("records", "fields", "unions") if sites[k]]
    if not kinds:
        return None
    k = rng.choice(kinds)
    path, depth = rng.choice(sites[k])
    if k == "records":
        rec = _nav(S, path)
        names = {f["name"] for f in rec["fields"]}
        name = "added%d" % serial
        if name in names:
            return None
        return dict(op="add_field", path=list(path), field={"name": name, "type": copy.deepcopy(rng.choice(ADD_TYPES))},
                    what="field added to a %s record" % ("nested" if depth else "top-level"))
    if k == "fields":
        f = _nav(S, path)
        old = f["type"]
        oldt = old if isinstance(old, str) else old["type"]
        new = rng.choice([t for t in ["int", "string", "double", "boolean", "bytes", "long"] if t != oldt])
        return dict(op="set", path=list(path), key="type", value=new, what="field retyped %s -> %s" % (oldt, new))
    u = _nav(S, path)
    idx = [i for i, b in enumerate(u) if isinstance(b, str) and b in gen.PRIMS]
    have = {branch_type(b) for b in u}
    free = [t for t in gen.PRIMS if t not in have]
    if not idx or not free:
        return None
    i = rng.choice(idx)
    return dict(op="set", path=list(path), key=i, value=rng.choice(free), what="union branch %s replaced" % u[i])


def apply_edit(S, ed):
    """apply IN PLACE; returns the inverse edit"""
    tgt = _nav(S, ed["path"])
    if ed["op"] == "add_field":
        tgt["fields"].append(copy.deepcopy(ed["field"]))
        return dict(op="pop_field", path=ed["path"], what="field removed again")
    if ed["op"] == "pop_field":
        f = tgt["fields"].pop()
        return dict(op="add_field", path=ed["path"], field=f, what="field added")
    old = tgt[ed["key"]]
    tgt[ed["key"]] = copy.deepcopy(ed["value"])
    return dict(op="set", path=ed["path"], key=ed["key"], value=old, what="edit reverted")


def reuse_step(ctx, S, rng, cap, given_feed=None, given=None):
    """generate with the LIVE object S on planned draws; the same draws on a deep copy (a schema object never seen before).
    -> dict for the comparison, or None when the current form is not usable (too many draws / cannot finish)"""
    cur = copy.deepcopy(S)
    try:
        entry = prepare(cur, "reuse")
    except Exception:
        return "invalid"
    if entry.finish == INF or (not entry.cyclic and entry.cost > cap):
        return None
    case = dict(mode="one" if rng.random() < 0.25 else "many", use_raw=True, schema_arg=S, feed=None)
    case["n"] = 1 if case["mode"] == "one" else rng.choice([1, 2])
    if given is not None:
        case["mode"], case["n"] = given
    feed = []
    try:
        for _ in range(case["n"]):
            pl = Planner(rng, entry.named, entry.ht)
            pl.go(entry.parsed)
            feed.extend(pl.out)
    except (Budget, RecursionError):
        return None
    case["feed"] = given_feed if given_feed is not None else feed
    st, vals, rec, mm = run_impl(case, rng)
    fresh_case = dict(case, schema_arg=copy.deepcopy(S), feed=list(rec))
    st2, vals2, rec2, mm2 = run_impl(fresh_case, rng)
    return dict(entry=entry, case=case, st=st, vals=vals, rec=rec, mismatch=mm, st2=st2, vals2=vals2, schema_now=cur)


def reuse_evaluate(ctx, hist_json, step, m):
    """one generate step of a history against (a) the statement on the CURRENT schema, (b) a fresh schema object, (c) the model"""
    entry, case, st, vals, rec = step["entry"], step["case"], step["st"], step["vals"], step["rec"]
    corr = "corr:gen-reuse"
    ctx.count(corr, (hist_json["id"], step["index"], tuple(stream_of(rec))), nontrivial=step["index"] > 0)
    cj = dict(hist_json, failing_step=step["index"], schema_at_that_step=step["schema_now"], mode=case["mode"], n=case["n"],
              draws=[[k, str(n), str(d)] for k, n, d in rec])
    if st != "ok":
        ctx.violation(corr, cj, impl=st, model=m, signature="C20:gen-reuse:generation-" + st.split(":")[-1], found_input=True,
                      detail="generate raised / did not finish on a schema object that was used before")
        return False
    t = impl_text(case, vals)
    holds, symptom, why = predicate(entry, copy.deepcopy(step["schema_now"]), vals, case["n"], check_container=False)
    fresh_same = step["st2"] == "ok" and impl_text(case, step["vals2"]) == t
    if not holds:
        stale = not fresh_same and step["index"] > 0
        ctx.violation(corr, cj, impl=t[:1200], model=(m or "")[:1200],
                      signature=SIG_REUSE if stale else classify(entry, vals, symptom, why), found_input=True,
                      detail="%s; a fresh copy of the same schema yields %s on the same draws; history: %s" % (
                          why, (impl_text(case, step["vals2"]) if step["st2"] == "ok" else step["st2"])[:300],
                          "; ".join(hist_json["steps_text"][: step["index"] + 1])))
        return False
    if not fresh_same or t != m:
        ctx.violation(corr, cj, impl=t[:1200], model=(m or "")[:1200], signature="C20:gen-reuse:differs-from-fresh-schema-object",
                      found_input=False,
                      detail="values for a reused schema object differ from those for a fresh copy / the model on the same draws "
                             "(they still conform to the current schema); history: " + "; ".join(hist_json["steps_text"][: step["index"] + 1]))
        return False
    return True


def run_history(ctx, raw0, script, rng, cap, feeds=None):
    """script: list of 'gen' | edit dict | 'revert' | 'random-edit'.  Executes on ONE live object; returns (history json, gen steps)"""
    S = copy.deepcopy(raw0)
    steps, text, edits, undo = [], [], [], []
    serial = 0
    for op in script:
        if op == "gen":
            g = (feeds or {}).get(len(text))
            r = reuse_step(ctx, S, rng, cap, given_feed=g[1] if g else None, given=g[0] if g else None)
            if r == "invalid" or r is None:
                text.append("(generate skipped: %s)" % ("schema rejected" if r == "invalid" else "too large"))
                if r == "invalid":
                    return None, []
                continue
            r["index"] = len(text)
            text.append("generate %s n=%d" % (r["case"]["mode"], r["case"]["n"]))
            edits.append("gen")
            steps.append(r)
        else:
            if op == "revert":
                if not undo:
                    continue
                ed = undo.pop()
            elif op == "random-edit":
                serial += 1
                ed = pick_edit(rng, S, serial)
                if ed is None:
                    continue
            else:
                ed = op
            inv = apply_edit(S, ed)
            try:
                prepare(copy.deepcopy(S), "reuse")
            except Exception:
                apply_edit(S, inv)          # the edit made the schema invalid: take it back, not part of the history
                continue
            if op != "revert":
                undo.append(inv)
            text.append("edit in place: " + ed.get("what", ed["op"]))
            edits.append(ed)
    hj = dict(kind="history", initial_schema=raw0, script=edits, steps_text=text)
    hj["id"] = hashlib.sha1(json.dumps(hj, sort_keys=True, default=str).encode()).hexdigest()[:12]
    return hj, steps


REUSE_FIXED = [
    ({"type": "record", "name": "Reading", "namespace": "demo", "fields": [{"name": "station", "type": "string"}, {"name": "temp", "type": "int"}]},
     ["gen", dict(op="add_field", path=[], field={"name": "humidity", "type": "double"}, what="field added to a top-level record"), "gen",
      dict(op="set", path=["fields", 1], key="type", value="string", what="field retyped int -> string"), "gen", "gen"]),
    ({"type": "array", "items": {"type": "record", "name": "Outer", "fields": [
        {"name": "first", "type": {"type": "record", "name": "Inner", "fields": [{"name": "a", "type": "long"}]}},
        {"name": "second", "type": "Inner"}]}},
     ["gen", dict(op="add_field", path=["items", "fields", 0, "type"], field={"name": "b", "type": {"type": "fixed", "name": "F4", "size": 4}},
                  what="field added to a nested record"), "gen"]),
    (["int"], ["gen", dict(op="set", path=[], key=0, value="string", what="union branch int replaced"), "gen", "revert", "gen"]),
    (["null", "int", {"type": "enum", "name": "Eu", "symbols": ["A", "B"]}],
     [dict(op="set", path=[], key=1, value="bytes", what="union branch int replaced"), "gen", "revert", "gen"]),
]


def run_reuse(ctx, entries, cap):
    rng = ctx.rng
    quick = ctx.quick()
    hists = []
    for raw0, script in REUSE_FIXED:
        hists.append(run_history(ctx, raw0, script, rng, cap))
    cands = [e for e in entries if isinstance(e.raw, (dict, list)) and e.finish != INF and e.cost <= cap // 4]
    want = 75 if quick else 2500
    tries = 0
    while len(hists) < want + len(REUSE_FIXED) and tries < want * 4 and cands:
        tries += 1
        e = rng.choice(cands)
        shape = rng.random()
        if shape < 0.55:
            script = ["gen", "random-edit", "gen"] + (["random-edit", "gen"] if rng.random() < 0.4 else [])
        elif shape < 0.7:
            script = ["random-edit", "gen", "revert", "gen"]            # the reverse order: the edited form is seen first
        elif shape < 0.85:
            script = ["gen", "random-edit", "gen", "revert", "gen"]
        else:
            script = ["gen", "gen", "gen"]                               # unchanged object, repeated calls
        hj, steps = run_history(ctx, e.raw, script, rng, cap)
        if hj is None or not steps:
            continue
        if "random-edit" in script and not any(isinstance(x, dict) for x in hj["script"]):
            continue                                                     # no edit site: nothing learnt beyond corr:gen
        hists.append((hj, steps))
    flat = [(hj, st) for hj, steps in hists if hj for st in steps]
    exprs = [model_expr(st["entry"], st["case"], st["rec"]) for hj, st in flat]
    model = core.coq_eval(exprs, IMPORTS, ctx.workdir, tag="c20h", shard=max(8, len(exprs) // 30))
    for (hj, st), m in zip(flat, model):
        reuse_evaluate(ctx, hj, st, m)
    kinds = {}
    for hj, steps in hists:
        if hj:
            for x in hj["script"]:
                if isinstance(x, dict):
                    k = " ".join(x.get("what", x["op"]).split(" ")[:2])
                    kinds[k] = kinds.get(k, 0) + 1
    ctx.notes["reuse_histories"] = sum(1 for hj, _ in hists if hj)
    ctx.notes["reuse_generate_steps"] = len(flat)
    ctx.notes["reuse_edit_kinds"] = kinds
    if flat:
        hj, st = flat[min(len(flat) - 1, 5)]
        ctx.sample(dict(history=hj["steps_text"], initial_schema=hj["initial_schema"]))


def replay_history(ctx, c):
    feeds = {c["failing_step"]: ((c["mode"], c["n"]), [(k, int(n), int(d)) for k, n, d in c["draws"]])} if "failing_step" in c else None
    hj, steps = run_history(ctx, c["initial_schema"], c["script"], _random.Random(0), 10 ** 9, feeds=feeds)
    if hj is None:
        print("the history's schema is rejected now")
        return False
    # the recorded draws of the failing step are re-fed so that the very same values are asked for
    ok = True
    before = len(ctx.violations)
    model = core.coq_eval([model_expr(st["entry"], st["case"], st["rec"]) for st in steps], IMPORTS, ctx.workdir, tag="c20hr")
    for st, m in zip(steps, model):
        print("step %d (%s): %s" % (st["index"], hj["steps_text"][st["index"]], (impl_text(st["case"], st["vals"]) if st["st"] == "ok" else st["st"])[:200]))
        ok = reuse_evaluate(ctx, hj, st, m) and ok
    for v in ctx.violations[before:]:
        print("still fails:", v["signature"], "-", (v.get("detail") or "")[:400])
    return ok and len(ctx.violations) == before


# ------------------------------------------------------------------ corr:gen-depth: the recursive branch k times in a row
DEPTH_SCHEMAS = [
    {"type": "record", "name": "Expr", "fields": [{"name": "op", "type": {"type": "enum", "name": "Op", "symbols": ["ADD", "NEG"]}},
                                                   {"name": "arg", "type": ["long", "Expr"]}]},
    {"type": "record", "name": "Chain", "namespace": "deep", "fields": [{"name": "next", "type": ["Chain", "string"]}, {"name": "v", "type": "int"}]},
    {"type": "record", "name": "Bush", "fields": [{"name": "kids", "type": ["boolean", {"type": "array", "items": "Bush"}]}]},
    {"type": "record", "name": "A", "fields": [{"name": "b", "type": [{"type": "record", "name": "B", "fields": [{"name": "a", "type": ["A", "string"]}]}, "int"]}]},
    {"type": "record", "name": "Opt", "fields": [{"name": "next", "type": ["null", "Opt"]}, {"name": "m", "type": {"type": "map", "values": ["double", "Opt"]}}]},
]
SIG_DEPTH = "C20:generate:deeply-nested-recursive-value:not-a-datum-of-the-schema"


def run_depth(ctx):
    rng = ctx.rng
    depths = list(range(1, 13)) + ([15, 20] if ctx.quick() else list(range(13, 46)))
    runs = []
    for raw in DEPTH_SCHEMAS:
        e = prepare(raw, "depth")
        for k in depths:
            for rep in range(1 if ctx.quick() else 3):
                pl = Planner(rng, e.named, e.ht, soft_depth=0, node_budget=10 ** 9)
                pl.forced = k
                try:
                    pl.go(e.parsed)
                except (Budget, RecursionError):
                    continue
                if len(pl.out) > 20000:
                    continue
                case = dict(mode="one" if rng.random() < 0.3 else "many", n=1, use_raw=rng.random() < 0.5, feed=pl.out)
                case["schema_arg"] = e.raw if case["use_raw"] else e.parsed
                st, vals, rec, mm = run_impl(case, rng)
                runs.append((e, case, st, vals, rec, mm, k))
    model = core.coq_eval([model_expr(e, case, rec) for e, case, st, vals, rec, mm, k in runs], IMPORTS, ctx.workdir, tag="c20d", shard=12)
    for (e, case, st, vals, rec, mm, k), m in zip(runs, model):
        corr = "corr:gen-depth"
        cj = dict(case_json(e, case, rec), recursive_branch_taken=k)
        ctx.count(corr, (json.dumps(e.raw, sort_keys=True), k, tuple(stream_of(rec))))
        if st != "ok":
            ctx.violation(corr, cj, impl=st, model=m, signature="C20:gen-depth:" + st.replace("raised:", "raised-"), found_input=True,
                          detail="generation failed on a stream that takes the recursive union branch %d times in a row" % k)
            continue
        holds, symptom, why = predicate(e, case["schema_arg"], vals, 1, check_container=(k % 4 == 0))
        t = impl_text(case, vals)
        if not holds:
            ctx.violation(corr, cj, impl=t[:1200], model=(m or "")[:1200], signature=SIG_DEPTH, found_input=True,
                          detail="the recursive union branch taken %d times in a row: %s" % (k, why))
        elif t != m:
            ctx.violation(corr, cj, impl=t[:1200], model=(m or "")[:1200], signature="C20:model-differs", found_input=False,
                          detail="deep recursive value differs from the model's on the recorded draws; it still conforms")
    ctx.notes["depth_family_max_recursive_steps"] = max(depths)


# ------------------------------------------------------------------ corr:gen-interleave: several live generators at once
SIG_INTERLEAVE = "C20:generate_many:interleaved-generators:value-built-from-another-schema's-named-type"


def _pair(x_a, x_b, name="X"):
    """two schemas that define the named type `name` differently and refer to it by name"""
    def outer(x, k):
        return {"type": "record", "name": "Outer", "fields": [{"name": "first", "type": x}, {"name": "second", "type": name},
                                                               {"name": "more", "type": {"type": "array", "items": name}},
                                                               {"name": "opt", "type": ["null", name]}]}
    return outer(x_a, 0), outer(x_b, 1)


INTERLEAVE_FAMILIES = [
    _pair({"type": "record", "name": "X", "fields": [{"name": "a", "type": "int"}]},
          {"type": "record", "name": "X", "fields": [{"name": "a", "type": "string"}, {"name": "b", "type": "double"}]}),
    _pair({"type": "enum", "name": "X", "symbols": ["A", "B"]}, {"type": "enum", "name": "X", "symbols": ["C", "D", "E"]}),
    _pair({"type": "fixed", "name": "X", "size": 2}, {"type": "fixed", "name": "X", "size": 5}),
    _pair({"type": "enum", "name": "X", "symbols": ["A"]}, {"type": "record", "name": "X", "fields": [{"name": "k", "type": "long"}]}),
    ({"type": "array", "items": {"type": "record", "name": "n.Item", "fields": [{"name": "id", "type": {"type": "fixed", "name": "n.Id", "size": 4}},
                                                                                 {"name": "again", "type": "n.Id"}]}},
     {"type": "map", "values": {"type": "record", "name": "n.Item", "fields": [{"name": "id", "type": {"type": "fixed", "name": "n.Id", "size": 1}},
                                                                                {"name": "again", "type": ["n.Id", "null"]}]}}),
]


class TaggedSource(Source):
    """records the draws separately for each consumer (generator) that is running"""

    def __init__(self, rng):
        super().__init__(rng, None)
        self.tag, self.by_tag = None, {}

    def take(self, kind, n, base=None):
        r = super().take(kind, n, base)
        self.by_tag.setdefault(self.tag, []).append(self.rec[-1])
        return r


def run_interleaved(schemas, ops, rng):
    """ops: ('next', i) on the live generator generate_many(schemas[i], big) | ('one', i) = generate_one(schemas[i]).
    -> list of (kind, i, status, value), draws by consumer"""
    import fastavro.utils as U
    src = TaggedSource(rng)
    old_r, old_u = U.random, U.uuid
    U.random, U.uuid = RandomProxy(src), UuidProxy(src)
    out = []
    try:
        gens = [U.generate_many(S, 1000) for S in schemas]
        ones = 0
        for kind, i in ops:
            if kind == "next":
                src.tag = ("g", i)
                fn = lambda: next(gens[i])
            else:
                src.tag = ("o", ones)
                ones += 1
                fn = lambda: U.generate_one(schemas[i])
            try:
                out.append((kind, i, "ok", core.with_timeout(fn, 20), src.tag))
            except Budget:
                out.append((kind, i, "Budget", None, src.tag))
                break
            except core.Timeout:
                out.append((kind, i, "timeout", None, src.tag))
                break
            except Exception as ex:
                out.append((kind, i, "raised:" + type(ex).__name__, None, src.tag))
                break
    finally:
        U.random, U.uuid = old_r, old_u
    return out, src.by_tag


def interleave_ops(rng, k, length):
    ops = []
    for j in range(length):
        r = rng.random()
        if r < 0.2:
            ops.append(("one", rng.randrange(k)))
        else:
            ops.append(("next", j % k if r < 0.7 else rng.randrange(k)))
    return ops


def evaluate_interleaved(ctx, schemas_raw, entries, ops, out, by_tag, models, replaying=False):
    corr = "corr:gen-interleave"
    cj = dict(kind="interleave", schemas=schemas_raw, ops=[list(o) for o in ops],
              draws={"%s%d" % t: [[k, str(n), str(d)] for k, n, d in rec] for t, rec in by_tag.items()})
    ok = True
    seen = {}
    for kind, i, st, v, tag in out:
        ctx.count(corr, (json.dumps(schemas_raw, sort_keys=True), tag, tuple(stream_of(by_tag.get(tag, [])))))
        e = entries[i]
        if st != "ok":
            ctx.violation(corr, cj, impl=st, model=None, signature="C20:gen-interleave:" + st.replace("raised:", "raised-"), found_input=True,
                          detail="%s on schema #%d raised / did not finish while other generators were live" % (kind, i))
            return False
        holds, symptom, why = predicate(e, copy.deepcopy(e.raw), [v], 1, check_container=False)
        if not holds:
            ctx.violation(corr, cj, impl=G.show_py(v)[:1200], model=None, signature=SIG_INTERLEAVE, found_input=True,
                          detail="value yielded for schema #%d (%s, step %d of %s) while generators for the other schemas were live: %s"
                                 % (i, kind, len(seen), [list(o) for o in ops], why))
            return False
        seen.setdefault(tag, []).append(v)
    # against the model: each consumer's values on that consumer's own draws
    for tag, vals in seen.items():
        m = models.get(tag)
        t = ("G:" + G.show_py(list(vals)) + "|0") if tag[0] == "g" else ("G:" + G.show_py(vals[0]) + "|0")
        if m is not None and t != m:
            ctx.violation(corr, cj, impl=t[:1200], model=(m or "")[:1200], signature="C20:model-differs", found_input=False,
                          detail="values of consumer %s%d differ from the model's on that consumer's draws; each still conforms to its schema" % tag)
            ok = False
    return ok


def interleave_models(ctx, entries, ops, out, by_tag, tag_name):
    """Gallina expressions per consumer"""
    exprs, keys = [], []
    count = {}
    one_schema = {}
    for kind, i, st, v, tag in out:
        if st == "ok":
            count[tag] = count.get(tag, 0) + 1
            one_schema[tag] = i
    for tag, c in count.items():
        e = entries[one_schema[tag]]
        draws = G.clist(G.zlit(d) for d in stream_of(by_tag.get(tag, [])))
        if tag[0] == "g":
            exprs.append("run_gen_many %s %s %s %s" % (e.coq_env, e.coq_schema, G.zlit(c), draws))
        else:
            exprs.append("run_gen_one %s %s %s" % (e.coq_env, e.coq_schema, draws))
        keys.append(tag)
    return exprs, keys


def run_interleave(ctx, entries, cap):
    rng = ctx.rng
    fams = [list(p) for p in INTERLEAVE_FAMILIES]
    # variants of generated schemas: the same names, one definition edited
    cands = [e for e in entries if isinstance(e.raw, dict) and not e.cyclic and e.cost <= cap // 6 and e.named
             and (refs_of(e.parsed, set()) or any(refs_of(v, set()) for v in e.named.values()))]
    want = 18 if ctx.quick() else 600
    tries = 0
    while len(fams) < want and tries < want * 6 and cands:
        tries += 1
        e = rng.choice(cands)
        group = [copy.deepcopy(e.raw)]
        for _ in range(rng.choice([1, 1, 2])):
            S = copy.deepcopy(e.raw)
            changed = False
            for j in range(2):
                ed = pick_edit(rng, S, 100 + j)
                if ed is None:
                    continue
                inv = apply_edit(S, ed)
                try:
                    pe = prepare(copy.deepcopy(S), "interleave")
                    if pe.cyclic or pe.cost > cap // 4:
                        raise ValueError("too large")
                    changed = True
                except Exception:
                    apply_edit(S, inv)
            if changed:
                group.append(S)
        if len(group) >= 2:
            fams.append(group)
    jobs = []
    for group in fams:
        ents = [prepare(copy.deepcopy(S), "interleave") for S in group]
        for _ in range(2 if ctx.quick() else 3):
            order = list(range(len(group)))
            rng.shuffle(order)
            schemas = [copy.deepcopy(group[i]) for i in order]
            es = [ents[i] for i in order]
            ops = interleave_ops(rng, len(schemas), rng.choice([4, 6, 7]))
            out, by_tag = run_interleaved(schemas, ops, rng)
            exprs, keys = interleave_models(ctx, es, ops, out, by_tag, "c20i")
            jobs.append(([group[i] for i in order], es, ops, out, by_tag, exprs, keys))
    flat = [x for j in jobs for x in j[5]]
    res = core.coq_eval(flat, IMPORTS, ctx.workdir, tag="c20i", shard=max(8, len(flat) // 24))
    pos = 0
    for raws, es, ops, out, by_tag, exprs, keys in jobs:
        models = dict(zip(keys, res[pos:pos + len(exprs)]))
        pos += len(exprs)
        evaluate_interleaved(ctx, raws, es, ops, out, by_tag, models)
    ctx.notes["interleave_groups"] = len(fams)
    ctx.notes["interleave_runs"] = len(jobs)


def replay_interleave(ctx, c):
    schemas = c["schemas"]
    es = [prepare(copy.deepcopy(S), "interleave") for S in schemas]
    ops = [tuple(o) for o in c["ops"]]
    out, by_tag = run_interleaved([copy.deepcopy(S) for S in schemas], ops, _random.Random(0))
    exprs, keys = interleave_models(ctx, es, ops, out, by_tag, "c20ir")
    res = core.coq_eval(exprs, IMPORTS, ctx.workdir, tag="c20ir")
    before = len(ctx.violations)
    ok = evaluate_interleaved(ctx, schemas, es, ops, out, by_tag, dict(zip(keys, res)))
    for kind, i, st, v, tag in out:
        print("%s schema #%d: %s %s" % (kind, i, st, G.show_py(v)[:160] if st == "ok" else ""))
    for v in ctx.violations[before:]:
        print("still fails:", v["signature"], "-", (v.get("detail") or "")[:400])
    return ok and len(ctx.violations) == before


# ------------------------------------------------------------------ corr:gen-strings: volume on the string generator
def run_strings(ctx):
    """several thousand generated strings (as values, array items, map keys and values) under fresh sub-seeds: each must be a str that
    validates and that the binary writer can encode and the reader returns unchanged; the number of draws per string is cross-checked
    with the model's (ten per string, nothing else)"""
    import fastavro
    rng = ctx.rng
    fams = [("string", 1, 10), ({"type": "array", "items": "string"}, 10, 100), ({"type": "map", "values": "string"}, 20, 200),
            ({"type": "record", "name": "S3", "fields": [{"name": "a", "type": "string"}, {"name": "b", "type": ["string"]},
                                                          {"name": "c", "type": {"type": "string"}}]}, 3, 31)]
    rounds = 6 if ctx.quick() else 60
    total = 0
    for rd in range(rounds):
        sub = _random.Random(rng.getrandbits(64))
        for raw, per, draws in fams:
            e = prepare(raw, "strings")
            n = max(1, (120 if ctx.quick() else 400) // per)
            case = dict(mode="many", n=n, use_raw=True, schema_arg=e.raw, feed=None)
            st, vals, rec, mm = run_impl(case, sub)
            cj = case_json(e, case, rec[:4000])
            ctx.count("corr:gen-strings", (json.dumps(raw, sort_keys=True), rd, tuple(stream_of(rec[:50]))))
            if st != "ok":
                ctx.violation("corr:gen-strings", cj, impl=st, model=None, signature="C20:gen_data:%s" % st.replace("raised:", "raised-"),
                              found_input=True, detail="generate raised on a string schema")
                continue
            total += n * per
            bad = None
            for k, v in enumerate(vals):
                if not shape_ok(v, e.parsed, e.named):
                    bad = (k, "value-not-of-the-type", "value %d = %r is not a datum of the schema's type" % (k, v))
                    break
                fo = io.BytesIO()
                w = attempt(lambda: (fastavro.validate(v, e.raw), fastavro.schemaless_writer(fo, e.raw, v))[0])
                if w != ("ok", True):
                    bad = (k, "cannot-be-written", "validate / schemaless_writer: %r; value %a" % (w, v))
                    break
                r = attempt(lambda: fastavro.schemaless_reader(io.BytesIO(fo.getvalue()), e.raw))
                if r[0] != "ok" or not deep_same(r[1], v):
                    bad = (k, "read-back-differs", "read back %a for %a" % (r[1], v))
                    break
            if bad:
                # the replay carries exactly the draws of the offending value when the per-value draw count is the expected one
                ctx.violation("corr:gen-strings", cj, impl=ascii(vals[bad[0]])[:600], model=None,
                              signature=SIG_STRING if bad[1] == "cannot-be-written" else "C20:generate:string-value:" + bad[1],
                              found_input=True, detail=bad[2][:600])
            elif len(rec) != n * draws or any(k not in ("c", "i") for k, _, _ in rec):
                ctx.violation("corr:gen-strings", cj, impl="%d draws of kinds %s" % (len(rec), sorted({k for k, _, _ in rec})),
                              model="%d draws (ten letter choices per string)" % (n * draws), signature="C20:model-differs", found_input=False,
                              detail="the string generator does not consume the draws the model does; every string was written and read back")
    ctx.notes["strings_generated"] = total


def run(ctx):
    import fastavro
    import fastavro.utils as U
    rng = ctx.rng
    quick = ctx.quick()
    cap = 2500 if quick else 12000
    n_random = 360 if quick else 9000
    per_schema = 2 if quick else 4

    # ---- constants of utils.py against the model's
    consts = core.coq_eval(["show_gen_consts"], IMPORTS, ctx.workdir, tag="c20k")[0]
    ctx.count("corr:constants", "consts", nontrivial=False)
    mine = "%d,%d,%d,%d,%d,%d" % (-fastavro.const.DAYS_SHIFT + 1, D.date.max.toordinal() - fastavro.const.DAYS_SHIFT,
                                  fastavro.const.MLS_PER_HOUR * 24 - 1, fastavro.const.MCS_PER_HOUR * 24 - 1,
                                  U.MAX_TIMESTAMP_MILLIS, U.MAX_TIMESTAMP_MICROS)
    if consts != mine:
        ctx.violation("corr:constants", dict(model=consts, source=mine), impl=mine, model=consts, signature="C20:constants-differ",
                      found_input=False, detail="range constants of utils.py / const.py differ from the model's")

    # ---- schemas
    entries, rejected, too_big, invalid = [], 0, 0, 0
    for raw in POOL:
        entries.append(prepare(raw, "pool"))
    f12 = [prepare(raw, "f12") for raw in F12_SCHEMAS]
    while len(entries) < len(POOL) + n_random:
        g = LogicalSchemaGen(rng, max_depth=rng.choice([2, 3, 3, 4]), p_logical=rng.choice([0.0, 0.25, 0.4]))
        raw = g.schema(top=True)
        if rng.random() < 0.5:
            raw = drop_rename_marks(keywordize(raw, rng))
        if not valid_for_statement(raw):
            invalid += 1
            continue
        try:
            e = prepare(raw, "random")
        except Exception:
            rejected += 1
            continue
        if e.finish == INF:
            f12.append(e)
            continue
        if not e.cyclic and e.cost > cap:
            too_big += 1
            continue
        entries.append(e)
    ctx.notes.update(schemas=len(entries), schemas_rejected_by_parse=rejected, schemas_over_draw_cap=too_big,
                     schemas_with_duplicate_field_names_skipped=invalid, never_returning_schemas=len(f12),
                     cyclic_schemas=sum(1 for e in entries if e.cyclic),
                     schemas_with_logical_types=sum(1 for e in entries if features(e) != "plain"),
                     schemas_with_keyword_like_type_names=sum(1 for e in entries if any(any(k in n for k in ("fields", "type", "name", "items",
                         "values", "symbols", "size", "null", "long", "int", "record", "enum", "fixed", "map", "array", "union", "default",
                         "string", "bytes")) for n in e.named)),
                     schemas_referring_to_keyword_like_names=sum(1 for e in entries if any(
                         any(k in r for k in ("fields", "type", "items", "values", "symbols", "null", "record", "map", "string"))
                         for r in (refs_of(e.parsed, set()) | set().union(*[refs_of(v, set()) for v in e.named.values()] or [set()])))))

    # ---- execute the implementation
    runs = []
    for e in entries:
        k = per_schema + (3 if e.tag == "pool" else 0)
        for j in range(k):
            planned = e.cyclic or rng.random() < 0.5
            if e.tag == "pool" and j < 5:
                case = make_case(ctx, e, planned, mode="many" if j < 4 else "one", n=[0, 1, 2, 7, 1][j])
            else:
                case = make_case(ctx, e, planned)
            if case is None:
                ctx.notes["plans_abandoned"] = ctx.notes.get("plans_abandoned", 0) + 1
                continue
            if case["feed"] is not None and len(case["feed"]) > 4 * cap:
                ctx.notes["plans_over_cap"] = ctx.notes.get("plans_over_cap", 0) + 1
                continue
            st, vals, rec, mismatch = run_impl(case, rng)
            if mismatch:
                ctx.notes["plan_mismatch"] = ctx.notes.get("plan_mismatch", 0) + 1
            runs.append((e, case, st, vals, rec, mismatch))
    for e in f12[: (6 if quick else 40)]:
        case = make_case(ctx, e, False, mode="many", n=1)
        st, vals, rec, mismatch = run_impl(case, rng)
        runs.append((e, case, st, vals, rec[:3000], mismatch))

    # ---- the model on the recorded draws
    exprs = [model_expr(e, case, rec) for e, case, st, vals, rec, mm in runs]
    model = core.coq_eval(exprs, IMPORTS, ctx.workdir, tag="c20", shard=max(8, len(exprs) // 40))
    hist, draws_total = {}, 0
    for (e, case, st, vals, rec, mm), m in zip(runs, model):
        evaluate(ctx, e, case, st, vals, rec, mm, m)
        hist[st] = hist.get(st, 0) + 1
        draws_total += len(rec)
    ctx.notes["outcomes"] = hist
    ctx.notes["values_admitted_by_several_union_branches"] = AMBIGUOUS[0]
    ctx.notes["draws_total"] = draws_total
    ctx.notes["kinds_of_draws"] = {}
    for e, case, st, vals, rec, mm in runs:
        for k, n, d in rec:
            kk = ctx.notes["kinds_of_draws"]
            kk[k] = kk.get(k, 0) + 1
    extremes = sum(1 for r in runs for k, n, d in r[4] if k == "i" and n > 2 and d % n in (0, n - 1))
    ctx.notes["randint_draws_at_an_extreme_of_the_range"] = extremes
    for (e, case, st, vals, rec, mm), m in list(zip(runs, model))[:: max(1, len(runs) // 5)]:
        ctx.sample(dict(schema=e.raw, mode=case["mode"], n=case["n"], draws=len(rec), outcome=st, model=(m or "")[:160]))

    # ---- the model's validate on the model's values (ties C20_conforms' conclusion to the evaluated model)
    sub = [r for r in runs if r[2] == "ok"][:: (4 if quick else 8)]
    mv = core.coq_eval(["run_gen_validate %s %s %s %s" % (e.coq_env, e.coq_schema, G.zlit(case["n"]),
                                                          G.clist(G.zlit(d) for d in stream_of(rec)))
                        for e, case, st, vals, rec, mm in sub], IMPORTS, ctx.workdir, tag="c20v", shard=max(8, len(sub) // 30))
    for (e, case, st, vals, rec, mm), m in zip(sub, mv):
        ctx.count("corr:model-validate", (json.dumps(e.raw, sort_keys=True), tuple(stream_of(rec))), nontrivial=len(rec) > 0)
        if m != "T":
            ctx.violation("corr:model-validate", case_json(e, case, rec), impl=None, model=m, signature="C20:model-validate-rejects-model-value",
                          found_input=False, detail="the model's validate does not accept the model's generated value")

    # ---- one schema object across several calls, edited in place in between
    run_reuse(ctx, entries, cap)

    # ---- several live generators over schemas that define the same names differently; deep recursion through non-null unions
    run_interleave(ctx, entries, cap)
    run_depth(ctx)
    run_strings(ctx)


def replay(ctx, rep):
    c = rep["case"]
    if c.get("kind") == "history":
        return replay_history(ctx, c)
    if c.get("kind") == "interleave":
        return replay_interleave(ctx, c)
    entry = prepare(c["schema"], c.get("tag", "replay"))
    case = dict(mode=c["mode"], n=c["n"], use_raw=c["use_raw"])
    case["schema_arg"] = entry.raw if c["use_raw"] else entry.parsed
    case["feed"] = [(k, int(n), int(d)) for k, n, d in c["draws"]]
    st, vals, rec, mismatch = run_impl(case, _random.Random(0))
    m = core.coq_eval([model_expr(entry, case, rec[:3000])], IMPORTS, ctx.workdir, tag="c20r")[0]
    print("implementation:", st, (impl_text(case, vals) if st == "ok" else "")[:600])
    print("model         :", (m or "")[:600])
    if mismatch:
        print("note: the code no longer asks for the recorded draws in the recorded order; fresh draws were served from the point of divergence")
    before = len(ctx.violations)
    ok = evaluate(ctx, entry, case, st, vals, rec, mismatch, m)
    for v in ctx.violations[before:]:
        print("still fails:", v["signature"], "-", (v.get("detail") or "")[:300])
    return bool(ok) and len(ctx.violations) == before
