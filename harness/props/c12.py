"""C12 - parsing is idempotent; raw, parsed and piecewise-parsed schemas behave alike."""
import copy, io, itertools, json, random
from .. import core, schemagen as sg, gen

SRCFACTS = ["schema"]
RULE = ("schemas from harness/schemagen.py whose top is a record, a top-level union (record branches + dict-form enum / fixed "
        "/ array / map branches + primitives) or an array / map of a record (raw vs parsed only); every subset of their nested named types (all subsets for "
        "<= 4 candidates, 6 random ones otherwise) split off, made standalone (full name spelled out) and parsed first, in "
        "dependency order, against ONE shared named_schemas dict, then the parent with those definitions replaced by "
        "references; per form (raw / parsed / piecewise) every public operation on 2 generated data: schemaless_writer, "
        "schemaless_reader (default and return_record_name / return_named_type (+_override) options), validate, json_writer, "
        "json_reader, writer (container, fixed sync marker) + reader of that file alone + reader of the raw form's file with "
        "this form as reader schema under the reader options, validate / validate_many / schemaless_writer / "
        "writer(validator=True) on 2 data carrying union hints (tuples, -type), to_parsing_canonical_form, fingerprint, generate_many under random.seed; idempotence of parse_schema; "
        "non-trivial = distinct (schema, subset)")
TRUSTED = ["harness/gen.py DataGen: conforming data", "harness/props/c12.py split(): the syntactic rewriting of a nested "
           "definition into a standalone document plus a reference"]
ASSUMPTIONS = ["in the piecewise form the references to separately parsed types sit inside a record (the record carries the "
               "shared dictionary in its __named_schemas marker): the parent is a record or a top-level union whose split-off "
               "types are nested in its record branches; a parent without a record at the top (array / map) is returned "
               "unmarked by parse_schema and cannot carry the dictionary - for those tops only raw and parsed are compared",
               "a null-namespace type nested in a non-null namespace is never split off (it cannot be referred to by name "
               "from there)",
               "all text is printable ASCII without double quote and backslash"]
PARTIAL = ["C12_ops_respect_equiv (binary / JSON / validate / generate give the same result for the three forms) is a "
           "statement about the codec models; here it is checked on the implementation only (corr:three-forms)",
           "C12_piecewise is proved for pieces that are one named type each (with whatever they contain) and pairwise "
           "distinct names: _inline_named_schemas(piecewise parent, shared table) is, up to the two marker keys, the parse of "
           "the parent with the pieces written inline at their first use (same JSON, names, canonical form; self-contained). "
           "Not proved: pieces that are unions / several types per document; entry-by-entry equality of the two TABLES; the "
           "codec-level consequence over a whole table (one inlining step only: C12_ref_is_its_definition + congruence)",
           "C12_selfcontained is proved relative to the table (C12_inline_closed_rel): every reference left by inlining "
           "either follows its definition or names a type that is not in the table",
           "C12_reparse is proved in full for a re-parse in the SAME state (C12_reparse, C12_reparse_top: the parser accepts its own "
           "output and returns the same output and the same dictionary); for a re-parse in a different state "
           "(C12_reparse_partial) acceptance is still a premise (checked by the correspondence)"]

IMPORTS = ("From Coq Require Import String.\n"
           "From FA Require Import model.Base model.Json model.Parse model.Canon model.Piecewise.\n")
SYNC = bytes(range(200, 216))


def unhex(h):
    return None if h is None else bytes.fromhex(h).decode("latin-1")


# ------------------------------------------------------------------ splitting
def candidates(s):
    out = []
    defs = sg.named_defs(s)
    for p, n, ns, top in defs:
        if p == () or (isinstance(s, list) and len(p) == 1):
            continue            # the top itself / a branch of a top-level union stays (a bare reference there carries no table)
        sp, full = sg.spec_fullname(ns, n)
        if "." not in full and ns:
            continue
        inner = {sg.spec_fullname(ns2, n2)[1] for p2, n2, ns2, t2 in defs if p2[:len(p)] == p}
        refs = set()
        for p2, n2, ns2, t2 in sg.walk(n, ns):
            if isinstance(n2, str) and n2 not in sg.PRIMS:
                refs.add(n2 if ("." in n2 or not ns2) else ns2 + "." + n2)
        out.append(dict(path=p, full=full, ns=ns, inner=inner, free=refs - inner))
    return out


def split(s, chosen):
    """returns (pieces in dependency order, parent) or None when the subset cannot be parsed first"""
    avail = {}
    for c in chosen:
        for n in c["inner"]:
            avail.setdefault(n, []).append(c)
    deps = {}
    for i, c in enumerate(chosen):
        d = set()
        for j, e in enumerate(chosen):
            if i == j:
                continue
            if e["path"][:len(c["path"])] == c["path"]:          # e nested in c: c's piece refers to e
                d.add(j)
            elif c["free"] & e["inner"]:
                d.add(j)
        outside = c["free"] - set().union(*[e["inner"] for e in chosen if e is not c]) if len(chosen) > 1 else c["free"]
        if outside:
            return None                                          # refers to a type that stays in the parent
        deps[i] = d
    order, done = [], set()
    while len(order) < len(chosen):
        ready = [i for i in range(len(chosen)) if i not in done and deps[i] <= done]
        if not ready:
            return None                                          # cyclic
        order.append(ready[0]); done.add(ready[0])
    w = copy.deepcopy(s)
    pieces = {}
    for i in sorted(range(len(chosen)), key=lambda i: -len(chosen[i]["path"])):
        c = chosen[i]
        node = copy.deepcopy(sg.get_at(w, c["path"]))
        if "." in c["full"]:
            node["name"] = c["full"]
            node.pop("namespace", None)
        pieces[i] = node
        sg.set_at(w, c["path"], c["full"])
    return [pieces[i] for i in order], w


# ------------------------------------------------------------------ operations
def outcome(fn):
    try:
        return ("ok", core.with_timeout(fn, 20))
    except core.Timeout:
        return ("timeout", None)
    except RecursionError:
        return ("raised", "RecursionError")
    except Exception as e:
        return ("raised", type(e).__name__)


READ_OPTS = [dict(return_record_name=True), dict(return_record_name=True, return_record_name_override=True),
             dict(return_named_type=True), dict(return_named_type=True, return_named_type_override=True)]


def ops(schema, data, raw_results=None, hinted=()):
    """every public operation under one form of the schema; raw_results (the raw form's) supplies the bytes / texts
    that the reading operations decode"""
    import fastavro
    from fastavro.schema import to_parsing_canonical_form, fingerprint
    from fastavro.utils import generate_many
    res = {}
    res["canon"] = outcome(lambda: to_parsing_canonical_form(schema))
    res["fingerprint"] = outcome(lambda: fingerprint(to_parsing_canonical_form(schema), "CRC-64-AVRO"))
    for k, d in enumerate(data):
        def w():
            fo = io.BytesIO(); fastavro.schemaless_writer(fo, schema, d); return fo.getvalue().hex()
        res["schemaless_writer:%d" % k] = outcome(w)
        src = (raw_results or res)["schemaless_writer:%d" % k]
        if src[0] == "ok":
            res["schemaless_reader:%d" % k] = outcome(lambda: repr(fastavro.schemaless_reader(io.BytesIO(bytes.fromhex(src[1])), schema)))
            for oi, o in enumerate(READ_OPTS):      # non-default reader options
                res["schemaless_reader[%s]:%d" % ("+".join(sorted(o)), k)] = outcome(
                    lambda: repr(fastavro.schemaless_reader(io.BytesIO(bytes.fromhex(src[1])), schema, **o)))
        res["validate:%d" % k] = outcome(lambda: fastavro.validate(d, schema, raise_errors=False))

        def jw():
            fo = io.StringIO(); fastavro.json_writer(fo, schema, [d]); return fo.getvalue()
        res["json_writer:%d" % k] = outcome(jw)
        srcj = (raw_results or res)["json_writer:%d" % k]
        if srcj[0] == "ok":
            res["json_reader:%d" % k] = outcome(lambda: repr(list(fastavro.json_reader(io.StringIO(srcj[1]), schema))))

    def container():
        fo = io.BytesIO(); fastavro.writer(fo, schema, data, sync_marker=SYNC); return fo.getvalue()
    c = outcome(container)
    if c[0] == "ok":
        blob = c[1]
        res["writer:blocks"] = ("ok", blob.split(SYNC, 1)[1].hex() if SYNC in blob else "no-sync")

        def readback():
            r = fastavro.reader(io.BytesIO(blob))
            return (to_parsing_canonical_form(r.writer_schema), repr(list(r)))
        res["writer:file-read-on-its-own"] = outcome(readback)
        res["_blob"] = blob
    else:
        res["writer:blocks"] = c
    # the file written from the RAW form, read with this form as the reader schema, under reader options
    rb = (raw_results or res).get("_blob")
    if rb is not None:
        for o in [{}] + READ_OPTS:
            res["reader[reader_schema%s]" % "".join("+" + x for x in sorted(o))] = outcome(
                lambda: repr(list(fastavro.reader(io.BytesIO(rb), reader_schema=schema, **o))))
    # data carrying union hints ((name, value) tuples, "-type" keys): validation and validating writers
    for k, d in enumerate(hinted):
        res["validate-hinted:%d" % k] = outcome(lambda: fastavro.validate(d, schema, raise_errors=False))

        def wh():
            fo = io.BytesIO(); fastavro.schemaless_writer(fo, schema, d); return fo.getvalue().hex()
        res["schemaless_writer-hinted:%d" % k] = outcome(wh)
    if hinted:
        from fastavro.validation import validate_many
        res["validate_many-hinted"] = outcome(lambda: validate_many(list(hinted), schema, raise_errors=False))

        def cv():
            fo = io.BytesIO(); fastavro.writer(fo, schema, list(hinted), sync_marker=SYNC, validator=True)
            return fo.getvalue().split(SYNC, 1)[1].hex()
        res["writer-validator-hinted"] = outcome(cv)

    def genmany():
        import uuid
        random.seed(7)
        real = uuid.uuid4
        uuid.uuid4 = lambda: uuid.UUID(int=random.getrandbits(128))     # uuid4 is the only other source of randomness
        try:
            return repr(list(generate_many(schema, 3)))
        finally:
            uuid.uuid4 = real
    res["generate_many"] = outcome(genmany)
    return res


# ------------------------------------------------------------------ reader-only fields with defaults (schema evolution)
def default_value(t, v, named, ns=""):
    """the harness's own reading of a JSON default under type t (Avro spec: bytes/fixed are ISO-8859-1 text, the default of
    a union is for its first branch, missing record fields come from the fields' own defaults)"""
    if isinstance(t, str):
        if t in sg.PRIMS:
            if t in ("bytes",):
                return v.encode("iso-8859-1")
            if t in ("float", "double"):
                return float(v)
            return v
        q = t if ("." in t or not ns) else ns + "." + t
        node, nns = named[q]
        return default_value(node, v, named, nns)
    if isinstance(t, list):
        return default_value(t[0], v, named, ns)
    k = t["type"]
    if k == "array":
        return [default_value(t["items"], x, named, ns) for x in v]
    if k == "map":
        return {a: default_value(t["values"], x, named, ns) for a, x in v.items()}
    if k == "fixed":
        return v.encode("iso-8859-1")
    if k == "enum":
        return v
    if k in ("record", "error"):
        sp = sg.spec_fullname(ns, t)[0]
        out = {}
        for f in t["fields"]:
            out[f["name"]] = default_value(f["type"], v[f["name"]] if f["name"] in v else f["default"], named, sp)
        return out
    return default_value(k, v, named, ns)            # {"type": "bytes"} ...


def evolve_case(rng):
    """writer Doc{id}; reader Doc{id + fields with defaults whose types hold named types BELOW their top level}: in the raw
    form every named type is defined inline at its first use, in the piecewise form all of them are separate documents"""
    ns = rng.choice(["", "d", "a.b"])
    q = (lambda n: ns + "." + n) if ns else (lambda n: n)
    size = rng.choice([1, 2, 3])
    txt = lambda k: "".join(rng.choice(["\u00ff", "\u0001", "A", "\u00fe", "\u0080"]) for _ in range(k))
    sig = {"type": "fixed", "name": q("Sig"), "size": size}
    tagt = rng.choice(["bytes", "sig"])
    meta = {"type": "record", "name": q("Meta"), "fields": [
        {"name": "tag", "type": "bytes" if tagt == "bytes" else q("Sig")},
        {"name": "n", "type": "double", "default": rng.choice([1, 0, -3])},
        {"name": "f", "type": ["float", "null"], "default": rng.choice([2, 7])}]}
    tagv = lambda: txt(rng.choice([0, 1, 3])) if tagt == "bytes" else txt(size)
    metav = lambda: rng.choice([{"tag": tagv()}, {"tag": tagv(), "n": 5}, {"tag": tagv(), "f": 1, "n": 2}])
    defs = {"Sig": sig, "Meta": meta}
    used = set()

    def use(n, inline_ok):
        """raw form: the definition at the first use, the name afterwards; a bare name is relative to the namespace"""
        if inline_ok and n not in used:
            used.add(n)
            if n == "Meta" and tagt == "sig" and "Sig" not in used:
                used.add("Sig")
                m = copy.deepcopy(meta); m["fields"][0]["type"] = copy.deepcopy(sig); return m
            return copy.deepcopy(defs[n])
        return rng.choice([q(n), n]) if ns else n
    kinds = rng.sample(["arr", "map", "union", "nest", "arrmap", "unionmeta", "top"], rng.choice([1, 2, 3, 4]))

    def fields(inline_ok):
        used.clear()
        out = [{"name": "id", "type": "int"}]
        for k in kinds:
            if k == "arr":
                out.append({"name": "sigs", "type": {"type": "array", "items": use("Sig", inline_ok)}, "default": dv["arr"]})
            elif k == "map":
                out.append({"name": "metas", "type": {"type": "map", "values": use("Meta", inline_ok)}, "default": dv["map"]})
            elif k == "union":
                out.append({"name": "u", "type": [use("Sig", inline_ok), "null"], "default": dv["union"]})
            elif k == "unionmeta":
                out.append({"name": "um", "type": [use("Meta", inline_ok), "null", "int"], "default": dv["unionmeta"]})
            elif k == "arrmap":
                out.append({"name": "am", "type": {"type": "array", "items": {"type": "map", "values": use("Sig", inline_ok)}}, "default": dv["arrmap"]})
            elif k == "top":
                out.append({"name": "t", "type": use("Meta", inline_ok), "default": dv["top"]})
            else:
                out.append({"name": "nest", "type": {"type": "record", "name": q("Inner"), "fields": [
                    {"name": "s", "type": use("Sig", inline_ok)}, {"name": "m", "type": use("Meta", inline_ok)},
                    {"name": "d", "type": "double", "default": 4}]}, "default": dv["nest"]})
        return out
    dv = {"arr": [txt(size) for _ in range(rng.choice([0, 1, 2]))], "map": {k: metav() for k in rng.sample(["a", "b"], rng.choice([1, 2]))},
          "union": txt(size), "unionmeta": metav(), "arrmap": [{"k": txt(size)}], "top": metav(),
          "nest": rng.choice([{"s": txt(size), "m": metav()}, {"s": txt(size), "m": metav(), "d": 1}])}
    # the schemagen walkers produce defaults as str; the harness wrote the escapes literally above
    dv = json.loads(json.dumps(dv).replace("\\\\u", "\\u"))
    writer = {"type": "record", "name": q("Doc"), "fields": [{"name": "id", "type": "int"}]}
    raw = {"type": "record", "name": q("Doc"), "fields": fields(True)}
    parent = {"type": "record", "name": q("Doc"), "fields": fields(False)}
    pieces = [copy.deepcopy(sig), copy.deepcopy(meta)]
    named = {q("Sig"): (sig, ""), q("Meta"): (meta, "")}
    datum = {"id": rng.randrange(-5, 100)}
    expected = dict(datum)
    for f in parent["fields"][1:]:
        expected[f["name"]] = default_value(f["type"], f["default"], named, ns)
    return dict(writer=writer, raw=raw, pieces=pieces, parent=parent, datum=datum, expected=expected, kinds=kinds)


def run_evolve(ctx, rng, n):
    import fastavro
    from fastavro.schema import parse_schema
    for _ in range(n):
        c = evolve_case(rng)
        key = json.dumps([c["raw"], c["parent"]], sort_keys=True)
        ctx.count("corr:three-forms", ("evolve", key))
        cs = dict(family="reader-only fields with defaults", writer_json=json.dumps(c["writer"]), reader_raw_json=json.dumps(c["raw"]),
                  pieces_json=json.dumps(c["pieces"]), reader_parent_json=json.dumps(c["parent"]), datum=repr(c["datum"]), kinds=c["kinds"])
        shared = {}
        st = outcome(lambda: ([parse_schema(copy.deepcopy(x), shared) for x in c["pieces"]], parse_schema(copy.deepcopy(c["parent"]), shared))[1])
        pr = outcome(lambda: parse_schema(copy.deepcopy(c["raw"])))
        if st[0] != "ok" or pr[0] != "ok":
            ctx.violation("corr:three-forms", cs, impl=dict(piecewise=str(st)[:200], parsed=str(pr)[:200]), model="accepted",
                          signature="C12:parse_schema:valid-schema-rejected")
            continue
        forms = [("raw", copy.deepcopy(c["raw"])), ("parsed", pr[1]), ("piecewise", st[1])]
        b = io.BytesIO(); fastavro.schemaless_writer(b, c["writer"], c["datum"]); payload = b.getvalue()
        fo = io.BytesIO(); fastavro.writer(fo, c["writer"], [c["datum"]], sync_marker=SYNC); blob = fo.getvalue()
        exp = repr(c["expected"])
        for name, form in forms:
            r1 = outcome(lambda: repr(fastavro.schemaless_reader(io.BytesIO(payload), c["writer"], form)))
            r2 = outcome(lambda: repr(list(fastavro.reader(io.BytesIO(blob), reader_schema=form))[0]))
            for op, r in (("schemaless_reader", r1), ("reader", r2)):
                got = r[1] if r[0] == "ok" else str(r)
                if got != exp:
                    ctx.violation("corr:three-forms", dict(cs, operation=op, form=name), impl=got[:400], model=exp[:400],
                                  signature="C12:%s:reader-only-default:%s-form-differs-from-spec-value" % (op, name))
                    break


def compare(ctx, name_a, ra, name_b, rb, cs):
    for op in ra:
        if op.startswith("_"):
            continue
        if op in rb and ra[op] != rb[op]:
            ctx.violation("corr:three-forms", dict(cs, operation=op), impl={name_a: str(ra[op])[:400], name_b: str(rb[op])[:400]},
                          model="equal results under every form",
                          signature="C12:%s:%s-vs-%s:differs" % (op.split(":")[0] + (":" + op.split(":")[1] if op.startswith("writer:") else ""), name_a, name_b))
            return False
    return True


def family_schema(rng):
    """a record holding unions of records that extend one another's field list (defined inline at first use, by name
    afterwards): a datum of a later branch also validates against an earlier one"""
    ns = rng.choice(["", "geo", "a.b"])
    q = (lambda n: ns + "." + n) if ns else (lambda n: n)
    base = [{"name": "x", "type": rng.choice(["int", "long", "double"])}, {"name": "r", "type": rng.choice(["int", "string"])}][:rng.choice([1, 2])]
    extras = [{"name": "inner", "type": ["null", "int"], "default": None}, {"name": "tag", "type": "string"},
              {"name": "w", "type": "double", "default": 1.5}, {"name": "ks", "type": {"type": "array", "items": "long"}}]
    rng.shuffle(extras)
    n = rng.choice([2, 2, 3])
    fam, fields = [], list(base)
    for i in range(n):
        fam.append({"type": "record", "name": q("F%d" % i), "fields": copy.deepcopy(fields)})
        fields = fields + [extras[i]]
    first = [copy.deepcopy(x) for x in fam]
    if rng.random() < 0.5:
        first.insert(0, "null")
    names = [q("F%d" % i) for i in range(n)]
    second = rng.sample(names, rng.choice([2, n]))
    flds = [{"name": "u", "type": first}, {"name": "l", "type": {"type": "array", "items": second}}]
    if rng.random() < 0.5:
        flds.append({"name": "m", "type": {"type": "map", "values": ["null"] + names[::-1]}})
    return {"type": "record", "name": q("Holder"), "fields": flds}


CIRCLE = {"type": "record", "name": "geo.Circle", "fields": [{"name": "x", "type": "int"}, {"name": "r", "type": "int"}]}
RING = {"type": "record", "name": "geo.Ring", "fields": [{"name": "x", "type": "int"}, {"name": "r", "type": "int"},
                                                         {"name": "inner", "type": ["null", "int"], "default": None}]}
BASIC = {"type": "record", "name": "Basic", "namespace": "ev", "fields": [{"name": "id", "type": "int"},
                                                                           {"name": "note", "type": ["null", "string"], "default": None}]}
DETAILED = {"type": "record", "name": "Detailed", "namespace": "ev", "fields": [{"name": "id", "type": "int"}, {"name": "level", "type": "int"},
                                                                                 {"name": "text", "type": "string"}]}
WITNESSES = [
    # (all-in-one raw schema, pieces, parent, data): unions of record branches given by name, a datum that validates against
    # an earlier branch and shares more fields with a later one
    ({"type": "record", "name": "Holder", "fields": [{"name": "u", "type": ["null", CIRCLE, RING]},
                                                      {"name": "l", "type": {"type": "array", "items": ["geo.Ring", "geo.Circle"]}}]},
     [CIRCLE, RING],
     {"type": "record", "name": "Holder", "fields": [{"name": "u", "type": ["null", "geo.Circle", "geo.Ring"]},
                                                      {"name": "l", "type": {"type": "array", "items": ["geo.Ring", "geo.Circle"]}}]},
     [{"u": {"x": 1, "r": 2, "inner": 3}, "l": [{"x": 4, "r": 5, "inner": 6}, {"x": 7, "r": 8}]},
      {"u": {"x": 1, "r": 2}, "l": [{"x": 9, "r": 9, "inner": None}]}, {"u": None, "l": []}]),
    ({"type": "record", "name": "Top", "namespace": "ev", "fields": [{"name": "seq", "type": "long"}, {"name": "payload", "type": [BASIC, DETAILED]}]},
     [BASIC, DETAILED],
     {"type": "record", "name": "Top", "namespace": "ev", "fields": [{"name": "seq", "type": "long"}, {"name": "payload", "type": ["Basic", "ev.Detailed"]}]},
     [{"seq": 5, "payload": {"id": 1, "level": 3, "text": "disk full"}}, {"seq": 6, "payload": {"id": 2, "note": "n"}}, {"seq": 7, "payload": {"id": 3}}]),
]


def run_witnesses(ctx):
    """deterministic witnesses, first in every run: raw vs parsed vs piecewise on fixed data"""
    from fastavro.schema import parse_schema
    for whole, pieces, parent, data in WITNESSES:
        key = ("witness", json.dumps(whole, sort_keys=True))
        ctx.count("corr:three-forms", key)
        cs = dict(schema=whole, schema_json=json.dumps(whole), split_off=[sg.spec_fullname("", x)[1] for x in pieces],
                  pieces_json=json.dumps(pieces), parent_json=json.dumps(parent), data=repr(data), witness=True)
        shared = {}
        st = outcome(lambda: [parse_schema(copy.deepcopy(x), shared) for x in pieces] and parse_schema(copy.deepcopy(parent), shared))
        pr = outcome(lambda: parse_schema(copy.deepcopy(whole)))
        if st[0] != "ok" or pr[0] != "ok":
            ctx.violation("corr:three-forms", cs, impl=dict(piecewise=str(st)[:200], parsed=str(pr)[:200]), model="accepted",
                          signature="C12:parse_schema:valid-schema-rejected")
            continue
        r_raw = ops(copy.deepcopy(whole), data)
        compare(ctx, "raw", r_raw, "parsed", ops(pr[1], data, r_raw), cs) and compare(ctx, "raw", r_raw, "piecewise", ops(st[1], data, r_raw), cs)


def run(ctx):
    from fastavro.schema import parse_schema, to_parsing_canonical_form
    run_witnesses(ctx)
    rng = ctx.rng
    nschemas = 220 if ctx.quick() else 4000
    work = []          # (schema, chosen subset description, pieces, parent)
    schemas = []
    tries = 0
    kinds = {}
    while len(schemas) < nschemas and tries < nschemas * 20:
        tries += 1
        want = rng.choice(["record"] * 6 + ["union"] * 3 + ["container"] + ["family"] * 2)
        g = sg.Gen(rng, budget=rng.choice([6, 10, 16, 24]), int_float_defaults=False)
        if want == "family":
            s = family_schema(rng)
        elif want == "record":
            s = g.record("", rng.choice([1, 2, 3, 4]))
        elif want == "union":
            # a top-level union: record branches, dict-form non-record branches (they never carry the parsed marker), primitives
            s = [g.record("", rng.choice([2, 3])) for _ in range(rng.choice([1, 1, 2]))]
            s += [rng.choice([g.enum, g.fixed])("") for _ in range(rng.choice([0, 1, 1, 2]))]
            extra = rng.sample(["null", "int", "string", "double"], rng.choice([0, 1, 2]))
            if rng.random() < 0.5:
                extra.append({"type": "array", "items": "long"} if rng.random() < 0.5 else {"type": "map", "values": "string"})
            for x in extra:                      # the named members keep their order (later ones may refer to earlier ones)
                s.insert(rng.randrange(len(s) + 1), x)
        else:
            rec = g.record("", rng.choice([1, 2, 3]))
            s = {"type": "array", "items": rec} if rng.random() < 0.5 else {"type": "map", "values": rec}
        kinds[want] = kinds.get(want, 0) + 1
        # nested records declared with "type": "error" (same meaning as "record" for every operation)
        if rng.random() < 0.35:
            for p_, n_, ns_, top_ in sg.named_defs(s):
                if n_.get("type") == "record" and p_ != () and rng.random() < 0.5:
                    n_["type"] = "error"
                    kinds["error-records"] = kinds.get("error-records", 0) + 1
        schemas.append(s)
    nsplit = 0
    for s in schemas:
        cands = candidates(s)
        if len(cands) <= 4:
            subsets = [list(c) for r in range(1, len(cands) + 1) for c in itertools.combinations(cands, r)]
        else:
            subsets = [rng.sample(cands, rng.randrange(1, min(len(cands), 5) + 1)) for _ in range(6)]
        if isinstance(s, dict) and s.get("type") in ("array", "map"):
            # no record at the top: the parsed form carries no table, so only raw vs parsed are compared
            work.append((s, [], None, None))
            continue
        for sub in subsets:
            sp = split(s, sub)
            if sp is None:
                continue
            pieces, parent = sp
            work.append((s, [c["full"] for c in sub], pieces, parent))
            nsplit += 1
    # hand-made: child / parent, a chain of three documents, a diamond
    work.append(({"type": "record", "name": "Parent", "fields": [{"name": "c", "type": {"type": "record", "name": "Child", "fields": [{"name": "x", "type": "int"}]}}]},
                 ["Child"], [{"type": "record", "name": "Child", "fields": [{"name": "x", "type": "int"}]}],
                 {"type": "record", "name": "Parent", "fields": [{"name": "c", "type": "Child"}]}))
    work.append(({"type": "record", "name": "n.A", "fields": [{"name": "b", "type": {"type": "record", "name": "B", "fields": [
        {"name": "c", "type": {"type": "array", "items": {"type": "enum", "name": "C", "symbols": ["X", "Y"]}}}]}}, {"name": "c2", "type": ["null", "C"]}]},
        ["n.C", "n.B"], [{"type": "enum", "name": "n.C", "symbols": ["X", "Y"]},
                         {"type": "record", "name": "n.B", "fields": [{"name": "c", "type": {"type": "array", "items": "n.C"}}]}],
        {"type": "record", "name": "n.A", "fields": [{"name": "b", "type": "n.B"}, {"name": "c2", "type": ["null", "C"]}]}))

    err_whole = {"type": "record", "name": "n.Top", "fields": [
        {"name": "e", "type": {"type": "error", "name": "Err", "fields": [
            {"name": "code", "type": {"type": "enum", "name": "Code", "symbols": ["A", "B"]}},
            {"name": "d", "type": {"type": "record", "name": "Detail", "fields": [{"name": "x", "type": "long"}]}}]}},
        {"name": "again", "type": ["null", "Code"]}, {"name": "d2", "type": {"type": "array", "items": "n.Detail"}}]}
    work.append((err_whole, [], None, None))
    schemas.append(err_whole)
    work.append((err_whole, ["n.Code", "n.Detail"],
                 [{"type": "enum", "name": "n.Code", "symbols": ["A", "B"]}, {"type": "record", "name": "n.Detail", "fields": [{"name": "x", "type": "long"}]}],
                 {"type": "record", "name": "n.Top", "fields": [
                     {"name": "e", "type": {"type": "error", "name": "Err", "fields": [{"name": "code", "type": "n.Code"}, {"name": "d", "type": "Detail"}]}},
                     {"name": "again", "type": ["null", "Code"]}, {"name": "d2", "type": {"type": "array", "items": "n.Detail"}}]}))

    # parsed self-recursive records whose only named type is themselves (the embedded table holds just their own name),
    # and single-type pieces (re-parsed into a fresh dictionary below)
    for rec_s in [
            {"type": "record", "name": "Node", "fields": [{"name": "v", "type": "long"}, {"name": "next", "type": ["null", "Node"]}]},
            {"type": "record", "name": "t.Tree", "fields": [{"name": "kids", "type": {"type": "array", "items": "Tree"}}, {"name": "tag", "type": "string"}]},
            {"type": "record", "name": "M", "namespace": "a.b", "fields": [{"name": "m", "type": {"type": "map", "values": "a.b.M"}}]},
            {"type": "record", "name": "L", "fields": [{"name": "x", "type": ["null", "int"], "default": None},
                                                       {"name": "rest", "type": ["null", {"type": "array", "items": ["null", "L"]}], "default": None}]},
            {"type": "error", "name": "E", "fields": [{"name": "cause", "type": ["null", "E"]}, {"name": "msg", "type": "string"}]}]:
        schemas.append(rec_s)
        work.append((rec_s, [], None, None))
    for piece, parent in [
            ({"type": "record", "name": "Leaf", "fields": [{"name": "x", "type": "int"}]},
             {"type": "record", "name": "Top", "fields": [{"name": "l", "type": "Leaf"}, {"name": "ls", "type": {"type": "array", "items": "Leaf"}}]}),
            ({"type": "record", "name": "n.Node", "fields": [{"name": "next", "type": ["null", "n.Node"]}]},
             {"type": "record", "name": "n.Top", "fields": [{"name": "head", "type": ["null", "Node"]}]})]:
        whole = copy.deepcopy(parent)
        whole["fields"][0]["type"] = (copy.deepcopy(piece) if isinstance(parent["fields"][0]["type"], str)
                                      else [copy.deepcopy(piece) if x != "null" else x for x in parent["fields"][0]["type"]])
        schemas.append(whole)
        work.append((whole, [sg.spec_fullname("", piece)[1]], [piece], parent))

    for c in sg.NULL_NS_CORPUS:
        if isinstance(c, dict) and c.get("type") == "record":
            schemas.append(c)
            for sub in ([x] for x in candidates(c)):
                sp = split(c, sub)
                if sp is not None:
                    work.append((c, [x["full"] for x in sub], sp[0], sp[1]))
        else:
            schemas.append(c)
            work.append((c, [], None, None))
    # a top-level union: record branch referring to a separately parsed type + a dict-form enum branch (unmarked)
    work.append(([{"type": "record", "name": "R", "fields": [{"name": "c", "type": {"type": "record", "name": "Child", "fields": [{"name": "x", "type": "int"}]}}]},
                  {"type": "enum", "name": "E", "symbols": ["A", "B"]}, "null"],
                 ["Child"], [{"type": "record", "name": "Child", "fields": [{"name": "x", "type": "int"}]}],
                 [{"type": "record", "name": "R", "fields": [{"name": "c", "type": "Child"}]}, {"type": "enum", "name": "E", "symbols": ["A", "B"]}, "null"]))
    # witness: a recursive record R and an enum b.R parsed separately (io/parser.py tests `schema_name in field["type"]`,
    # a substring test when the field type is the reference string "b.R")
    work.append(({"type": "record", "name": "R", "fields": [{"name": "n", "type": ["null", "R"]},
                                                            {"name": "e", "type": {"type": "enum", "name": "b.R", "symbols": ["A"]}}]},
                 ["b.R"], [{"type": "enum", "name": "b.R", "symbols": ["A"]}],
                 {"type": "record", "name": "R", "fields": [{"name": "n", "type": ["null", "R"]}, {"name": "e", "type": "b.R"}]}))

    # ---- model: canonical form of the piecewise parse, idempotence
    exprs = []
    for s, sub, pieces, parent in work:
        exprs.append("show_piecewise_canon [%s]" % "; ".join(sg.to_coq(x) for x in (pieces or []) + [parent if parent is not None else s]))
    for s in schemas:
        exprs.append("show_idem " + sg.to_coq(s))
    # theorem C12_piecewise on the generated splits: its hypotheses and conclusion as one closed computation
    thm_items = [i for i, (s, sub, pieces, parent) in enumerate(work) if pieces and all(isinstance(x, dict) for x in pieces)]
    if ctx.quick():
        thm_items = thm_items[:120]
    for i in thm_items:
        s, sub, pieces, parent = work[i]
        exprs.append("show_bool (pw_inline_check [%s] %s)" % ("; ".join(sg.to_coq(x) for x in pieces), sg.to_coq(parent)))
    out = core.coq_eval(exprs, IMPORTS, ctx.workdir, tag="pw", shard=60 if ctx.quick() else 150)
    m_pw = [unhex(x) for x in out[:len(work)]]
    m_idem = out[len(work):len(work) + len(schemas)]
    m_thm = dict(zip(thm_items, out[len(work) + len(schemas):]))

    rejected = set()
    # ---- idempotence on the implementation and in the model
    for s, mi in zip(schemas, m_idem):
        key = json.dumps(s, sort_keys=True)
        ctx.count("corr:idempotent", key)
        named = {}
        first = outcome(lambda: parse_schema(copy.deepcopy(s), named))
        if first[0] != "ok":
            # a generated (specification-valid) schema the implementation does not even parse
            ctx.violation("corr:idempotent", dict(schema=s, schema_json=json.dumps(s)), impl=str(first), model="accepted",
                          signature="C12:parse_schema:valid-schema-rejected")
            rejected.add(key)
            continue
        parsed = first[1]
        again = parse_schema(parsed)

        def unmark(x):
            if isinstance(x, list):
                return [unmark(m) for m in x]
            if isinstance(x, dict):
                return {k: v for k, v in x.items() if k not in ("__fastavro_parsed", "__named_schemas")}
            return x
        stripped = unmark(parsed)
        named2 = {}
        re = outcome(lambda: parse_schema(copy.deepcopy(stripped), named2))
        if isinstance(parsed, list):
            same = len(again) == len(parsed) and all(a is b or (not isinstance(b, dict)) or "__fastavro_parsed" not in b
                                                      for a, b in zip(again, parsed)) and unmark(again) == stripped
        elif isinstance(parsed, dict) and "__fastavro_parsed" in parsed:
            same = again is parsed
        else:
            same = unmark(again) == stripped
        ok = same and re[0] == "ok" and sorted(named2) == sorted(named) and \
            to_parsing_canonical_form(re[1]) == to_parsing_canonical_form(parsed) and unmark(re[1]) == stripped
        if not ok:
            ctx.violation("corr:idempotent", dict(schema=s, schema_json=json.dumps(s)), impl=dict(same_object=same, reparse=str(re)[:300]),
                          model="parse_schema(parsed) is parsed; the unmarked parsed schema parses to the same schema",
                          signature="C12:parse_schema:idempotence:" + ("marked-schema-not-returned" if not same else "unmarked-reparse-differs"))
        if mi != "true,true":
            ctx.violation("corr:idempotent", dict(schema=s, schema_json=json.dumps(s)), impl="holds" if ok else "fails", model=mi,
                          signature="C12:model:idempotence-check-false", found_input=False)

    # ---- the three forms
    data_rng = random.Random(ctx.seed + 1)
    thm_true = 0
    for idx, ((s, sub, pieces, parent), mp) in enumerate(zip(work, m_pw)):
        key = (json.dumps(s, sort_keys=True), tuple(sub))
        ctx.count("corr:three-forms", key)
        cs = dict(schema=s, schema_json=json.dumps(s), split_off=sub, pieces_json=json.dumps(pieces), parent_json=json.dumps(parent))
        named = {}
        first = outcome(lambda: parse_schema(copy.deepcopy(s), named))
        if first[0] != "ok":
            if key[0] not in rejected:
                ctx.violation("corr:three-forms", cs, impl=str(first), model="accepted", signature="C12:parse_schema:valid-schema-rejected")
            continue
        parsed = first[1]
        if pieces is None:
            dg = gen.DataGen(data_rng, dict(named), hints=False)
            data = []
            for _ in range(2):
                try:
                    data.append(dg.datum(parsed))
                except Exception:
                    pass
            r_raw = ops(copy.deepcopy(s), data)
            compare(ctx, "raw", r_raw, "parsed", ops(parsed, data, r_raw), cs)
            continue
        shared = {}
        st = outcome(lambda: [parse_schema(copy.deepcopy(x), shared) for x in pieces] and parse_schema(copy.deepcopy(parent), shared))
        if st[0] != "ok":
            ctx.violation("corr:three-forms", cs, impl=str(st), model="the pieces parse against the shared dictionary",
                          signature="C12:parse_schema:piecewise:rejected")
            continue
        pw = st[1]
        dg = gen.DataGen(data_rng, dict(named), hints=False)
        dgh = gen.DataGen(data_rng, dict(named), hints=True)
        data, hinted = [], []
        for _ in range(2):
            try:
                data.append(dg.datum(parsed))
                hinted.append(dgh.datum(parsed))
            except Exception:
                pass
        r_raw = ops(copy.deepcopy(s), data, None, hinted)
        r_parsed = ops(parsed, data, r_raw, hinted)
        r_pw = ops(pw, data, r_raw, hinted)
        compare(ctx, "raw", r_raw, "parsed", r_parsed, cs) and compare(ctx, "raw", r_raw, "piecewise", r_pw, cs)
        # fourth form: every piece parsed, the PARSED piece parsed again into a fresh dictionary (parse_schema copies the
        # embedded table), the parent parsed against that fresh dictionary
        if len(pieces) == 1 or idx % 3 == 0:
            first_d, fresh = {}, {}
            st4 = outcome(lambda: [parse_schema(parse_schema(copy.deepcopy(x), first_d), fresh) for x in pieces] and
                          parse_schema(copy.deepcopy(parent), fresh))
            if st4[0] != "ok":
                ctx.violation("corr:three-forms", dict(cs, form="pieces re-parsed into a fresh dictionary"), impl=str(st4),
                              model="parse_schema(parsed piece, fresh) copies the piece's table; the parent parses against it",
                              signature="C12:parse_schema:piecewise-reparsed-into-fresh-dict:rejected")
            else:
                compare(ctx, "raw", r_raw, "piecewise-reparsed", ops(st4[1], data, r_raw, hinted), cs)
        # C12_piecewise (theorem) on this split: where the model computes hypotheses + conclusion to true, the
        # implementation's _inline_named_schemas(piecewise parent, shared dictionary) must be, up to the markers,
        # the parse of the parent with the pieces written inline at their first use
        if idx in m_thm:
            ctx.count("thm:piecewise-instance", key)
            thm_true += m_thm[idx] == "true"
            if m_thm[idx] == "true":
                from fastavro._schema_py import _inline_named_schemas
                from . import c19 as _c19
                files = {sg.spec_fullname("", x)[1]: x for x in pieces}
                files["\0top"] = parent
                whole = _c19.inline_first_use(files, "\0top")
                r1 = outcome(lambda: _inline_named_schemas(pw, shared))
                r2 = outcome(lambda: parse_schema(copy.deepcopy(whole), {}))

                def unmark2(x):
                    if isinstance(x, list):
                        return [unmark2(m) for m in x]
                    if isinstance(x, dict):
                        return {k: v for k, v in x.items() if k not in ("__fastavro_parsed", "__named_schemas")}
                    return x
                a = json.dumps(unmark2(r1[1])) if r1[0] == "ok" else str(r1)
                b = json.dumps(unmark2(r2[1])) if r2[0] == "ok" else str(r2)
                if a != b:
                    ctx.violation("thm:piecewise-instance", dict(cs, whole_json=json.dumps(whole)), impl=a[:400], model=b[:400],
                                  signature="C12:_inline_named_schemas:piecewise:differs-from-parse-of-inline-schema")
        # model of the canonical form of the piecewise-parsed parent
        ic = r_pw["canon"]
        ic = "ok:" + ic[1] if ic[0] == "ok" else ic[0]
        if mp != ic:
            ctx.violation("corr:canon-piecewise", cs, impl=ic, model=mp, signature="C12:to_parsing_canonical_form:piecewise:differs-from-model",
                          found_input=False)
    # ---- schema evolution: reader-only fields whose defaults have named types below the top of their type
    run_evolve(ctx, random.Random(ctx.seed + 2), 150 if ctx.quick() else 3000)
    ctx.notes["schemas"] = len(schemas)
    ctx.notes["top_kinds"] = kinds
    ctx.notes["splits"] = nsplit
    ctx.notes["thm_piecewise_instances"] = dict(evaluated=len(m_thm), hypotheses_and_conclusion_true=thm_true)
    if m_thm and not thm_true:
        ctx.violation("thm:piecewise-instance", dict(note="no generated split satisfies the hypotheses of C12_piecewise"), impl="-", model="-",
                      signature="C12:harness:piecewise-theorem-vacuous-on-generated-splits", found_input=False)
    if work:
        ctx.sample(dict(schema=work[0][0], split_off=work[0][1], pieces=work[0][2], parent=work[0][3]))


def replay(ctx, rep):
    from fastavro.schema import parse_schema
    c = rep["case"]
    if c.get("witness"):
        import ast
        whole, pieces, parent = json.loads(c["schema_json"]), json.loads(c["pieces_json"]), json.loads(c["parent_json"])
        data = ast.literal_eval(c["data"])
        shared = {}
        for x in pieces:
            parse_schema(copy.deepcopy(x), shared)
        pw = parse_schema(copy.deepcopy(parent), shared)
        r_raw = ops(copy.deepcopy(whole), data)
        r_parsed, r_pw = ops(parse_schema(copy.deepcopy(whole)), data, r_raw), ops(pw, data, r_raw)
        ok = True
        for op in r_raw:
            if op.startswith("_"):
                continue
            if r_raw[op] != r_parsed.get(op, r_raw[op]) or r_raw[op] != r_pw.get(op, r_raw[op]):
                print(op, "raw:", str(r_raw[op])[:200], "| parsed:", str(r_parsed.get(op))[:200], "| piecewise:", str(r_pw.get(op))[:200])
                ok = False
        return ok
    if c.get("family") == "reader-only fields with defaults":
        import ast
        import fastavro
        writer, raw = json.loads(c["writer_json"]), json.loads(c["reader_raw_json"])
        pieces, parent = json.loads(c["pieces_json"]), json.loads(c["reader_parent_json"])
        datum = ast.literal_eval(c["datum"])
        shared = {}
        for x in pieces:
            parse_schema(copy.deepcopy(x), shared)
        forms = [("raw", raw), ("parsed", parse_schema(copy.deepcopy(raw))), ("piecewise", parse_schema(copy.deepcopy(parent), shared))]
        named = {}
        for x in pieces:
            named[sg.spec_fullname("", x)[1]] = (x, "")
        exp = dict(datum)
        ns = sg.spec_fullname("", parent)[0]
        for f in parent["fields"][1:]:
            exp[f["name"]] = default_value(f["type"], f["default"], named, ns)
        b = io.BytesIO(); fastavro.schemaless_writer(b, writer, datum)
        ok = True
        for name, form in forms:
            got = outcome(lambda: repr(fastavro.schemaless_reader(io.BytesIO(b.getvalue()), writer, form)))
            good = got == ("ok", repr(exp))
            print("%-9s %s" % (name, "as specified" if good else "got %s, the defaults denote %r" % (str(got)[:300], exp)))
            ok = ok and good
        return ok
    s = json.loads(c["schema_json"])
    if "pieces_json" not in c:
        parsed = parse_schema(copy.deepcopy(s))
        again = parse_schema(parsed)
        print("parse_schema(parsed) is parsed:", again is parsed)
        return again is parsed
    pieces, parent = json.loads(c["pieces_json"]), json.loads(c["parent_json"])
    named, shared = {}, {}
    parsed = parse_schema(copy.deepcopy(s), named)
    for x in pieces:
        parse_schema(copy.deepcopy(x), shared)
    pw = parse_schema(copy.deepcopy(parent), shared)
    dg = gen.DataGen(random.Random(1), dict(named), hints=False)
    data = [dg.datum(parsed) for _ in range(2)]
    r_raw = ops(copy.deepcopy(s), data)
    r_parsed = ops(parsed, data, r_raw)
    r_pw = ops(pw, data, r_raw)
    ok = True
    for op in r_raw:
        if r_raw[op] != r_parsed.get(op, r_raw[op]) or r_raw[op] != r_pw.get(op, r_raw[op]):
            print(op, "raw:", str(r_raw[op])[:200], "| parsed:", str(r_parsed.get(op))[:200], "| piecewise:", str(r_pw.get(op))[:200])
            ok = False
    return ok
