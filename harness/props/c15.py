"""C15 - JSON codec: json_writer emits the specification's JSON encoding, json_reader reads it back,
JSON and binary decode to the same records (numbers by value), absent keys take the schema defaults."""
import io, json, math, os, re, struct
from .. import core, gen, gallina as G, codec_common as CC

SRCFACTS = []
IMPORTS = ("From Coq Require Import String.\n"
           "From FA Require Import model.Base model.Varint model.Float model.Value model.Schema model.Codec model.Validate "
           "model.Write model.Read model.JsonCodec.\nOpen Scope Z_scope.\n")
RULE = ("cases = (schema, 1-4 conforming records, write_union_type): random schemas of the codec generator (hints off) + families: every "
        "top-level kind, random nestings of array/map/union/record to depth 4, map keys equal to field names, second use of a named type "
        "by reference (record/enum/fixed; in fields, arrays, unions), recursive types (list through a union, both branch orders, tree "
        "through array/map, mutual recursion) to depth 4, field-less records in every position, unions of several named types with "
        "namespaces, defaults of every kind (incl. bytes/fixed/union/record/array/map defaults), records whose name is a substring/key of "
        "a field type; data boundary-dense (all byte values, multi-byte strings and keys, int extremes, float32 boundary patterns, "
        "non-finite floats counted separately); corr:json-text compares json.loads of every written line BY VALUE (key order as written) "
        "with the model's json_enc of the elaborated record and with an independent Python spec relation; corr:json-read feeds the "
        "SPEC document to json_reader; corr:json-vs-binary compares with schemaless binary write+read; corr:json-defaults deletes "
        "defaulted keys from the spec document; non-trivial = record has a container/union node; distinct by (schema, records, flag)")
TRUSTED = ["json.dumps / json.loads are CPython's (the property is stated on the parsed documents: numbers by value, key order as written)",
           "the schema reaches the model as the parsed dict fastavro.parse_schema returned (naming is C11's business)",
           "union branch choice of the writer is the model's elab (C09's business); the independent spec relation accepts any conforming branch"]
ASSUMPTIONS = ["C15_json_binary's side condition c15_side is evaluated in Coq on every generated record (notes c15_side_true / c15_side_false:<conjuncts>; it may only fail in the label-distinctness conjuncts, for unions that hold a named type both as definition and as reference)",
               "C15_roundtrip assumes float_leaves_ok (d2s (s2d x) = Ok x on every float leaf, evaluated per leaf, not proved for all x); "
               "the harness evaluates the same boolean on every generated record (note float_leaves_not_ok must be 0)",
               "NaN / infinities have no JSON encoding (json_enc = None): such records are excluded from the text comparison; the code "
               "writes the tokens NaN/Infinity/-Infinity which Python's json.loads reads back (counted in notes)",
               "recursion limit / memory are not modelled", "tuple / '-type' hints are not generated here (C09)"]
PARTIAL = []

PRIMS = gen.PRIMS
NAMED_T = ("record", "error", "enum", "fixed")


# ================================================================ implementation runners
def exc_sym(e):
    if isinstance(e, RecursionError):
        return "RecursionError"
    if type(e) is Exception and str(e).startswith("Internal Parser Exception"):
        return "InternalParserException"
    if type(e) is Exception and str(e).startswith("No key was set"):
        return "NoKeyWasSet"
    return type(e).__name__


def impl_json_write(schema, records, wut):
    import fastavro
    fo = io.StringIO()
    try:
        core.with_timeout(lambda: fastavro.json_writer(fo, schema, records, write_union_type=wut), 30)
        return ("ok", fo.getvalue())
    except core.Timeout:
        return ("timeout", "Timeout")
    except BaseException as e:
        if isinstance(e, (KeyboardInterrupt, SystemExit)):
            raise
        return ("raised", exc_sym(e))


def impl_json_read(schema, text):
    import fastavro
    try:
        return ("ok", core.with_timeout(lambda: list(fastavro.json_reader(io.StringIO(text), schema)), 30))
    except core.Timeout:
        return ("timeout", "Timeout")
    except BaseException as e:
        if isinstance(e, (KeyboardInterrupt, SystemExit)):
            raise
        return ("raised", exc_sym(e))


def impl_binary(schema, records):
    import fastavro
    out = []
    try:
        for r in records:
            fo = io.BytesIO()
            core.with_timeout(lambda: fastavro.schemaless_writer(fo, schema, r), 30)
            fo.seek(0)
            out.append(core.with_timeout(lambda: fastavro.schemaless_reader(fo, schema), 30))
        return ("ok", out)
    except core.Timeout:
        return ("timeout", "Timeout")
    except BaseException as e:
        if isinstance(e, (KeyboardInterrupt, SystemExit)):
            raise
        return ("raised", exc_sym(e))


# ================================================================ canonical texts, numbers by value
def num_text(x):
    """a JSON / Python number by value: integral values print as the integer"""
    if isinstance(x, int):
        return "I%d" % x
    if x != x:
        return "Dnan"
    if x in (math.inf, -math.inf):
        return "Dinf" if x > 0 else "D-inf"
    if x == int(x):
        return "I%d" % int(x)
    return "D%d" % G.fbits(x)


def show_doc(j):
    """canonical text of a json.loads result; same shape as Coq's show_jv"""
    if j is None:
        return "n"
    if j is True:
        return "t"
    if j is False:
        return "f"
    if isinstance(j, (int, float)):
        return num_text(j)
    if isinstance(j, str):
        return "S" + j.encode("utf-8", "surrogatepass").hex()
    if isinstance(j, list):
        return "[" + "".join(show_doc(x) + "," for x in j) + "]"
    if isinstance(j, dict):
        return "{" + "".join(k.encode("utf-8", "surrogatepass").hex() + ":" + show_doc(x) + "," for k, x in j.items()) + "}"
    return "?" + type(j).__name__


def show_val(v):
    """canonical text of a Python value returned by a reader, numbers by value (same shape as Coq's show_py)"""
    if v is None:
        return "N"
    if isinstance(v, bool):
        return "T" if v else "F"
    if isinstance(v, (int, float)):
        return num_text(v)
    if isinstance(v, str):
        return "S" + v.encode("utf-8", "surrogatepass").hex()
    if isinstance(v, bytes):
        return "B" + v.hex()
    if isinstance(v, list):
        return "[" + "".join(show_val(x) + "," for x in v) + "]"
    if isinstance(v, dict):
        return "{" + "".join(show_val(k) + ":" + show_val(x) + "," for k, x in v.items()) + "}"
    return "?" + type(v).__name__


_DRE = re.compile(r"D(\d+)")


def by_value(text):
    """model text: every D<bits> that denotes an integral value becomes I<int> (numbers by value)"""
    return _DRE.sub(lambda m: num_text(G.bits_to_float(int(m.group(1)))), text) if text else text


def parse_jv(text):
    """Coq show_jv text -> Python document (the spec document the reader is fed with)"""
    pos = [0]

    def val():
        c = text[pos[0]]
        pos[0] += 1
        if c == "n":
            return None
        if c == "t":
            return True
        if c == "f":
            return False
        if c in "ID":
            m = re.compile(r"-?\d+").match(text, pos[0])
            pos[0] = m.end()
            return int(m.group(0)) if c == "I" else G.bits_to_float(int(m.group(0)))
        if c == "S":
            m = re.compile(r"[0-9a-f]*").match(text, pos[0])
            pos[0] = m.end()
            return bytes.fromhex(m.group(0)).decode("utf-8")
        if c == "[":
            out = []
            while text[pos[0]] != "]":
                out.append(val())
                assert text[pos[0]] == ","
                pos[0] += 1
            pos[0] += 1
            return out
        if c == "{":
            out = {}
            while text[pos[0]] != "}":
                m = re.compile(r"[0-9a-f]*").match(text, pos[0])
                pos[0] = m.end()
                assert text[pos[0]] == ":"
                pos[0] += 1
                out[bytes.fromhex(m.group(0)).decode("utf-8")] = val()
                assert text[pos[0]] == ","
                pos[0] += 1
            pos[0] += 1
            return out
        raise ValueError("bad jv text at %d: %r" % (pos[0], text[:80]))

    v = val()
    assert pos[0] == len(text), text
    return v


def parse_pytext(text):
    """Coq show_py text (after R:) -> Python value; used to compare reader results as values (dicts as maps)"""
    pos = [0]
    num = re.compile(r"-?\d+")
    hx = re.compile(r"[0-9a-f]*")

    def val():
        c = text[pos[0]]
        pos[0] += 1
        if c == "N":
            return None
        if c in "TF":
            return c == "T"
        if c in "ID":
            m = num.match(text, pos[0])
            pos[0] = m.end()
            return int(m.group(0)) if c == "I" else G.bits_to_float(int(m.group(0)))
        if c in "SBA":
            m = hx.match(text, pos[0])
            pos[0] = m.end()
            b = bytes.fromhex(m.group(0))
            return b.decode("utf-8") if c == "S" else b
        if c in "[(":
            out = []
            while text[pos[0]] not in "])":
                out.append(val())
                pos[0] += 1                      # ','
            pos[0] += 1
            return out
        if c == "{":
            out = {}
            while text[pos[0]] != "}":
                kk = val()
                pos[0] += 1                      # ':'
                out[kk] = val()
                pos[0] += 1                      # ','
            pos[0] += 1
            return out
        raise ValueError("bad value text at %d: %r" % (pos[0], text[:80]))

    v = val()
    assert pos[0] == len(text), text
    return v


def parse_pytext_safe(t):
    try:
        return parse_pytext(t)
    except Exception:
        return ("unparsable", t)


def model_value(rtext):
    """'R:<show_py>' -> (True, value) ; anything else -> (False, None)"""
    if rtext and rtext.startswith("R:") and "?" not in rtext:
        return True, parse_pytext(rtext[2:])
    return False, None


def jv_to_coq(j):
    if j is None:
        return "JvNull"
    if isinstance(j, bool):
        return "(JvBool %s)" % ("true" if j else "false")
    if isinstance(j, int):
        return "(JvInt %s)" % G.zlit(j)
    if isinstance(j, float):
        return "(JvFloat %d)" % G.fbits(j)
    if isinstance(j, str):
        return "(JvStr %s)" % G.cstr(j)
    if isinstance(j, list):
        return "(JvArr %s)" % G.clist(jv_to_coq(x) for x in j)
    return "(JvObj %s)" % G.clist("(%s, %s)" % (G.cstr(k), jv_to_coq(x)) for k, x in j.items())


# ================================================================ the statement, independently (Python, spec rules)
def resolve(s, named):
    while isinstance(s, str) and s not in PRIMS:
        s = named[s]
    return s


def tname(s):
    return "union" if isinstance(s, list) else (s if isinstance(s, str) else s["type"])


def label(b, named):
    """name a union branch is written under: full name of a named type (also through a reference), else the type name"""
    rb = resolve(b, named)
    if isinstance(rb, dict) and rb["type"] in NAMED_T:
        return rb["name"]
    t = tname(rb)
    return tname(t) if isinstance(t, (dict, list)) else t


def is_num(x):
    return isinstance(x, (int, float)) and not isinstance(x, bool)


def f32v(v):
    try:
        return struct.unpack("<f", struct.pack("<f", float(v)))[0]
    except (OverflowError, struct.error):
        return None          # not a float32 value: compares unequal to every number


def spec_json(j, v, s, named, wut=True, convert=True):
    """j (a json.loads result) is a specification JSON encoding of datum v under schema s, for SOME conforming branch.
    convert=False: a number may also be written as given instead of as the value of the schema type (classification only)."""
    s = resolve(s, named)
    if isinstance(s, list):
        for b in s:
            if not CC.conforms(v, b, named, False):
                continue
            if tname(resolve(b, named)) == "null":
                if j is None:
                    return True
            elif not wut:
                if spec_json(j, v, b, named, wut, convert):
                    return True
            elif isinstance(j, dict) and list(j) == [label(b, named)] and spec_json(j[label(b, named)], v, b, named, wut, convert):
                return True
        return False
    t = s if isinstance(s, str) else s["type"]
    if isinstance(t, (dict, list)):
        return spec_json(j, v, t, named, wut, convert)
    if t == "null":
        return j is None and v is None
    if t == "boolean":
        return isinstance(j, bool) and isinstance(v, bool) and j == v
    if t in ("int", "long"):
        return type(j) is int and type(v) is int and j == v
    if t == "float":
        return is_num(j) and is_num(v) and (j == f32v(v) or (not convert and j == v))
    if t == "double":
        return is_num(j) and is_num(v) and (j == float(v) or (not convert and j == v))
    if t in ("bytes", "fixed"):
        return isinstance(j, str) and isinstance(v, (bytes, bytearray)) and j == bytes(v).decode("iso-8859-1")
    if t == "string":
        return isinstance(j, str) and j == v
    if t == "enum":
        return isinstance(j, str) and j == v
    if t == "array":
        return isinstance(j, list) and isinstance(v, (list, tuple, bytes, bytearray)) and len(j) == len(v) and all(
            spec_json(a, b, s["items"], named, wut, convert) for a, b in zip(j, v))
    if t == "map":
        return isinstance(j, dict) and isinstance(v, dict) and list(j) == list(v) and all(
            spec_json(j[k], v[k], s["values"], named, wut, convert) for k in v)
    if t in ("record", "error"):
        if not (isinstance(j, dict) and isinstance(v, dict) and list(j) == [f["name"] for f in s["fields"]]):
            return False
        return all(spec_json(j[f["name"]], v[f["name"]] if f["name"] in v else f.get("default"), f["type"], named, wut, convert)
                   for f in s["fields"])
    return False


def value_equiv(v, out, s, named, convert=True):
    """`out` (from a reader) is the written datum v, numbers compared by value, under SOME conforming branch"""
    s = resolve(s, named)
    if isinstance(s, list):
        return any(CC.conforms(v, b, named, False) and value_equiv(v, out, b, named, convert) for b in s)
    t = s if isinstance(s, str) else s["type"]
    if isinstance(t, (dict, list)):
        return value_equiv(v, out, t, named, convert)
    if t == "null":
        return v is None and out is None
    if t == "boolean":
        return isinstance(out, bool) and out == v
    if t in ("int", "long"):
        return type(out) is int and out == v
    if t == "float":
        return is_num(out) and is_num(v) and out == (f32v(v) if convert else v)
    if t == "double":
        return is_num(out) and is_num(v) and out == (float(v) if convert else v)
    if t in ("bytes", "fixed"):
        return isinstance(out, bytes) and out == bytes(v)
    if t in ("string", "enum"):
        return isinstance(out, str) and out == v
    if t == "array":
        return isinstance(out, list) and isinstance(v, (list, tuple, bytes, bytearray)) and len(out) == len(v) and all(
            value_equiv(a, b, s["items"], named, convert) for a, b in zip(v, out))
    if t == "map":
        return isinstance(out, dict) and set(out) == set(v) and all(value_equiv(v[k], out[k], s["values"], named, convert) for k in v)
    if t in ("record", "error"):
        if not isinstance(out, dict) or set(out) != set(f["name"] for f in s["fields"]):
            return False
        return all(value_equiv(v[f["name"]] if f["name"] in v else f.get("default"), out[f["name"]], f["type"], named, convert)
                   for f in s["fields"])
    return False


def same_by_value(a, b):
    """two reader results, numbers by value (1 == 1.0), NaNs equal, dicts as maps"""
    if is_num(a) and is_num(b):
        return a == b or (a != a and b != b)
    if type(a) is not type(b):
        return False
    if isinstance(a, list):
        return len(a) == len(b) and all(same_by_value(x, y) for x, y in zip(a, b))
    if isinstance(a, dict):
        return set(a) == set(b) and all(same_by_value(a[k], b[k]) for k in a)
    return a == b


def default_py(d, s, named):
    """the Python value a reader must return for JSON default d of type s (spec: union -> first branch, bytes/fixed -> code points)"""
    s = resolve(s, named)
    if isinstance(s, list):
        return default_py(d, s[0], named)
    t = s if isinstance(s, str) else s["type"]
    if isinstance(t, (dict, list)):
        return default_py(d, t, named)
    if t in ("bytes", "fixed"):
        return d.encode("iso-8859-1")
    if t == "float":
        return f32v(d)
    if t == "double":
        return float(d)
    if t == "array":
        return [default_py(x, s["items"], named) for x in d]
    if t == "map":
        return {k: default_py(x, s["values"], named) for k, x in d.items()}
    if t in ("record", "error"):
        return {f["name"]: default_py(d[f["name"]] if f["name"] in d else f["default"], f["type"], named) for f in s["fields"]}
    return d


# ================================================================ named predicates for classification
class NonTerminating(Exception):
    pass


def py_in(name, t):
    """Python's `name in t` for a field type t (substring / element / key)"""
    try:
        return name in t
    except TypeError:
        return False


def self_typed(name, t):
    """the field's type IS the record (by name) or a union with the record as a member: the only fields the known finding F11b
    is about.  (Not Python's `name in t`: a substring / key coincidence -- 'ng' in 'long', 'geo.Point' in 'geo.PointKind' -- was
    defect F31, fixed in e887415; a recurrence must not be classified as the known finding.)"""
    return t == name or (isinstance(t, list) and any(b == name for b in t))


def grammar(schema, named):
    """shape of the grammar Parser._parse builds: which record occurrences are parsed again (`again`) and which of their fields are
    then replaced by the null-only alternative (`forced`).  Raises NonTerminating when the construction recurses forever."""
    processed = []

    def parse(s, depth):
        if depth > 120:
            raise NonTerminating()
        if isinstance(s, list):
            return ("union", [parse(b, depth + 1) for b in s], s)
        if isinstance(s, str):
            if s in PRIMS:
                return ("leaf", s)
            return parse(named[s], depth + 1)
        t = s["type"]
        if isinstance(t, (dict, list)):
            return parse(t, depth + 1)
        if t in ("record", "error"):
            again = s["name"] in processed
            if not again:
                processed.append(s["name"])
            fields = []
            for f in s["fields"]:
                if again and self_typed(s["name"], f["type"]):
                    fields.append((f, None))
                else:
                    fields.append((f, parse(f["type"], depth + 1)))
            return ("record", fields, s)
        if t == "array":
            return ("array", parse(s["items"], depth + 1))
        if t == "map":
            return ("map", parse(s["values"], depth + 1))
        return ("leaf", t)

    return parse(schema, 0)


def hits_forced(g, v, named):
    """datum v passes through a field that the grammar replaced by the null-only alternative, with a value other than
    `null as branch 0` (over-approximation: any conforming branch)"""
    k = g[0]
    if k == "union":
        return any(CC.conforms(v, b, named, False) and hits_forced(gb, v, named) for gb, b in zip(g[1], g[2]))
    if k == "record":
        if not isinstance(v, dict):
            return False
        for f, gf in g[1]:
            x = v[f["name"]] if f["name"] in v else f.get("default")
            if gf is None:
                ft = f["type"]
                if not (isinstance(ft, list) and ft and tname(resolve(ft[0], named)) == "null" and x is None):
                    return True
            elif hits_forced(gf, x, named):
                return True
        return False
    if k == "array":
        return isinstance(v, (list, tuple)) and any(hits_forced(g[1], x, named) for x in v)
    if k == "map":
        return isinstance(v, dict) and any(hits_forced(g[1], x, named) for x in v.values())
    return False


def tail_is_fieldless(s, v, named):
    """the last value json_writer visits is a record without fields that nothing follows (tail position: top level, last field of a
    tail record, chosen branch of a tail union)"""
    s = resolve(s, named)
    if isinstance(s, list):
        return any(CC.conforms(v, b, named, False) and tail_is_fieldless(b, v, named) for b in s)
    t = s if isinstance(s, str) else s["type"]
    if isinstance(t, (dict, list)):
        return tail_is_fieldless(t, v, named)
    if t in ("record", "error") and isinstance(v, dict):
        if not s["fields"]:
            return True
        f = s["fields"][-1]
        return tail_is_fieldless(f["type"], v[f["name"]] if f["name"] in v else f.get("default"), named)
    return False


def leaf_feature(s, v, named, pred):
    """some leaf (type, value) of the datum satisfies pred, under a conforming branch"""
    s = resolve(s, named)
    if isinstance(s, list):
        return any(CC.conforms(v, b, named, False) and leaf_feature(b, v, named, pred) for b in s)
    t = s if isinstance(s, str) else s["type"]
    if isinstance(t, (dict, list)):
        return leaf_feature(t, v, named, pred)
    if t == "array":
        return isinstance(v, (list, tuple)) and any(leaf_feature(s["items"], x, named, pred) for x in v)
    if t == "map":
        return isinstance(v, dict) and any(leaf_feature(s["values"], x, named, pred) for x in v.values())
    if t in ("record", "error"):
        return isinstance(v, dict) and any(
            leaf_feature(f["type"], v[f["name"]] if f["name"] in v else f.get("default"), named, pred) for f in s["fields"])
    return pred(t, v)


def has_empty_map_key(s, v, named):
    """some map in the datum has the key '' (under a conforming branch)"""
    s = resolve(s, named)
    if isinstance(s, list):
        return any(CC.conforms(v, b, named, False) and has_empty_map_key(b, v, named) for b in s)
    t = s if isinstance(s, str) else s["type"]
    if isinstance(t, (dict, list)):
        return has_empty_map_key(t, v, named)
    if t == "array":
        return isinstance(v, (list, tuple)) and any(has_empty_map_key(s["items"], x, named) for x in v)
    if t == "map":
        return isinstance(v, dict) and ("" in v or any(has_empty_map_key(s["values"], x, named) for x in v.values()))
    if t in ("record", "error"):
        return isinstance(v, dict) and any(
            has_empty_map_key(f["type"], v[f["name"]] if f["name"] in v else f.get("default"), named) for f in s["fields"])
    return False


def tail_record_depth(s, v, named):
    """number of records nested along the tail of value v: record -> value of its last field -> chosen union branch -> ..."""
    s = resolve(s, named)
    if isinstance(s, list):
        return max([tail_record_depth(b, v, named) for b in s if CC.conforms(v, b, named, False)] or [0])
    t = s if isinstance(s, str) else s["type"]
    if isinstance(t, (dict, list)):
        return tail_record_depth(t, v, named)
    if t in ("record", "error") and isinstance(v, dict):
        if not s["fields"]:
            return 1
        f = s["fields"][-1]
        return 1 + tail_record_depth(f["type"], v[f["name"]] if f["name"] in v else f.get("default"), named)
    return 0


def map_value_ends_in_nested_record(s, v, named, keyed=False):
    """some non-empty map in the datum has a value that leaves record actions pending when json_decoder.iter_map pops and deletes
    the key: the value's tail is a record inside a record, or (when the map itself sits under an object key: record field / outer
    map value) a record without fields"""
    s = resolve(s, named)
    if isinstance(s, list):
        return any(CC.conforms(v, b, named, False) and map_value_ends_in_nested_record(b, v, named, keyed) for b in s)
    t = s if isinstance(s, str) else s["type"]
    if isinstance(t, (dict, list)):
        return map_value_ends_in_nested_record(t, v, named, keyed)
    if t == "array":
        return isinstance(v, (list, tuple)) and any(map_value_ends_in_nested_record(s["items"], x, named, False) for x in v)
    if t == "map":
        return isinstance(v, dict) and any(tail_record_depth(s["values"], x, named) >= 2 or
                                           (keyed and tail_is_fieldless(s["values"], x, named)) or
                                           map_value_ends_in_nested_record(s["values"], x, named, True) for x in v.values())
    if t in ("record", "error"):
        return isinstance(v, dict) and any(
            map_value_ends_in_nested_record(f["type"], v[f["name"]] if f["name"] in v else f.get("default"), named, True)
            for f in s["fields"])
    return False


def p_unconverted(t, v):
    """a float/double leaf whose Python number is not a value of the schema type (1.1 under float, 2**53+1 under double)"""
    if not is_num(v) or v != v or v in (math.inf, -math.inf):
        return False
    try:
        return (t == "float" and f32v(v) is not None and f32v(v) != v) or (t == "double" and float(v) != v)
    except OverflowError:
        return False


def p_nonfinite(t, v):
    return t in ("float", "double") and isinstance(v, float) and (v != v or v in (math.inf, -math.inf))


def doc_empty_key_leaf(doc):
    """the spec document has an object member "" whose value is not an object/array (json_encoder.write_value tests `if self._key`)"""
    if isinstance(doc, list):
        return any(doc_empty_key_leaf(x) for x in doc)
    if isinstance(doc, dict):
        return any((k == "" and not isinstance(x, (dict, list))) or doc_empty_key_leaf(x) for k, x in doc.items())
    return False


# (feature, sites it shows at, symptoms it explains, symptom label in the signature).  A symptom outside the set is a
# DIFFERENT defect and is reported as `other`.
FEATURES = [
    ("recursive-type-other-than-direct-self-union", ("json_writer", "json_reader"), {"RecursionError"}, "RecursionError"),
    ("record-type-parsed-again-self-typed-field-forced-null", ("json_writer",), {"IndexError", "InternalParserException"}, "raises"),
    ("record-type-parsed-again-self-typed-field-forced-null", ("json_reader",), {"ValueError", "InternalParserException"}, "raises"),
    ("fieldless-record-in-tail-position", ("json_writer",), {"InternalParserException"}, "InternalParserException"),
    ("empty-string-map-key-with-leaf-value", ("json_writer",), {"NoKeyWasSet"}, "NoKeyWasSet"),
    ("map-value-ends-in-nested-record", ("json_reader",),
     {"KeyError", "ValueError", "records-differ-from-written", "differs-from-binary-decoding"}, "raises-or-wrong-records"),
    ("number-not-converted-to-schema-type", ("json_writer",), {"text-is-not-the-spec-encoding"}, "text-is-not-the-spec-encoding"),
]


def safe(pred, *a):
    """predicates over-approximate union branches and can chase an endless chain of defaults ({} for a self-referential record)"""
    try:
        return pred(*a)
    except RecursionError:
        return False


def features_of(c, recs=None, docs=None):
    """named predicates over the (minimised) case, independent of what the implementation did"""
    recs = c.records if recs is None else recs
    out = set()
    try:
        g = grammar(c.parsed, c.named)
    except NonTerminating:
        return {"recursive-type-other-than-direct-self-union"}       # nothing else is reachable: configure() fails
    if any(safe(hits_forced, g, r, c.named) for r in recs):
        out.add("record-type-parsed-again-self-typed-field-forced-null")
    if recs and safe(tail_is_fieldless, c.parsed, recs[-1], c.named):
        out.add("fieldless-record-in-tail-position")
    if docs is not None and any(doc_empty_key_leaf(d) for d in docs):
        out.add("empty-string-map-key-with-leaf-value")
    if any(safe(map_value_ends_in_nested_record, c.parsed, r, c.named) for r in recs):
        out.add("map-value-ends-in-nested-record")
    if any(safe(leaf_feature, c.parsed, r, c.named, p_unconverted) for r in recs):
        out.add("number-not-converted-to-schema-type")
    return out


def classify(c, site, symptom, docs=None):
    """signature = C15:<site>:<feature>:<symptom>; the feature is the first named predicate that holds of the case and explains
    the symptom, else `other` (so that a different defect on an input of a known class is not swallowed)"""
    fs = features_of(c, docs=docs)
    for name, sites, symptoms, lab in FEATURES:
        if name in fs and site in sites and symptom in symptoms:
            where = "parser" if name.startswith("recursive-type") else site
            return "C15:%s:%s:%s" % (where, name, lab)
    return "C15:%s:other:%s" % (site, symptom)


def in_known_class(c, docs=None):
    fs = features_of(c, docs=docs)
    fs.discard("empty-string-map-key-with-leaf-value")       # fixed in /repo (4ca320c): a recurrence is a violation
    if not c.wut:
        fs.discard("map-value-ends-in-nested-record")          # reader is not run
    return sorted(fs)[0] if fs else None


# ================================================================ cases
class JCase:
    __slots__ = ("raw", "parsed", "named", "records", "wut", "tag")

    def to_json(self):
        return dict(schema=self.raw, records_repr=repr(self.records), write_union_type=self.wut, tag=self.tag)

    @staticmethod
    def from_json(d):
        return mk_case(d["schema"], eval(d["records_repr"], dict(CC.EVAL_ENV)), d["write_union_type"], d.get("tag", "replay"))


def mk_case(raw, records, wut, tag):
    import fastavro
    c = JCase()
    c.raw = json.loads(json.dumps(raw))
    c.named = {}
    c.parsed = fastavro.parse_schema(c.raw, c.named)
    c.records, c.wut, c.tag = records, wut, tag
    return c


def rec(name, fields, **kw):
    d = {"type": "record", "name": name, "fields": [dict(name=n, type=t, **(x[0] if x else {})) for n, t, *x in fields]}
    d.update(kw)
    return d


def arr(t):
    return {"type": "array", "items": t}


def mp(t):
    return {"type": "map", "values": t}


def enum(name, syms, **kw):
    return dict({"type": "enum", "name": name, "symbols": syms}, **kw)


def fixed(name, size, **kw):
    return dict({"type": "fixed", "name": name, "size": size}, **kw)


NODE = rec("Node", [("v", "long"), ("next", ["null", "Node"])])
NODE_REV = rec("NodeR", [("v", "long"), ("next", ["NodeR", "null"])])
TREE_A = rec("T", [("kids", arr("T"))], namespace="ns")
TREE_M = rec("TM", [("kids", mp("TM"))])
MUTUAL = rec("A", [("b", ["null", rec("B", [("a", ["null", "A"])])])])
EMPTY = rec("Empty", [])


def chain(k, name="next", rev=False):
    v = None
    for i in range(k, 0, -1):
        v = {"v": i, name: v}
    return v


def tree(rng, depth, mapform=False):
    n = 0 if depth <= 0 else rng.choice([0, 1, 2])
    kids = [tree(rng, depth - 1, mapform) for _ in range(n)]
    return {"kids": {("k%d" % i): k for i, k in enumerate(kids)} if mapform else kids}


def fixed_families(rng):
    """(tag, schema, explicit records or None)"""
    F = []
    for p in PRIMS:
        F.append(("top-prim", p, None))
        F.append(("top-prim", {"type": p}, None))
    F += [("top-named", enum("E", ["A", "B", "C"]), None), ("top-named", fixed("F4", 4), None), ("top-named", fixed("F0", 0), None),
          ("top-container", arr("long"), None), ("top-container", mp("string"), None), ("top-container", arr("bytes"), None),
          ("top-union", ["null", "int", "string"], None), ("top-union", ["float", "double"], None),
          ("top-union", ["null", "boolean", "int", "long", "float", "double", "bytes", "string"], None),
          ("top-union", ["null", arr("int"), mp("int")], None)]
    # nested arrays / maps / unions / records
    F += [("nested", arr(arr("int")), None), ("nested", arr(arr(arr("string"))), None), ("nested", mp(mp("int")), None),
          ("nested", arr(mp(arr("long"))), None), ("nested", mp(arr(mp("bytes"))), None),
          ("nested", arr(["null", "int", mp("int")]), None), ("nested", mp(["null", arr(["int", "string"])]), None),
          ("nested", arr(["null", arr(["null", "long"])]), None),
          ("nested", rec("O", [("i", rec("I", [("x", "int"), ("m", mp(arr("int")))])), ("u", ["null", "I"]), ("l", arr("I"))]), None),
          ("nested", arr(rec("P", [("z", "int"), ("a", ["null", arr(rec("P2", [("q", mp("int"))]))])])), None),
          ("nested", rec("UM", [("u", [mp("int"), arr("int"), "null"]), ("v", [arr(mp("string")), "string"])]), None)]
    # map key equal to a field name
    mk = rec("MK", [("m", mp("int")), ("k", "int"), ("n", mp(["null", "string"]))])
    F.append(("mapkey=field", mk, [{"m": {"k": 1, "m": 2, "n": 3}, "k": 3, "n": {"m": None, "k": "x", "n": "y"}},
                                    {"m": {"n": 0}, "k": 0, "n": {}}, {"m": {"m": 5, "k": 6}, "k": -1, "n": {"k": None}}]))
    F.append(("mapkey=field", rec("MK2", [("m", mp(rec("In", [("m", "int"), ("k", mp("int"))]))), ("k", "string")]),
              [{"m": {"k": {"m": 1, "k": {"m": 2, "k": 3}}, "m": {"m": 0, "k": {}}}, "k": "m"}]))
    F.append(("mapkey=label", rec("MK3", [("u", ["null", mp("int"), "int"])]), [{"u": {"map": 1, "int": 2}}, {"u": {"null": 0}}, {"u": 7}]))
    # second use of a named type by reference
    X = rec("X", [("n", "int"), ("s", ["null", "string"])])
    F += [("second-use", rec("S1", [("a", X), ("b", "X")]), None),
          ("second-use", rec("S2", [("a", arr(X)), ("b", arr("X")), ("c", ["null", "X"])]), None),
          ("second-use", rec("S3", [("e", enum("E1", ["P", "Q"])), ("e2", "E1"), ("f", fixed("Fx", 3)), ("f2", "Fx"), ("l", arr("E1"))]), None),
          ("second-use", rec("S4", [("u", [X, "null"]), ("v", ["null", "X"]), ("w", mp("X"))], namespace="a.b"), None),
          ("second-use", arr(rec("S5", [("x", "int"), ("y", ["null", rec("S5b", [("q", "string")])]), ("z", arr("S5b"))])), None),
          ("second-use", rec("S6", [("a", rec("ns1.Y", [("e", enum("ns1.YE", ["A"])), ("g", "ns1.YE")])), ("b", "ns1.Y"), ("c", mp("ns1.Y"))]), None)]
    # record whose name is a substring / key of a field type, used twice
    F += [("name-in-type", rec("S7", [("a", rec("ng", [("x", "long"), ("y", "string")])), ("b", "ng")]), None),
          ("name-in-type", rec("S8", [("a", rec("R1", [("x", rec("R10", [("q", "int")])), ("y", "R10")])), ("b", "R1")]), None),
          ("name-in-type", rec("SA", [("a", rec("geo.Point", [("kind", enum("geo.PointKind", ["P", "Q"])), ("k2", "geo.PointKind"), ("x", "int")])),
                                      ("b", "geo.Point"), ("c", arr("geo.Point"))]), None),
          ("name-in-type", rec("SB", [("a", rec("R", [("i", rec("b.R", [("q", "int")])), ("j", "b.R"), ("f", fixed("MyR", 1)), ("g", "MyR")])),
                                      ("b", "R"), ("u", ["null", "R"])]), None),
          ("name-in-type", rec("SC", [("k", enum("PointKind", ["A"])), ("m", rec("MyPoint", [("z", "int")])),
                                      ("a", rec("Point", [("k", "PointKind"), ("m", "MyPoint"), ("l", "long"), ("s", "string")])),
                                      ("b", "Point"), ("c", mp("Point"))]), None),
          ("name-in-type", arr(rec("in", [("t", "int"), ("s", "string"), ("d", "double")])), None),
          ("name-in-type", rec("SD", [("a", rec("in", [("t", "int"), ("s", "string")])), ("b", "in"), ("c", "in")]), None),
          ("name-in-type", rec("S9", [("a", rec("type", [("x", arr("int")), ("y", "int")])), ("b", "type")]), None)]
    # recursive types
    for k in (1, 2, 3, 4):
        F.append(("recursive-list", NODE, [chain(k)]))
        F.append(("recursive-list-rev", NODE_REV, [chain(k)]))
    F.append(("recursive-list", NODE, [chain(1), chain(2), chain(1)]))
    F.append(("recursive-list-in-array", arr(NODE), [[chain(1), chain(2)], [chain(3)]]))
    for d in (0, 1, 2, 3):
        F.append(("recursive-array", TREE_A, [tree(rng, d)]))
        F.append(("recursive-map", TREE_M, [tree(rng, d, True)]))
    F.append(("recursive-mutual", MUTUAL, [{"b": None}, {"b": {"a": None}}, {"b": {"a": {"b": None}}}]))
    # field-less records
    F += [("fieldless", EMPTY, [{}]), ("fieldless", EMPTY, [{}, {}]), ("fieldless", arr(EMPTY), [[{}], [{}, {}], []]),
          ("fieldless", mp(EMPTY), [{"a": {}, "b": {}}, {}]), ("fieldless", ["null", EMPTY], [None, {}, None]), ("fieldless", ["null", EMPTY], [{}, None]),
          ("fieldless", rec("E1r", [("e", EMPTY), ("x", "int")]), [{"e": {}, "x": 1}, {"e": {}, "x": 2}]),
          ("fieldless", rec("E2r", [("x", "int"), ("e", EMPTY)]), [{"e": {}, "x": 1}]),
          ("fieldless", rec("E2r", [("x", "int"), ("e", EMPTY)]), [{"e": {}, "x": 1}, {"e": {}, "x": 2}]),
          ("fieldless", rec("E3r", [("x", "int"), ("e", ["null", EMPTY])]), [{"x": 1, "e": None}, {"x": 2, "e": {}}, {"x": 3, "e": None}]),
          ("fieldless", rec("E4r", [("e", EMPTY), ("f", "Empty"), ("l", arr("Empty"))]), [{"e": {}, "f": {}, "l": [{}, {}]}, {"e": {}, "f": {}, "l": []}])]
    # unions of several named types
    U = [rec("n.R1", [("x", "int")]), rec("n.R2", [("x", "int"), ("y", ["null", "n.R1"])]), enum("n.En", ["A", "B"]), fixed("Fq", 2), "null",
         rec("R3", [("z", "string")], namespace="other")]
    F += [("union-named", U, None), ("union-named", arr(U), None), ("union-named", rec("UN", [("u", U), ("t", "int")], namespace="n"), None),
          ("union-named", mp(["null", enum("Color", ["RED", "GREEN"]), fixed("Two", 2), "string"]), None),
          ("union-named", rec("UR", [("d", rec("q.D", [("x", "int")])), ("u", ["null", "q.D", enum("q.E", ["A"])]), ("w", ["q.E", "q.D"])]), None)]
    # characters that str.splitlines() treats as line boundaries, raw in foreign JSON text
    LB = rec("LB", [("s", "string"), ("b", "bytes"), ("f", fixed("LBF", 3)), ("m", mp("string")), ("u", ["null", "string", "bytes"])])
    F.append(("line-boundary-chars", LB, [{"s": "a\u2028b", "b": b"x\x85y", "f": b"\x85\x0a\x1c", "m": {"k\u2029": "v\u0085", "\u0085": ""}, "u": "\u2028"},
                                          {"s": "\u0085", "b": b"\x85", "f": b"abc", "m": {}, "u": b"\x85\x85"},
                                          {"s": "\u2029\u2028\u0085\u001c\u000b\u000c", "b": b"", "f": b"\x0b\x0c\x1e", "m": {"\u2028": "\u2029"}, "u": None}]))
    U8 = rec("U8", [("b", "bytes"), ("f", fixed("U8F", 2)), ("m", mp("bytes")), ("u", ["null", "bytes", fixed("U8G", 4)]), ("a", arr("bytes")),
                    ("d", "bytes", {"default": "\u00c3\u00a9"}), ("g", fixed("U8H", 2), {"default": "\u00c2\u0080"})])
    F.append(("utf8-looking-bytes", U8, [{"b": "caf\u00e9".encode(), "f": b"\xc3\xa9", "m": {"k": b"\xc2\x80\xc3\xbf", "j": b"\xc3"}, "u": b"\xc3\xa9",
                                         "a": [b"\xc3\xa9", b"a\xc2\xa0b", b"\xc3\xa9\xff"], "d": b"\xc3\xbf", "g": b"\xc2\xa0"},
                                        {"b": b"\xc3\xa9", "f": b"\xc2\x80", "m": {}, "u": b"\xc3\xa9\xc3\xa9", "a": [], "d": b"\xc3\xa9", "g": b"\xc3\xbf"},
                                        {"b": b"\xc2\x80\xc3\xbf", "f": b"\xc3\xbf", "m": {"\u00e9": b"\xc3\xa9"}, "u": None, "a": [b"\xc3\xa9"]}]))
    F.append(("utf8-looking-bytes", "bytes", ["\u00e9".encode(), b"\xc3\xa9\xc2\x80", "caf\u00e9".encode()]))
    F.append(("utf8-looking-bytes", fixed("U8T", 2), [b"\xc3\xa9", b"\xc2\xbf"]))
    F.append(("utf8-looking-bytes", mp(["null", "bytes"]), [{"a": b"\xc3\xa9", "b": None, "c": b"\xc3\x28"}]))
    F.append(("line-boundary-chars", "string", ["\u2028", "x\u0085y", "\u2029z"]))
    F.append(("line-boundary-chars", "bytes", [b"\x85", b"a\x85"]))
    F.append(("line-boundary-chars", mp("int"), [{"\u2028": 1, "a\u0085b": 2}]))
    # defaults of every kind
    D = rec("D", [("a", "int", {"default": 7}), ("b", "float", {"default": 1}), ("c", ["null", "string"], {"default": None}),
                  ("d", arr("int"), {"default": [1, 2]}), ("e", mp("int"), {"default": {"k": 1}}), ("f", "bytes", {"default": "\u0000ÿ\u0080a"}),
                  ("g", fixed("FD", 2), {"default": "é\u0001"}), ("h", enum("ED", ["A", "B"]), {"default": "B"}),
                  ("i", ["int", "null"], {"default": 5}), ("j", rec("DI", [("p", "int"), ("q", "string", {"default": "qq"})]), {"default": {"p": 3}}),
                  ("k", "double", {"default": 2.5}), ("l", "string", {"default": "hé"}), ("m", "boolean", {"default": True}),
                  ("n", "long", {"default": 1 << 40}), ("o", "null", {"default": None}), ("z", "int")])
    F.append(("defaults", D, None))
    F.append(("defaults", rec("D2", [("u", [mp("int"), "null"], {"default": {"a": 1}}), ("v", [arr("string"), "int"], {"default": ["x"]}),
                                     ("w", ["string", "null"], {"default": "dd"}), ("x", arr(["null", "int"]), {"default": []}),
                                     ("y", "int")]), None))
    F.append(("defaults", rec("D7", [("e", enum("E7", ["A", "B"])), ("e2", "E7", {"default": "B"}), ("f", fixed("F7", 1)), ("f2", "F7", {"default": "x"}),
                                     ("s", rec("S7r", [("q", "int")])), ("s2", "S7r", {"default": {"q": 5}}), ("u", ["E7", "null"], {"default": "A"}),
                                     ("a", arr("E7"), {"default": ["A", "B"]}), ("z", "int")]), None))
    F.append(("defaults", rec("D8", [("e", enum("E8", ["A", "B", "C"])), ("e2", "E8", {"default": "B"}), ("e3", "E8", {"default": "C"}), ("e4", "E8", {"default": "A"}),
                                     ("f", fixed("F8", 1)), ("f2", "F8", {"default": "x"}), ("f3", "F8", {"default": "y"}),
                                     ("s", rec("S8r", [("q", "int"), ("w", "string", {"default": "in"})])), ("s2", "S8r", {"default": {"q": 5}}),
                                     ("s3", "S8r", {"default": {"q": 6, "w": "six"}}), ("u2", ["E8", "null"], {"default": "C"}), ("u3", ["E8", "null"], {"default": "B"}),
                                     ("a2", arr("E8"), {"default": ["A"]}), ("a3", arr("E8"), {"default": ["C", "B"]}), ("z", "int")]), None))
    F.append(("defaults", arr(rec("D9", [("k", enum("ns9.K", ["P", "Q", "R"]), {"default": "P"}), ("k2", "ns9.K", {"default": "Q"}), ("k3", "ns9.K", {"default": "R"}),
                                         ("m2", mp("ns9.K"), {"default": {"a": "Q"}}), ("m3", mp("ns9.K"), {"default": {"b": "R"}})])), None))
    # an enum with its OWN (type-level) default, under fields whose default names another symbol
    F.append(("defaults", rec("D10", [("e", enum("E10", ["A", "B", "C"], default="C"), {"default": "A"}), ("e2", "E10", {"default": "B"}),
                                      ("u", [enum("E10u", ["X", "Y"], default="Y"), "null"], {"default": "X"}),
                                      ("a", arr(enum("E10a", ["M", "N"], default="N")), {"default": ["M"]}),
                                      ("m", mp("E10"), {"default": {"k": "A"}}), ("z", "int")]), None))
    F.append(("defaults", rec("D5", [("id", "int"), ("grid", arr(arr("int")), {"default": [[1, 2], [3]]}),
                                     ("index", mp(arr("string")), {"default": {"a": ["x", "y"], "b": []}}),
                                     ("alt", [arr(mp("int")), "null"], {"default": [{"k": 1}, {}]}),
                                     ("sub", rec("Sub5", [("tags", arr("string")), ("n", "long")]), {"default": {"tags": ["t1", "t2"], "n": 7}}),
                                     ("mm", mp(mp("int")), {"default": {"o": {"i": 1}}}),
                                     ("um", [mp(arr("int")), "int"], {"default": {"q": [4, 5]}}),
                                     ("flat", arr("int"), {"default": [9, 8]})]), None))
    F.append(("defaults", arr(rec("D6", [("g", arr(arr(arr("string"))), {"default": [[["a"], []], [["b", "c"]]]}), ("k", "int")])), None))
    F.append(("defaults", arr(rec("D3", [("a", "int", {"default": 1}), ("r", ["null", "D3"], {"default": None})])), None))
    F.append(("defaults", rec("D4", [("j", rec("DJ", [("p", "int"), ("u", ["int", "null"])]), {"default": {"p": 3, "u": 4}}),
                                     ("l", arr(["null", "int"]), {"default": [None]}), ("n", "null", {"default": None}), ("z", "int")]), None))
    return F


def random_nested(rng, depth, ctr):
    """random nesting of array / map / union / record over primitive and fresh named leaves"""
    if depth <= 0 or rng.random() < 0.2:
        r = rng.random()
        if r < 0.7:
            return rng.choice(PRIMS)
        ctr[0] += 1
        return enum("NE%d" % ctr[0], ["A", "B"]) if r < 0.85 else fixed("NF%d" % ctr[0], rng.choice([0, 1, 3]))
    k = rng.choice(["array", "map", "union", "record"])
    if k == "array":
        return arr(random_nested(rng, depth - 1, ctr))
    if k == "map":
        return mp(random_nested(rng, depth - 1, ctr))
    if k == "union":
        out, seen = [], set()
        for _ in range(rng.choice([1, 2, 3, 4])):
            b = random_nested(rng, depth - 1, ctr)
            if isinstance(b, list):
                b = arr(b)
            key = b if isinstance(b, str) else (b["name"] if "name" in b else b["type"])
            if key not in seen:
                seen.add(key)
                out.append(b)
        return out
    ctr[0] += 1
    name = "NR%d" % ctr[0]
    return rec(name, [("f%d" % i, random_nested(rng, depth - 1, ctr)) for i in range(rng.choice([1, 2, 3]))])


class SmallData(gen.DataGen):
    """the codec generator's boundary-dense leaves, with short containers (documents stay small; depth is what matters here)"""

    def size(self):
        return self.rng.choice([0, 0, 1, 1, 2, 2, 3, 4]) if self.rng.random() < 0.95 else self.rng.choice([7, 17])

    SPECIAL = ["\u2028", "\u2029", "\u0085", "\u007f", "\u00a0", "\ufeff", "\u001c", "\u000b", "\u000c", "\r", "\n", "\t", '"', "\\"]

    def string(self):
        s = gen.DataGen.string(self)
        s = s if len(s) <= 8 or self.rng.random() < 0.1 else s[:self.rng.choice([1, 2, 5, 8])]
        if self.rng.random() < 0.12:      # line-boundary characters of str.splitlines, quotes, controls
            i = self.rng.randrange(len(s) + 1)
            s = s[:i] + self.rng.choice(self.SPECIAL) + s[i:]
        return s

    def bytes_(self, n=None):
        if n is None and self.rng.random() < 0.8:
            n = self.rng.choice([0, 1, 2, 3, 7])
        b = gen.DataGen.bytes_(self, n)
        if self.rng.random() < 0.2:
            # bytes that are VALID UTF-8 of Latin-1-range characters (C2/C3 + 80..BF pairs): a writer that decodes bytes as UTF-8
            # "when it fits" writes one code point per pair; mixed with ASCII and with invalid sequences; for fixed: exact length n
            pool = ["\u00e9", "\u00ff", "\u0080", "\u00a0", "\u00c3", "\u00c2", "caf\u00e9", "a", "\u00bf\u00c0"]
            t = b"".join(self.rng.choice(pool).encode("utf-8") for _ in range(self.rng.choice([1, 1, 2, 3])))
            if self.rng.random() < 0.3:
                t = self.rng.choice([b"\xc3", b"\xff", b"\xa9", b"x"]) + t + self.rng.choice([b"", b"\xc2", b"\x80"])
            if n is None:
                return t
            if n >= 2:
                return (t * n)[:n] if self.rng.random() < 0.5 else (b"\xc3\xa9" * n)[:n]
        if len(b) > 0 and self.rng.random() < 0.15:      # 0x85 = U+0085 in the ISO-8859-1 string; 0x0a, 0x1c, 0x22, 0x5c
            i = self.rng.randrange(len(b))
            b = b[:i] + bytes([self.rng.choice([0x85, 0x85, 0x0a, 0x0d, 0x1c, 0x22, 0x5c, 0xa0])]) + b[i + 1:]
        return b


def gen_cases(ctx, n):
    import fastavro
    rng = ctx.rng
    cases, skipped = [], 0
    fam = fixed_families(rng)

    def data_for(parsed, named, k):
        return [to_plain(SmallData(rng, named, hints=False).datum(parsed)) for _ in range(k)]

    def add(raw, records, tag, both=False):
        nonlocal skipped
        for wut in ((True, False) if both else (rng.random() < 0.8,)):
            try:
                c = mk_case(raw, records, wut, tag)
                if c.records is None:
                    c.records = data_for(c.parsed, c.named, rng.choice([1, 1, 2, 3]))
                cases.append(c)
            except (gen.TooDeep, RecursionError):
                skipped += 1

    for tag, raw, records in fam:
        add(raw, records, tag, both=True)
        if records is None and not ctx.quick():
            add(raw, None, tag)
    ctr = [0]
    for _ in range(max(20, n // 5)):
        ctr[0] = 0
        add(random_nested(rng, rng.choice([2, 3, 4]), ctr), None, "random-nested")
    rejected = 0
    while len(cases) < n:
        if rng.random() < 0.15:
            raw, tag = rng.choice(CC.FIXED_SCHEMAS), "codec-pool"
        else:
            try:
                raw, tag = CC.make_schema(rng)[0], "codec-gen"
            except Exception:
                rejected += 1
                continue
        add(raw, None, tag)
    ctx.notes["schemas_rejected_by_parse"] = rejected
    ctx.notes["data_generation_skipped"] = skipped
    return cases


def to_plain(v):
    """the codec generator's sequence variants (tuple, bytearray): tuples are union hints for the writer; keep lists/bytes"""
    if isinstance(v, tuple):
        return [to_plain(x) for x in v]
    if isinstance(v, list):
        return [to_plain(x) for x in v]
    if isinstance(v, dict):
        return {k: to_plain(x) for k, x in v.items() if k != "extra_key"}
    return v


# ================================================================ model
def expr_json(c, r):
    return "run_json %s %s %s %s" % ("true" if c.wut else "false", G.env_to_coq(c.named), G.schema_to_coq(c.parsed), G.py_to_coq(r))


def run_model(ctx, exprs, tag):
    """evaluate in Coq; expressions are dealt to the shards by size so that the shards take about equally long"""
    order = sorted(range(len(exprs)), key=lambda i: -len(exprs[i]))
    nsh = max(1, min(16, (len(exprs) + 39) // 40), (len(exprs) + 599) // 600)
    per = (len(exprs) + nsh - 1) // nsh if exprs else 1
    dealt = [[] for _ in range(nsh)]
    for k, i in enumerate(order):
        dealt[k % nsh].append(i)
    perm = [i for d in dealt for i in d]
    # shards must have equal length `per` for coq_eval's consecutive slicing: pad with a trivial expression
    flat, back = [], []
    for d in dealt:
        for i in d:
            back.append(i)
            flat.append(exprs[i])
        for _ in range(per - len(d)):
            back.append(None)
            flat.append('"pad"')
    out = core.coq_eval(flat, IMPORTS, ctx.workdir, tag=tag, shard=per)
    res = [None] * len(exprs)
    for i, v in zip(back, out):
        if i is not None:
            res[i] = v
    return res


_MRE = re.compile(r"^J:(.*);(R:.*|E|FUEL|-);B:(.*);L:([01])(;side-condition-false:[01]*)?$")


def split_model(m):
    """-> (doc text, read text or None, binary text, leaves ok) or a status string"""
    if m is None or not m.startswith("J:"):
        return m
    g = _MRE.match(m)
    return g.group(1), g.group(2), g.group(3), g.group(4) == "1", (g.group(5) or "")[len(";side-condition-false:"):]


# ================================================================ the check
def has_depth(v):
    return isinstance(v, (list, dict)) and len(v) > 0


def minimise(c, fails):
    """shortest record list (single record, then prefixes) on which `fails` still holds"""
    for r in c.records:
        m = mk_like(c, [r])
        if fails(m):
            return m
    for k in range(1, len(c.records)):
        m = mk_like(c, c.records[:k])
        if fails(m):
            return m
    return c


def mk_like(c, records):
    m = JCase()
    m.raw, m.parsed, m.named, m.wut, m.tag = c.raw, c.parsed, c.named, c.wut, c.tag
    m.records = records
    return m


def check_case(ctx, c, ms, stats):
    """ms = split model outputs, one per record"""
    key = (repr(c.raw), repr(c.records), c.wut)
    nontriv = any(has_depth(r) for r in c.records)
    if any(not isinstance(m, tuple) for m in ms):
        bad = [m for m in ms if not isinstance(m, tuple)]
        if all(m == "NOJSON" for m in bad):
            stats["nonfinite_cases"] = stats.get("nonfinite_cases", 0) + 1
            check_nonfinite(ctx, c, stats)
        else:
            stats["model_no_answer"] = stats.get("model_no_answer", 0) + 1
            stats.setdefault("model_no_answer_samples", []).append((repr(c.raw)[:200], repr(c.records)[:200], bad[:2]))
        return
    if not all(m[3] for m in ms):
        stats["float_leaves_not_ok"] = stats.get("float_leaves_not_ok", 0) + 1
    for m in ms:
        # the computable side condition of C15_json_binary; conjuncts: wf_env wf_schema wf_py named_env wf_envb wfb float-leaves.
        # Only the label/name distinctness conjuncts (5th, 6th) may fail on generated data: unions holding a named type both as a
        # definition and as a reference (two branches with one label), which parse_schema accepts
        if m[4]:
            k = "c15_side_false:" + m[4]
            stats[k] = stats.get(k, 0) + 1
            if m[4][:4] != "1111" or m[4][6] != "1":
                stats.setdefault("c15_side_unexpectedly_false_samples", []).append((repr(c.raw)[:200], repr(c.records)[:120]))
            break
    else:
        stats["c15_side_true"] = stats.get("c15_side_true", 0) + 1
    docs = [by_value(m[0]) for m in ms]
    spec_docs = [parse_jv(m[0]) for m in ms]

    def docs_of(m):
        return [d for d, r in zip(spec_docs, c.records) if any(r is x for x in m.records)]

    kc = in_known_class(c, spec_docs)
    stats["known_class:" + (kc or "none")] = stats.get("known_class:" + (kc or "none"), 0) + 1

    # ---- corr:json-text : the writer's lines are the spec documents
    ctx.count("corr:json-text", key, nontrivial=nontriv)
    w = impl_json_write(c.parsed, c.records, c.wut)
    lines = None
    if w[0] == "ok":
        try:
            lines = [json.loads(x) for x in w[1].split("\n")] if w[1] != "" else []
        except ValueError:
            lines = None
    if w[0] != "ok":
        m = minimise(c, lambda m: impl_json_write(m.parsed, m.records, m.wut)[:2] == w[:2])
        ctx.violation("corr:json-text", m.to_json(), impl="json_writer %s %s" % w, model="; ".join(docs)[:1500],
                      signature=classify(m, "json_writer", w[1], docs_of(m)), found_input=True,
                      detail="json_writer raises on conforming records that have a specification JSON encoding")
    elif lines is None or len(lines) != len(c.records):
        ctx.violation("corr:json-text", c.to_json(), impl=w[1][:1500], model="; ".join(docs)[:1500],
                      signature=classify(c, "json_writer", "not-one-document-per-record", spec_docs), found_input=True)
    else:
        for r, doc, line in zip(c.records, docs, lines):
            got = show_doc(line)
            spec = spec_json(line, r, c.parsed, c.named, c.wut)
            if got == doc and spec:
                continue
            m = mk_like(c, [r])
            if not spec:
                loose = spec_json(line, r, c.parsed, c.named, c.wut, convert=False)
                sig = classify(m, "json_writer", "text-is-not-the-spec-encoding", docs_of(m)) if loose else \
                    "C15:json_writer:other:text-is-not-the-spec-encoding"
                ctx.violation("corr:json-text", m.to_json(), impl=got[:1500], model=doc[:1500], signature=sig, found_input=True,
                              detail="independent spec relation rejects the written document" +
                                     (" (numbers written as given, not as values of the schema type)" if loose else ""))
            elif not c.wut and "number-not-converted-to-schema-type" in features_of(m):
                # bare union values: the branch is not observable; the text is the number as given, a spec encoding under another
                # conforming branch than the model's (which branch is C09's business)
                stats["bare_union_number_under_other_branch"] = stats.get("bare_union_number_under_other_branch", 0) + 1
                continue
            else:
                ctx.violation("corr:json-text", m.to_json(), impl=got[:1500], model=doc[:1500], signature="C15:model-differs:json-text",
                              found_input=False, detail="document differs from the model's but satisfies the independent spec relation")
            break

    # ---- corr:json-read : json_reader on the SPEC documents returns the written records
    if not c.wut:
        return
    text = "\n".join(json.dumps(d) for d in spec_docs)
    ctx.count("corr:json-read", key, nontrivial=nontriv)
    rd = impl_json_read(c.parsed, text)
    want = [by_value(m[1]) for m in ms]
    outs = None
    if rd[0] != "ok":
        m = minimise(c, lambda m: impl_json_read(m.parsed, "\n".join(json.dumps(d) for d in docs_of(m)))[:2] == rd[:2])
        ctx.violation("corr:json-read", dict(m.to_json(), text="\n".join(json.dumps(d) for d in docs_of(m))[:1500]),
                      impl="json_reader %s %s" % (rd[0], str(rd[1])[:300]), model="; ".join(want)[:1500],
                      signature=classify(m, "json_reader", rd[1], docs_of(m)),
                      found_input=True, detail="json_reader fails on the specification's JSON encoding of conforming records")
    elif len(rd[1]) != len(c.records):
        ctx.violation("corr:json-read", dict(c.to_json(), text=text[:1500]), impl="json_reader returned %d records" % len(rd[1]),
                      model="; ".join(want)[:1500], signature=classify(c, "json_reader", "record-count-differs", spec_docs), found_input=True)
    else:
        outs = rd[1]
        for r, out, wv in zip(c.records, outs, want):
            got = "R:" + show_val(out)
            holds = value_equiv(r, out, c.parsed, c.named)
            mok, mval = model_value(wv)
            if holds and mok and same_by_value(out, mval):
                continue
            m = mk_like(c, [r])
            if not holds:
                ctx.violation("corr:json-read", m.to_json(), impl=got[:1500], model=wv[:1500],
                              signature=classify(m, "json_reader", "records-differ-from-written", docs_of(m)), found_input=True,
                              detail="json_reader does not return the written record")
            else:
                ctx.violation("corr:json-read", m.to_json(), impl=got[:1500], model=wv[:1500], signature="C15:model-differs:json-read",
                              found_input=False)
            break

    # ---- corr:json-read-foreign : the same spec documents as another encoder may write them: non-ASCII characters raw (among them
    #      U+0085, U+2028, U+2029, which str.splitlines() treats as line boundaries), one document per line, with and without a final newline
    if outs is not None:
        raw_text = "\n".join(json.dumps(d, ensure_ascii=False) for d in spec_docs)
        if raw_text != text:
            ctx.count("corr:json-read-foreign", key, nontrivial=nontriv)
            stats["foreign_with_line_boundary_chars"] = stats.get("foreign_with_line_boundary_chars", 0) + \
                (1 if re.search("[\u0085\u2028\u2029]", raw_text) else 0)
            for variant, t2 in (("raw", raw_text), ("raw+final-newline", raw_text + "\n"), ("raw+compact", "\n".join(
                    json.dumps(d, ensure_ascii=False, separators=(",", ":")) for d in spec_docs))):
                rf = impl_json_read(c.parsed, t2)
                if rf[0] == "ok" and len(rf[1]) == len(outs) and all(same_by_value(a, b) for a, b in zip(rf[1], outs)):
                    continue
                def failsf(m):
                    ds = docs_of(m)
                    x = impl_json_read(m.parsed, "\n".join(json.dumps(d, ensure_ascii=False) for d in ds))
                    y = impl_json_read(m.parsed, "\n".join(json.dumps(d) for d in ds))
                    return not (x[0] == "ok" and y[0] == "ok" and len(x[1]) == len(y[1]) and all(same_by_value(a, b) for a, b in zip(x[1], y[1])))
                m = minimise(c, failsf)
                feat = "raw-line-boundary-character" if re.search("[\u0085\u2028\u2029]", t2) else "raw-non-ascii-text"
                ctx.violation("corr:json-read-foreign", dict(m.to_json(), text=t2[:1500], variant=variant),
                              impl=("json_reader %s %s" % (rf[0], rf[1]))[:600] if rf[0] != "ok" else " | ".join(show_val(x) for x in rf[1])[:1500],
                              model="; ".join(want)[:1500],
                              signature="C15:json_reader:%s:%s" % (feat, rf[1] if rf[0] != "ok" else "records-differ-from-escaped-text"),
                              found_input=True, detail="valid JSON text with unescaped non-ASCII characters (same documents as the escaped "
                              "text, which json_reader reads correctly) is not read back to the written records")
                break

    # ---- corr:json-read-reshaped : record members permuted, plus a member that is no field (C15_members_once)
    if outs is not None:
        try:
            rdocs = [reshape(ctx.rng, d, c.parsed, c.named) for d in spec_docs]
        except (KeyError, TypeError, ValueError, RecursionError):
            rdocs = None
        if rdocs is not None and rdocs != spec_docs:
            ctx.count("corr:json-read-reshaped", key, nontrivial=nontriv)
            rr = impl_json_read(c.parsed, "\n".join(json.dumps(d) for d in rdocs))
            if not (rr[0] == "ok" and len(rr[1]) == len(outs) and all(same_by_value(a, b) for a, b in zip(rr[1], outs))):
                ctx.violation("corr:json-read-reshaped", dict(c.to_json(), text="\n".join(json.dumps(d) for d in rdocs)[:1500]),
                              impl=("json_reader %s %s" % (rr[0], rr[1]))[:600] if rr[0] != "ok" else " | ".join(show_val(x) for x in rr[1])[:1500],
                              model="; ".join(want)[:1500],
                              signature=classify(c, "json_reader", rr[1] if rr[0] != "ok" else "records-differ-from-written", spec_docs)
                              .replace(":other:", ":record-members-permuted-or-extra:"),
                              found_input=True, detail="the same documents with record members permuted and a non-field member added are "
                              "not read back to the same records")

    # ---- corr:json-vs-binary
    ctx.count("corr:json-vs-binary", key, nontrivial=nontriv)
    for m in ms:
        if by_value(m[1]) != "R:" + by_value(m[2]):
            ctx.violation("corr:json-vs-binary", c.to_json(), impl=None, model=(m[1] + " vs " + m[2])[:1500], kind="broken-obligation",
                          signature="C15:model:json-and-binary-round-trips-differ", found_input=False,
                          detail="the MODEL's JSON and binary round trips differ (contradicts C15_binary_agree)")
            break
    b = impl_binary(c.parsed, c.records)
    if outs is not None and b[0] == "ok":
        for r, jo, bo in zip(c.records, outs, b[1]):
            if not same_by_value(jo, bo):
                m = mk_like(c, [r])
                ctx.violation("corr:json-vs-binary", m.to_json(), impl=("json: " + show_val(jo) + " binary: " + show_val(bo))[:1500], model=None,
                              signature=classify(m, "json_reader", "differs-from-binary-decoding", docs_of(m)), found_input=True,
                              detail="records decoded from JSON differ by value from those decoded from the binary encoding")
                break
    elif b[0] != "ok":
        stats["binary_codec_failed"] = stats.get("binary_codec_failed", 0) + 1


def check_nonfinite(ctx, c, stats):
    """NaN / infinity: no spec encoding.  Record what the code does (Python tokens NaN/Infinity, read back by json.loads)."""
    if in_known_class(c):
        return
    w = impl_json_write(c.parsed, c.records, c.wut)
    if w[0] != "ok":
        k = "nonfinite_writer_raised:" + str(w[1])
        stats[k] = stats.get(k, 0) + 1
        return
    if re.search(r"NaN|Infinity", w[1]):
        stats["nonfinite_tokens_written"] = stats.get("nonfinite_tokens_written", 0) + 1
    if c.wut:
        rd = impl_json_read(c.parsed, w[1])
        b = impl_binary(c.parsed, c.records)
        ok = rd[0] == "ok" and b[0] == "ok" and len(rd[1]) == len(b[1]) and all(same_by_value(x, y) for x, y in zip(rd[1], b[1]))
        stats["nonfinite_read_back_equal_binary" if ok else "nonfinite_read_back_differs"] = \
            stats.get("nonfinite_read_back_equal_binary" if ok else "nonfinite_read_back_differs", 0) + 1


# ---------------------------------------------------------------- defaults
def deletions(rng, doc, s, named, path=()):
    """walk the spec document along the schema; returns a list of (path to a record object, field) that can be deleted"""
    out = []
    s = resolve(s, named)
    if isinstance(s, list):
        if doc is None:
            return out
        (lb, x), = doc.items()
        for b in s:
            if label(b, named) == lb and tname(resolve(b, named)) != "null":
                return deletions(rng, x, b, named, path + (lb,))
        return out
    t = s if isinstance(s, str) else s["type"]
    if isinstance(t, (dict, list)):
        return deletions(rng, doc, t, named, path)
    if t == "array":
        for i, x in enumerate(doc):
            out += deletions(rng, x, s["items"], named, path + (i,))
    elif t == "map":
        for k, x in doc.items():
            out += deletions(rng, x, s["values"], named, path + (k,))
    elif t in ("record", "error"):
        for f in s["fields"]:
            if "default" in f:
                out.append((path, f))
            out += deletions(rng, doc[f["name"]], f["type"], named, path + (f["name"],))
    return out


def reshape(rng, doc, s, named):
    """the same document with the members of every RECORD object permuted and a member added that is no field
    (C15_members_once: a record object is read through its field names only)"""
    s = resolve(s, named)
    if isinstance(s, list):
        if doc is None:
            return None
        (lb, x), = doc.items()
        for b in s:
            if label(b, named) == lb and tname(resolve(b, named)) != "null":
                return {lb: reshape(rng, x, b, named)}
        return doc
    t = s if isinstance(s, str) else s["type"]
    if isinstance(t, (dict, list)):
        return reshape(rng, doc, t, named)
    if t == "array":
        return [reshape(rng, x, s["items"], named) for x in doc]
    if t == "map":
        return {k: reshape(rng, x, s["values"], named) for k, x in doc.items()}
    if t in ("record", "error"):
        items = [(f["name"], reshape(rng, doc[f["name"]], f["type"], named)) for f in s["fields"]]
        names = set(f["name"] for f in s["fields"])
        extra = rng.choice(["__no_field__", "zz", "-type", "extra key"])
        if extra not in names:
            items.append((extra, rng.choice([None, 1, "x", [1], {"a": 1}])))
        rng.shuffle(items)
        return dict(items)
    return doc


def get_path(doc, path):
    for p in path:
        doc = doc[p]
    return doc


def out_path(path, s, named):
    """path in the document -> path in the reader's value (union wrappers disappear)"""
    res = []
    i = 0
    while i < len(path):
        s = resolve(s, named)
        if isinstance(s, list):
            for b in s:
                if label(b, named) == path[i]:
                    s = b
                    break
            i += 1
            continue
        t = s["type"]
        if isinstance(t, (dict, list)):
            s = t
            continue
        if t == "array":
            res.append(path[i]); s = s["items"]
        elif t == "map":
            res.append(path[i]); s = s["values"]
        else:
            res.append(path[i]); s = [f for f in s["fields"] if f["name"] == path[i]][0]["type"]
        i += 1
    return res


def fresh(c):
    """a fresh parse of the case's schema (json_reader may consume defaults held in the schema it is given)"""
    import fastavro
    named = {}
    return fastavro.parse_schema(json.loads(json.dumps(c.raw)), named), named


def nested_union_in_default(d, s, named, top=True):
    """the default value contains, below its top level, a value of union type (defaults are not written in wrapped form)"""
    s = resolve(s, named)
    if isinstance(s, list):
        return (not top) or nested_union_in_default(d, s[0], named, top)
    t = s if isinstance(s, str) else s["type"]
    if isinstance(t, (dict, list)):
        return nested_union_in_default(d, t, named, top)
    if t == "array":
        return isinstance(d, list) and any(nested_union_in_default(x, s["items"], named, False) for x in d)
    if t == "map":
        return isinstance(d, dict) and any(nested_union_in_default(x, s["values"], named, False) for x in d.values())
    if t in ("record", "error"):
        return isinstance(d, dict) and any(
            nested_union_in_default(d[f["name"]] if f["name"] in d else f.get("default"), f["type"], named, False) for f in s["fields"])
    return False


def nested_container(d, inside=False):
    """the default holds a list/dict inside a list/dict"""
    if isinstance(d, (list, dict)):
        if inside:
            return True
        return any(nested_container(x, True) for x in (d if isinstance(d, list) else d.values()))
    return False


def repeated_defaults(c, r, doc, done, mval):
    """None when three copies of the document on one reader and a fourth read with the same parsed schema all give the same
    record (equal to the model's reading mval when given, and to the binary decoding of the same data when the deleted keys are
    top-level keys the binary writer can omit); else (which, shown, symptom)"""
    t = json.dumps(apply_deletions(doc, done))
    parsed = fresh(c)[0]
    rd = impl_json_read(parsed, t + "\n" + t + "\n" + t)
    if rd[0] != "ok" or len(rd[1]) != 3:
        return ("three copies", "raised %s" % (rd[1],) if rd[0] != "ok" else "%d records" % len(rd[1]), rd[1] if rd[0] != "ok" else "record-count-differs")
    again = impl_json_read(parsed, t)
    if again[0] != "ok" or len(again[1]) != 1:
        return ("second reader on the same parsed schema", "raised %s" % (again[1],), again[1] if again[0] != "ok" else "record-count-differs")
    outs = rd[1] + again[1]
    shown = " | ".join(show_val(x) for x in outs)
    ref = mval if mval is not None else outs[0]
    for i, o in enumerate(outs):
        if not same_by_value(o, ref):
            first_ok = i > 0 and same_by_value(outs[0], ref)
            return ("record %d of 4 differs from %s" % (i + 1, "the spec default" if mval is not None else "the first"), shown,
                    "default-consumed-by-the-first-record" if first_ok else "value-is-not-the-default")
    # binary decoding of the same data (the datum without the deleted top-level keys)
    if isinstance(r, dict) and all(path == () for path, f in done):
        datum = {k: v for k, v in r.items() if k not in [f["name"] for _, f in done]}
        b = impl_binary(fresh(c)[0], [datum, datum])
        if b[0] == "ok":
            for i, o in enumerate(outs):
                if not same_by_value(o, b[1][i % 2]):
                    return ("record %d of 4 differs from the binary decoding of the same data" % (i + 1),
                            shown + " || binary: " + show_val(b[1][0]), "differs-from-binary-decoding")
    return None


def contains_items(d):
    """the default holds a non-empty list/dict somewhere (json_decoder hands the schema's own object out and consumes it)"""
    if isinstance(d, list):
        return len(d) > 0
    if isinstance(d, dict):
        return len(d) > 0
    return False


def default_feature(f, named):
    """named predicate over the deleted field: what kind of default the reader had to supply"""
    if nested_union_in_default(f["default"], f["type"], named):
        return "default-with-nested-union"
    if isinstance(f["type"], str) and f["type"] not in PRIMS:
        return "default-of-type-given-by-name"
    k = dkind(f["type"], named)
    if k == "union":
        k = "union-of-" + dkind(resolve(f["type"], named)[0], named)
    return "default-of-" + k


def apply_deletions(doc, done):
    doc2 = json.loads(json.dumps(doc))
    for path, f in sorted(done, key=lambda pf: -len(pf[0])):
        del get_path(doc2, path)[f["name"]]
    return doc2


def defaults_outcome(c, doc, done, full_model=None):
    """(status, impl text, expected text, holds?) for one set of deletions, everything on fresh schemas.
    full_model = the model's reading of the complete document: when json_reader misreads even that, the case is left to
    corr:json-read (the expectation below starts from the implementation's reading of the complete document)"""
    parsed, named = fresh(c)
    doc2 = apply_deletions(doc, done)
    full = impl_json_read(fresh(c)[0], json.dumps(doc))
    if full[0] != "ok" or len(full[1]) != 1:
        return ("unreadable", None, None, None, doc2, None)
    if full_model is not None:
        mok, mval = model_value(by_value(full_model))
        if not (mok and same_by_value(full[1][0], mval)):
            return ("unreadable", None, None, None, doc2, None)
    rd = impl_json_read(fresh(c)[0], json.dumps(doc2))
    expect = json_clone(full[1][0])
    try:
        for path, f in sorted(done, key=lambda pf: len(pf[0])):
            o = expect
            for p in out_path(path, parsed, named):
                o = o[p]
            o[f["name"]] = default_py(f["default"], f["type"], named)
    except (KeyError, IndexError, TypeError):
        return ("unreadable", None, None, None, doc2, None)      # the full document is itself misread (corr:json-read reports it)
    if rd[0] != "ok" or len(rd[1]) != 1:
        return ("raised", rd[1] if rd[0] != "ok" else "record-count-differs", show_val(expect), False, doc2, None)
    return ("ok", "R:" + show_val(rd[1][0]), "R:" + show_val(expect), same_by_value(rd[1][0], expect), doc2, rd[1][0])


def check_defaults(ctx, cases, model_by_case, stats):
    """delete defaulted keys from the spec documents; json_reader must return the defaults there and the written values elsewhere"""
    rng = ctx.rng
    jobs = []
    for c in cases:
        ms = model_by_case[id(c)]
        if not c.wut or any(not isinstance(m, tuple) for m in ms):
            continue
        parsed, named = fresh(c)
        for r, m in zip(c.records, ms):
            doc = parse_jv(m[0])
            dels = deletions(rng, doc, parsed, named)
            if not dels:
                continue
            k = rng.choice([1, 1, 2, 3, len(dels)])
            chosen = rng.sample(dels, min(k, len(dels)))
            # a deletion inside an already deleted subtree is dropped
            done = []
            for path, f in sorted(chosen, key=lambda pf: len(pf[0])):
                if not any(tuple(path[:len(p) + 1]) == tuple(p) + (g["name"],) for p, g in done):
                    done.append((path, f))
            jobs.append((c, r, doc, done, m[1]))
            if c.tag == "defaults":                          # all defaulted keys of the top level object(s) at once
                top = [d for d in dels if len(d[0]) == min(len(x[0]) for x in dels)]
                if len(top) > 1 and top != done:
                    jobs.append((c, r, doc, top, m[1]))
            if c.tag == "defaults" or not ctx.quick():       # every defaulted key on its own
                jobs += [(c, r, doc, [d], m[1]) for d in dels[:40] if [d] != done]
            break                                           # one record per case
    exprs = ["run_jread %s %s %s" % (G.env_to_coq(c.named), G.schema_to_coq(fresh(c)[0]), jv_to_coq(apply_deletions(doc, done)))
             for c, r, doc, done, fm in jobs]
    outs = run_model(ctx, exprs, "c15d")
    # the defaults themselves: JSON reading (dflt), the side condition dflt_bin of C15_dflt_elab, the binary writer's elaboration
    dseen, dexprs = {}, []
    for c, r, doc, done, fm in jobs:
        named = fresh(c)[1]
        for path, f in done:
            k = (json.dumps(c.raw, sort_keys=True), json.dumps(f["type"], sort_keys=True), json.dumps(f["default"], sort_keys=True))
            if k not in dseen:
                dseen[k] = len(dexprs)
                dexprs.append("run_dflt %s %s %s" % (G.env_to_coq(named), G.schema_to_coq(f["type"]), G.py_to_coq(f["default"])))
    for k, dm in zip(dseen, run_model(ctx, dexprs, "c15f")):
        g = re.match(r"^A:(.*);B:([01]);E:(.*)$", dm or "")
        ctx.count("corr:dflt-vs-elab", k, nontrivial=True)
        if not g:
            stats["dflt_no_answer"] = stats.get("dflt_no_answer", 0) + 1
            continue
        stats["dflt_bin_" + ("true" if g.group(2) == "1" else "false")] = stats.get("dflt_bin_" + ("true" if g.group(2) == "1" else "false"), 0) + 1
        if g.group(2) == "1" and g.group(1) not in ("E", "FUEL") and g.group(1) != g.group(3):
            ctx.violation("corr:dflt-vs-elab", dict(schema=json.loads(k[0]), field_type=json.loads(k[1]), default=json.loads(k[2])), impl=None,
                          model=dm[:1500], kind="broken-obligation", signature="C15:model:dflt-differs-from-elab-under-dflt_bin", found_input=False,
                          detail="the MODEL's dflt and elab differ although dflt_bin holds (contradicts C15_dflt_elab)")
    twice = 0
    for (c, r, doc, done, fm), mo in zip(jobs, outs):
        st, got, expect, holds, doc2, val = defaults_outcome(c, doc, done, fm)
        if st == "unreadable":
            stats["defaults_skipped_document_unreadable"] = stats.get("defaults_skipped_document_unreadable", 0) + 1
            continue                                        # reported by corr:json-read
        ctx.count("corr:json-defaults", (repr(c.raw), repr(doc2)), nontrivial=True)
        named = fresh(c)[1]
        if not holds:
            # minimise to a single deletion showing the same symptom
            one = done
            for d in done:
                st1, got1, exp1, holds1, doc21, _ = defaults_outcome(c, doc, [d], fm)
                if not holds1 and (st1, got1 if st1 == "raised" else None) == (st, got if st == "raised" else None):
                    one, got, expect, doc2 = [d], got1, exp1, doc21
                    break
            feat = default_feature(one[0][1], named) if len(one) == 1 else "several-defaults"
            case = dict(c.to_json(), records_repr=repr([r]), document=json.dumps(doc2)[:1500],
                        deleted=[[list(map(str, p)), f["name"]] for p, f in one])
            ctx.violation("corr:json-defaults", case, impl=str(got)[:1500], model=(mo or "")[:1500],
                          signature="C15:json_reader:%s:%s" % (feat, got if st == "raised" else "value-is-not-the-default"),
                          found_input=True, detail="json_reader must return the schema default for an absent key; expected " + str(expect)[:600])
            continue
        mok, mval = model_value(mo)
        if not (mok and same_by_value(val, mval)):
            case = dict(c.to_json(), records_repr=repr([r]), document=json.dumps(doc2)[:1500],
                        deleted=[[list(map(str, p)), f["name"]] for p, f in done])
            ctx.violation("corr:json-defaults", case, impl=str(got)[:1500], model=(mo or "")[:1500], signature="C15:model-differs:json-defaults",
                          found_input=False)
            continue
        # the same document three times on one reader, then once more with the SAME parsed schema: every record must get the
        # defaults (json_decoder consumes lists/dicts while iterating: a default must be copied in depth each time it is used);
        # each record is compared with the model's reading (spec dflt) and with the binary decoding of the same data
        twice += 1
        ctx.count("corr:json-defaults-twice", (repr(c.raw), repr(doc2)), nontrivial=True)
        bad = repeated_defaults(c, r, doc, done, mval)
        if bad is not None:
            one, badone = done, bad
            for d in done:
                x = repeated_defaults(c, r, doc, [d], None)
                if x is not None:
                    one, badone = [d], x
                    break
            which, shown, symptom = badone
            nested = any(nested_container(f["default"]) for _, f in one)
            feat = "nested-container-default" if symptom == "default-consumed-by-the-first-record" and nested else \
                "non-empty-array-or-map-default" if symptom == "default-consumed-by-the-first-record" and any(contains_items(f["default"]) for _, f in one) else \
                (default_feature(one[0][1], named) if len(one) == 1 else "several-defaults")
            t = json.dumps(apply_deletions(doc, one))
            case = dict(c.to_json(), records_repr=repr([r, r, r]), document=(t + "\n" + t + "\n" + t)[:1500],
                        deleted=[[list(map(str, p)), f["name"]] for p, f in one])
            ctx.violation("corr:json-defaults-twice", case, impl=shown[:1500], model=(mo or "")[:1500],
                          signature="C15:json_reader:%s:%s" % (feat, symptom), found_input=True,
                          detail="the same document repeatedly on one reader / one parsed schema: " + which)
    stats["default_deletion_jobs"] = len(jobs)


def impl_json_stream(schema, text):
    """iterate json_reader by hand: (number of records yielded, 'end' | 'raised')"""
    import fastavro
    n = 0
    try:
        def go():
            nonlocal n
            for _ in fastavro.json_reader(io.StringIO(text), schema):
                n += 1
        core.with_timeout(go, 30)
        return n, "end"
    except core.Timeout:
        return n, "timeout"
    except BaseException as e:
        if isinstance(e, (KeyboardInterrupt, SystemExit)):
            raise
        return n, "raised"


def check_stream(ctx, cases, model_by_case, stats):
    """corr:json-stream (C15_stream_roundtrip / C15_stream_prefix): a document that does not decode -- an object lacking a key that
    has no default, for a record schema -- is put among the spec documents: json_reader yields the records before it, then raises"""
    rng = ctx.rng
    jobs = []
    for c in cases:
        ms = model_by_case[id(c)]
        if not c.wut or not ms or any(not isinstance(m, tuple) for m in ms) or in_known_class(c):
            continue
        top = resolve(c.parsed, c.named)
        if not (isinstance(top, dict) and top.get("type") in ("record", "error") and any("default" not in f for f in top["fields"])):
            continue
        docs = [parse_jv(m[0]) for m in ms]
        docs = docs + ([docs[0]] if len(docs) < 3 else [])
        k = rng.randrange(len(docs) + 1)
        bad = {f["name"]: docs[0][f["name"]] for f in top["fields"] if "default" in f}          # every key without default missing
        seq = docs[:k] + [bad] + docs[k:]
        if sum(len(json.dumps(d)) for d in seq) > 6000:
            continue
        jobs.append((c, seq, k))
        if len(jobs) >= (150 if ctx.quick() else 3000):
            break
    exprs = ["run_jstream %s %s %s" % (G.env_to_coq(c.named), G.schema_to_coq(c.parsed), G.clist(jv_to_coq(d) for d in seq)) for c, seq, k in jobs]
    outs = run_model(ctx, exprs, "c15s")
    for (c, seq, k), mo in zip(jobs, outs):
        ctx.count("corr:json-stream", (repr(c.raw), repr(seq), k), nontrivial=True)
        n, how = impl_json_stream(c.parsed, "\n".join(json.dumps(d) for d in seq))
        got = "N:%d;%s" % (n, how)
        if got != mo or mo != "N:%d;raised" % k:
            ctx.violation("corr:json-stream", dict(c.to_json(), text="\n".join(json.dumps(d) for d in seq)[:1500], bad_document_index=k),
                          impl=got, model=mo, signature="C15:json_reader:stream-with-undecodable-document:%s" % got.split(";")[1],
                          found_input=(got != "N:%d;raised" % k),
                          detail="json_reader must yield the %d records before the document that lacks a required key, then raise" % k)
    stats["stream_jobs"] = len(jobs)


LARGE_SCHEMAS = [("int", [0, 7, -1, 1 << 30]), ("long", [1 << 40, 5, -(1 << 62)]), ("string", ["", "a", "x\ny", "\u2028"]),
                 (["null", "int"], [None, 3, None, -8]), ("double", [1.5, -0.25, 3.0]),
                 ({"type": "record", "name": "L", "fields": [{"name": "a", "type": "int"}, {"name": "b", "type": ["null", "string"]}]},
                  [{"a": 1, "b": None}, {"a": 2, "b": "two"}, {"a": -3, "b": ""}])]


def check_large(ctx, stats):
    """corr:json-large: MORE records in one json_writer call than any internal batch (1024, 1025, 2048, 2049, 3000 ...): one document
    per line, line i = the spec document of record i, and json_reader returns all of them (cheap schemas; the model is evaluated on
    the few distinct records the long lists cycle through)"""
    rng = ctx.rng
    counts = [1024, 1025, 2048, 2049, 3000] if ctx.quick() else [1023, 1024, 1025, 1026, 2047, 2048, 2049, 3000, 4096, 4097, 10001]
    for raw, base in LARGE_SCHEMAS:
        c0 = mk_case(raw, base, True, "large-count")
        ms = [split_model(m) for m in run_model(ctx, [expr_json(c0, r) for r in base], "c15L")]
        if any(not isinstance(m, tuple) for m in ms):
            stats["large_model_no_answer"] = stats.get("large_model_no_answer", 0) + 1
            continue
        docs = [by_value(m[0]) for m in ms]
        vals = [model_value(by_value(m[1]))[1] for m in ms]
        for n in counts:
            off = rng.randrange(len(base))
            idx = [(off + i) % len(base) for i in range(n)]
            recs = [base[i] for i in idx]
            ctx.count("corr:json-large", (repr(raw), n, off), nontrivial=True)
            w = impl_json_write(c0.parsed, recs, True)
            case = dict(schema=c0.raw, records_repr="[%r[(%d + i) %% %d] for i in range(%d)]" % (base, off, len(base), n),
                        write_union_type=True, tag="large-count", count=n)
            if w[0] != "ok":
                ctx.violation("corr:json-large", case, impl="json_writer %s %s" % w, model="%d documents" % n,
                              signature="C15:json_writer:many-records-in-one-call:%s" % w[1], found_input=True)
                continue
            lines = w[1].split("\n")
            bad = None
            if len(lines) != n:
                bad = "%d lines for %d records" % (len(lines), n)
            else:
                for i, (ln, k) in enumerate(zip(lines, idx)):
                    try:
                        j = json.loads(ln)
                    except ValueError:
                        bad = "line %d is not a JSON document: %r" % (i + 1, ln[:60])
                        break
                    if show_doc(j) != docs[k] or not spec_json(j, base[k], c0.parsed, c0.named, True):
                        bad = "line %d is not the spec document of record %d: %r" % (i + 1, i + 1, ln[:60])
                        break
            if bad:
                ctx.violation("corr:json-large", case, impl=bad, model="%d lines, line i = spec document of record i" % n,
                              signature="C15:json_writer:many-records-in-one-call:text-is-not-one-spec-document-per-line", found_input=True)
                continue
            rd = impl_json_read(c0.parsed, w[1])
            if not (rd[0] == "ok" and len(rd[1]) == n and all(same_by_value(o, vals[k]) for o, k in zip(rd[1], idx))):
                ctx.violation("corr:json-large", case, impl=("json_reader %s %s" % (rd[0], str(rd[1])[:200])), model="%d records" % n,
                              signature="C15:json_reader:many-records-in-one-call:records-differ-from-written", found_input=True)


def dkind(ft, named):
    r = resolve(ft, named)
    if isinstance(r, list):
        return "union"
    t = r if isinstance(r, str) else r["type"]
    return t if isinstance(t, str) else "nested"


def json_clone(v):
    if isinstance(v, list):
        return [json_clone(x) for x in v]
    if isinstance(v, dict):
        return {k: json_clone(x) for k, x in v.items()}
    return v


def run(ctx):
    n = int(os.environ.get("C15_N", "0")) or (3000 if ctx.quick() else 45000)
    cases = gen_cases(ctx, n)
    exprs, owner = [], []
    for c in cases:
        for r in c.records:
            exprs.append(expr_json(c, r))
            owner.append(c)
    raw = run_model(ctx, exprs, "c15")
    by_case = {}
    for c, m in zip(owner, raw):
        by_case.setdefault(id(c), []).append(split_model(m))
    stats = {}
    tags = {}
    for c in cases:
        by_case.setdefault(id(c), [])
        check_case(ctx, c, by_case[id(c)], stats)
        tags[c.tag] = tags.get(c.tag, 0) + 1
    check_defaults(ctx, cases, by_case, stats)
    check_stream(ctx, cases, by_case, stats)
    check_large(ctx, stats)
    ctx.notes["cases_by_family"] = tags
    ctx.notes["records_evaluated_in_model"] = len(exprs)
    tot = max(1, len(cases))
    ctx.notes["share_outside_known_defect_classes"] = round(stats.get("known_class:none", 0) / tot, 4)
    ctx.notes["write_union_type_false_share"] = round(sum(1 for c in cases if not c.wut) / tot, 4)
    ctx.notes.update({k: v for k, v in stats.items()})
    for c in cases[:600:100]:
        m = by_case[id(c)]
        ctx.sample(dict(schema=c.raw, records=repr(c.records)[:200], model=str(m[0])[:200] if m else None, tag=c.tag))


def replay(ctx, rep):
    case = rep["case"]
    c = JCase.from_json(case)
    if rep.get("name", "").startswith("corr:json-defaults") and "deleted" in case:
        sm = split_model(run_model(ctx, [expr_json(c, c.records[0])], "rp")[0])
        doc = parse_jv(sm[0])
        parsed, named = fresh(c)
        dels = deletions(ctx.rng, doc, parsed, named)
        done = [(p, f) for p, f in dels if [list(map(str, p)), f["name"]] in case["deleted"]]
        st, got, expect, holds, doc2, _ = defaults_outcome(c, doc, done, sm[1])
        if st == "unreadable":
            print("json_reader misreads the complete document already (corr:json-read reports that); nothing to check here")
            return True
        t = json.dumps(doc2)
        rd2 = impl_json_read(fresh(c)[0], t + "\n" + t)
        twice = rd2[0] == "ok" and len(rd2[1]) == 2 and same_by_value(rd2[1][0], rd2[1][1])
        print("document      :", t[:500]); print("implementation:", str(got)[:500]); print("expected      :", str(expect)[:500])
        print("same document twice gives equal records:", twice)
        return bool(holds) and twice
    ms = [split_model(m) for m in run_model(ctx, [expr_json(c, r) for r in c.records], "rp")]
    check_case(ctx, c, ms, {})
    for v in ctx.violations:
        print("still:", v["signature"], "|", str(v["impl"])[:300], "|", str(v["model"])[:300])
    return not ctx.violations
