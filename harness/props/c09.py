"""C09 - union branch choice: a conforming branch, hints select exactly the named branch, first conforming
non-record branch (float defers to a later double), most shared field names among records (first on ties);
named-type reporting of the reader; read-with-names then write reproduces the bytes."""
import io
from .. import core, gallina as G, codec_common as CC, unions as U

SRCFACTS = ["ints"]
RULE = ("cases = (schema, datum, disable_tuple_notation, reader options): union-centred schema families (primitive mixes in string "
        "and dict form, numeric mixes with float/double in both orders, 2-4 records with overlapping optional fields, several "
        "enums/fixed with overlapping symbols/sizes, named types sharing a SHORT name across namespaces (records/enums/fixed, inline and by "
        "reference, namespaced before and after the null-namespace one; hints spelled with the full name, the bare name, a wrong "
        "namespace), arrays/maps as branches, records referred to by name from several unions, "
        "hint inside array inside union inside map, recursive types) + random schemas; data: a conforming value for a random branch, "
        "or a dict over a random subset of the record branches' field names (fits several / none), or a number for numeric mixes; "
        "hints: none / (name, value) / '-type' / mixed / named-branches-only, 4 % wrong names; corr:union-index compares the bytes "
        "fastavro wrote (the index is in the bytes) with the model's elaboration; the statement itself is evaluated on fastavro's "
        "bytes with an independent decoder + the Python predicate `conforms`; corr:named-read = schemaless_reader under the 16 "
        "combinations of the four options vs the model; corr:closure = read with return_named_type, write back, same bytes -- "
        "compared only where the statement's clause applies: every union value either sits under a NAMED branch (and came back as a "
        "(name, value) pair) or is a plain value that, as normalised by the reader, re-resolves to the same branch under the statement's "
        "own rule, or for which the boolean side condition closb of theorem C09_closure holds in the model (otherwise counted as n/a: e.g. "
        "a bytearray written as 'bytes' comes back as bytes and fits an earlier fixed); "
        "non-trivial = the schema contains a union with >= 2 branches reached by the datum; distinct by (schema, datum, options)")
TRUSTED = ["the schema reaches the model as the parsed dict fastavro.parse_schema returned (naming is C11's business)",
           "harness/unions.py: independent binary decoder (union indices) and the Python rendering of the statement's rule"]
ASSUMPTIONS = ["recursion limit / memory are not modelled",
               "a validating record branch followed by a validating non-record branch: the statement leaves the choice open "
               "(DESIGN F13, the code takes the later non-record branch); both are accepted by the predicate, the model mirrors the code"]
PARTIAL = ["C09_closure is proved for every well-typed wire value under the boolean side condition closb (named branches: first of their "
           "name, tuple notation on; unnamed branches: the read-back value re-resolves to the same branch; enum index = first occurrence; "
           "distinct map keys / field names) and floats_stable (derived for every written value: C09_closure_written has no float "
           "hypothesis); closb is evaluated in-model on every case and cross-checked against the model's read-then-write (CL) and the "
           "implementation's (corr:closure)",
           "the hypotheses of C01_elab_typed on the input (wf_py, pyfloats_ok, wf_schema/wf_env, dflt/env_floats_ok) are evaluated in-model "
           "on every case; floats_ok of the elaborated value is DERIVED in Rocq (proofs/ElabFloats.v) and still printed as a cross-check"]

ROPT_KEYS = ["return_record_name", "return_record_name_override", "return_named_type", "return_named_type_override"]


def expr(c):
    wo, en, sc, dv = G.wopts(**c.wopts), G.env_to_coq(c.named), G.schema_to_coq(c.parsed), G.py_to_coq(c.datum)
    return '(run_c09 %s %s %s %s %s ++ ";C0:" ++ run_closb0 %s %s %s %s)' % (wo, G.ropts(**c.ropts), en, sc, dv, wo, en, sc, dv)


def parse_model(m):
    """dict with keys A, W, flags, R, CL -- or {'status': 'E'|'U'|'FUEL'}"""
    if m is not None and not m.startswith("A:") and ";C0:" in m:
        m = m.split(";C0:", 1)[0]
    if m is None or not m.startswith("A:"):
        return {"status": m}
    out = {"status": "ok"}
    a, rest = m[2:].split(";W:", 1)
    w, rest = rest.split(";", 1)
    flags, rest = rest.split(";R:", 1)
    r, cl = rest.rsplit(";CL:", 1)
    c0 = "?"
    if ";C0:" in cl:
        cl, c0 = cl.rsplit(";C0:", 1)
    out["C0"] = c0
    cb = "?"
    if ";CB:" in cl:
        cl, cb = cl.rsplit(";CB:", 1)
    if cb.endswith("FSBAD"):             # floats_stable false on a written value: contradicts elab_floats_stable
        out["flags"] = "FSBAD"
        cb = cb[:-5]
    out.update(A=a, W=w, R=r, CL=cl, CB=cb)
    out.setdefault("flags", flags)
    return out


def reaches_union(v, s, named, tn):
    try:
        if isinstance(U.resolve(s, named), list):
            return len(U.resolve(s, named)) >= 2
    except KeyError:
        return False
    s = U.resolve(s, named)
    t = s if isinstance(s, str) else s["type"]
    if t == "array" and isinstance(v, (list, tuple)):
        return any(reaches_union(x, s["items"], named, tn) for x in v)
    if t == "map" and isinstance(v, dict):
        return any(reaches_union(x, s["values"], named, tn) for x in v.values())
    if t in ("record", "error") and isinstance(v, dict):
        return any(reaches_union(v.get(f["name"], f.get("default")), f["type"], named, tn) for f in s["fields"])
    return False


def closure_impl(c, data, force=False):
    """read with return_named_type=True, write the result back: ('same'|'diff'|'raised'|'n/a', detail).
    'n/a': the statement's clause does not cover the value (an unnamed-branch value that, once normalised by the reader,
    re-resolves to another branch under the statement's own rule)"""
    r = CC.impl_read(c.schema_arg(), data, return_named_type=True)
    if r[0] != "ok":
        return "raised", "reader: " + str(r[1])
    try:
        tree, _ = U.decode_tree(c.parsed, c.named, data)
        applicable = U.closure_applicable(r[1], c.parsed, c.named, tree)
    except Exception as e:
        return "raised", "harness: closure_applicable " + type(e).__name__
    if not applicable and not force:          # force: the model's side condition closb of C09_closure holds for this value
        return "n/a", ""
    w = CC.impl_write(c.schema_arg(), r[1], **c.wopts)
    if w[0] != "ok":
        return "raised", "writer on the value read back: " + str(w[1]) + " value=" + repr(r[1])[:300]
    return ("same", "") if w[1] == data else ("diff", w[1].hex()[:400] + " value=" + repr(r[1])[:300])


def check_case(ctx, c, m, stats):
    tn = not c.wopts.get("disable_tuple_notation")
    key = (repr(c.raw), repr(c.datum), tuple(sorted(c.wopts.items())))
    nontriv = reaches_union(c.datum, c.parsed, c.named, tn)
    ctx.count("corr:union-index", key, nontrivial=nontriv)
    pm = parse_model(m)
    w = CC.impl_write(c.schema_arg(), c.datum, **c.wopts)
    if w[0] == "timeout":
        ctx.violation("corr:union-index", c.to_json(), impl="timeout", model=(m or "")[:500], signature="C09:write:timeout", found_input=True)
        return
    impl_t = w[1].hex() if w[0] == "ok" else "E"
    # ---- the statement itself, on the implementation
    holds, why, feat = None, "", ""
    if w[0] == "ok":
        holds, why, feat = U.check_choice(c.datum, c.parsed, c.named, w[1], tn)
        stats["written"] += 1
    else:
        stats["raised"] += 1
        if U.writable_x(c.datum, c.parsed, c.named, tn) and w[1] not in ("OverflowError", "error"):
            holds, why, feat = False, f"writer raised {w[1]} on a datum that conforms to the schema", "raises-on-conforming"
    if holds is False:
        ctx.violation("corr:union-index", c.to_json(), impl=impl_t[:1500], model=(m or "")[:1500],
                      signature="C09:union-choice:%s" % feat, found_input=True, detail=why)
        return
    if pm["status"] == "U":
        ctx.notes["model_unspecified"] = ctx.notes.get("model_unspecified", 0) + 1
        return
    if pm["status"] == "ok" and (pm["flags"] != "fok"):
        ctx.violation("side-condition", c.to_json(), impl=None, model=m[:800], signature="C09:side-condition:" + pm["flags"],
                      found_input=False, kind="broken-obligation",
                      detail="a hypothesis of C01_elab_typed (wf_py / pyfloats_ok / wf_schema / dflt_floats_ok) is false in the model on a generated case, "
                             "or the derived floats_ok fails (FBAD)")
    model_t = pm["W"] if pm["status"] == "ok" else pm["status"]
    if impl_t != model_t:
        ctx.violation("corr:union-index", c.to_json(), impl=impl_t[:1500], model=(m or "")[:1500], signature="C09:model-differs:union-index",
                      found_input=False, detail="bytes differ from the model; the statement's rule holds on the implementation's bytes: " + why)
        return
    if w[0] != "ok":
        return
    # ---- corr:named-read
    ctx.count("corr:named-read", key + (tuple(sorted(c.ropts.items())),), nontrivial=nontriv)
    r = CC.impl_read(c.schema_arg(), w[1], **c.ropts)
    rt = G.show_py(r[1]) if r[0] == "ok" else "E"
    if rt != pm["R"]:
        opts = "named_type" if c.ropts.get("return_named_type") else ("record_name" if c.ropts.get("return_record_name") else "no-reporting-option")
        ctx.violation("corr:named-read", c.to_json(), impl=rt[:1500], model=pm["R"][:1500], signature="C09:named-read:" + opts,
                      found_input=True, detail="value returned by schemaless_reader differs from the model's reader under these options")
    # ---- closb0 (side condition of C01_normal_form_fixed): true => reading without names and writing back gives the same bytes
    c0 = pm.get("C0", "?")
    if c0[:1] in ("0", "1"):
        stats["closb0_total"] = stats.get("closb0_total", 0) + 1
        if c0[0] == "1":
            stats["closb0_true"] = stats.get("closb0_true", 0) + 1
            if c0[1:2] != "s":
                ctx.violation("side-condition", c.to_json(), impl=None, model=c0, signature="C01:normal-form-theorem-contradicted-in-model",
                              found_input=False, kind="broken-obligation", detail="closb0 is true but the model's read-then-write differs")
        elif c0[1:2] == "s":
            stats["closb0_false_but_fixed"] = stats.get("closb0_false_but_fixed", 0) + 1
    # ---- the closure theorem's side condition evaluated in the model: closb => the model's closure holds (C09_closure)
    if pm.get("CB") == "1":
        stats["closb_true"] = stats.get("closb_true", 0) + 1
        if not pm["CL"].startswith("same"):
            ctx.violation("side-condition", c.to_json(), impl=None, model=m[-300:], signature="C09:closure-theorem-contradicted-in-model",
                          found_input=False, kind="broken-obligation", detail="closb is true but the model's read-then-write differs")
    # ---- corr:closure (hints only on named branches, tuple notation enabled)
    mode = c.tag.split(":")[-1]
    if tn and mode in ("none", "type", "named"):
        ctx.count("corr:closure", key, nontrivial=nontriv)
        res, det = closure_impl(c, w[1], force=(pm.get("CB") == "1"))
        stats["closure"] += 1
        if res == "same" and pm.get("CB") == "1":
            stats["closure_same_and_closb"] = stats.get("closure_same_and_closb", 0) + 1
        if res == "n/a" and pm.get("CB") == "1":
            stats["closb_true_but_rule_na"] = stats.get("closb_true_but_rule_na", 0) + 1
        if res == "n/a":
            stats["closure_na"] = stats.get("closure_na", 0) + 1
        elif res != "same":
            ctx.violation("corr:closure", c.to_json(), impl=res + " " + det, model=pm["CL"][:600], signature="C09:closure:" + res,
                          found_input=True, detail="read with return_named_type=True then write back does not reproduce the bytes")
        elif not pm["CL"].startswith("same"):
            ctx.violation("corr:closure", c.to_json(), impl="same", model=pm["CL"][:600], signature="C09:model-differs:closure",
                          found_input=False, detail="closure holds on the implementation but not in the model")


def run(ctx):
    n = 1300 if ctx.quick() else 26000
    fixed_witnesses(ctx)            # documented behaviours first (minimal replays), F13 observation
    wstats = dict(written=0, raised=0, closure=0)
    named_read_witnesses(ctx, wstats)
    cases = U.make_cases(ctx, n)
    rng = ctx.rng
    for c in cases:
        c.ropts = {k: True for k in ROPT_KEYS if rng.random() < 0.4}
    model = U_run(ctx, [expr(c) for c in cases], "c09")
    stats = dict(written=0, raised=0, closure=0)
    modes = {}
    for c, m in zip(cases, model):
        check_case(ctx, c, m, stats)
        modes[c.tag.split(":")[-1]] = modes.get(c.tag.split(":")[-1], 0) + 1
    ctx.notes["hint_modes"] = modes
    ctx.notes["implementation_wrote/raised"] = [stats["written"], stats["raised"]]
    ctx.notes["closure_cases"] = stats["closure"]
    ctx.notes["closure_not_applicable"] = stats.get("closure_na", 0)
    ctx.notes["closb_true(model side condition of C09_closure)"] = stats.get("closb_true", 0)
    ctx.notes["closure_same_with_closb_true"] = stats.get("closure_same_and_closb", 0)
    ctx.notes["closb_true_but_harness_rule_na"] = stats.get("closb_true_but_rule_na", 0)
    ctx.notes["closb0_true/evaluated (C01_normal_form_fixed side condition)"] = [stats.get("closb0_true", 0), stats.get("closb0_total", 0)]
    ctx.notes["closb0_false_but_model_fixed_point_holds"] = stats.get("closb0_false_but_fixed", 0)
    share = stats["raised"] / max(1, len(cases))
    ctx.notes["raise_share"] = round(share, 4)
    if share > 0.3:
        ctx.violation("generator", None, impl=None, model=None, signature="C09:generator:raise-share-above-30-percent",
                      found_input=False, kind="broken-obligation", detail=f"{share:.2f} of the cases raise")
    for c, m in list(zip(cases, model))[:600:120]:
        ctx.sample(dict(schema=c.raw, datum=repr(c.datum)[:200], wopts=c.wopts, ropts=c.ropts, model=(m or "")[:240]))


def U_run(ctx, exprs, tag):
    out = core.coq_eval(exprs, U.IMPORTS, ctx.workdir, tag=tag, shard=120)
    return [G.canon_model_text(x) for x in out]


A = {"type": "record", "name": "A", "fields": [{"name": "x", "type": "int"}, {"name": "y", "type": ["null", "int"], "default": None}]}
B = {"type": "record", "name": "ns.B", "fields": [{"name": "x", "type": "int"}, {"name": "z", "type": ["null", "int"], "default": None},
                                                   {"name": "y", "type": ["null", "int"], "default": None}]}
EV_A = {"type": "record", "name": "Ev", "namespace": "a", "fields": [{"name": "id", "type": "int"}]}
EV_0 = {"type": "record", "name": "Ev", "namespace": "", "fields": [{"name": "id", "type": "int"}]}
EN_A = {"type": "enum", "name": "a.En", "symbols": ["A", "B"]}
EN_0 = {"type": "enum", "name": "En", "symbols": ["A", "B"]}
WITNESSES = [
    # same short name in two namespaces: a hint is matched against the FULL name
    ([EV_A, EV_0], ("Ev", {"id": 5}), 1, "short-name tuple hint selects the null-namespace record (namespaced one listed first)"),
    ([EV_0, EV_A], ("Ev", {"id": 5}), 0, "short-name tuple hint selects the null-namespace record (listed first)"),
    ([EV_0, EV_A], ("a.Ev", {"id": 5}), 1, "full-name tuple hint selects the namespaced record"),
    ([EV_A, "null"], ("Ev", {"id": 5}), None, "short-name tuple hint with only a namespaced record is an error"),
    ([EV_A, EV_0], ("b.Ev", {"id": 5}), None, "tuple hint with a wrong namespace is an error"),
    ([EV_A, EV_0], {"id": 5, "-type": "Ev"}, 1, "short-name -type hint selects the null-namespace record"),
    ([EV_A, EV_0], {"id": 5, "-type": "a.Ev"}, 0, "full-name -type hint selects the namespaced record"),
    ([EV_A, "null"], {"id": 5, "-type": "Ev"}, None, "short-name -type hint with only a namespaced record is an error"),
    ([EN_A, EN_0, "string"], ("En", "A"), 1, "short-name tuple hint selects the null-namespace enum"),
    # a type KEYWORD is not the label of a named branch; Python type names are not labels of unnamed branches
    ([EV_0, "null"], ("record", {"id": 5}), None, "tuple hint 'record' is an error"),
    ([EN_0, "string"], ("enum", "A"), None, "tuple hint 'enum' is an error"),
    ([{"type": "fixed", "name": "Fx", "size": 2}, "bytes"], ("fixed", b"ab"), None, "tuple hint 'fixed' is an error"),
    ([{"type": "array", "items": "int"}, "null"], ("array", [1]), 0, "tuple hint 'array' selects the array branch"),
    ([{"type": "array", "items": "int"}, {"type": "map", "values": "int"}, "string"], ("list", [1]), None, "tuple hint 'list' is an error"),
    ([{"type": "array", "items": "int"}, {"type": "map", "values": "int"}, "string"], ("dict", {"a": 1}), None, "tuple hint 'dict' is an error"),
    (["string", "int"], ("str", "x"), None, "tuple hint 'str' is an error"),
    ([{"type": "fixed", "name": "b.c.Fx", "size": 2}, {"type": "fixed", "name": "Fx", "size": 2}], ("Fx", b"ab"), 1,
     "short-name tuple hint selects the null-namespace fixed"),
    ([A, B, "float", "string", {"type": "double"}], {"x": 1}, 0, "tie: first record"),
    ([A, B, "float", "string", {"type": "double"}], {"x": 1, "z": 2}, 1, "most fields"),
    ([A, B, "float", "string", {"type": "double"}], {"x": 1, "-type": "ns.B"}, 1, "-type hint"),
    ([A, B, "float", "string", {"type": "double"}], 1.0, 4, "float defers to double"),
    ([A, B, "float", "string", {"type": "double"}], ("float", 1), 2, "tuple hint"),
    (["double", "float"], 1.5, 0, "double first"),
    (["float", "long"], 3, 0, "float without later double"),
    (["null", {"type": "array", "items": ["null", A, "string"]}], [("A", {"x": 1}), None, "s", {"x": 2, "-type": "A"}], 1, "nested hints"),
    ([A, {"type": "map", "values": "int"}], {"x": 1}, 1, "F13 observation: record then map, dict fits both -> map"),
    ([A, {"type": "map", "values": ["int", "string"]}], {"x": 1, "-type": "A"}, 0, "TYPEHINT a '-type' hinted record vs a map branch that also fits"),
]


# named types nested INSIDE a type reached by name: the reader options must survive the by-name step
_E = {"type": "enum", "name": "E", "symbols": ["A", "B"]}
_R2 = {"type": "record", "name": "R2", "fields": [{"name": "k", "type": "int"}]}
_R = {"type": "record", "name": "R", "fields": [{"name": "u", "type": ["null", _E, _R2]}]}
NAMED_READ_WITNESSES = [
    # R defined once and used a second time BY NAME
    ({"type": "record", "name": "O1", "fields": [{"name": "a", "type": _R}, {"name": "b", "type": "R"}, {"name": "c", "type": ["null", "R"]}]},
     {"a": {"u": "A"}, "b": {"u": {"k": 1}}, "c": {"u": "B"}}),
    # array items / map values given by name
    ({"type": "record", "name": "O2", "fields": [{"name": "first", "type": _R}, {"name": "rest", "type": {"type": "array", "items": "R"}},
                                                  {"name": "m", "type": {"type": "map", "values": ["null", "R", "E"]}}]},
     {"first": {"u": None}, "rest": [{"u": "B"}, {"u": {"k": 2}}, {"u": None}], "m": {"x": {"u": {"k": 3}}, "y": "A", "z": None}}),
    # a recursive record, three levels deep
    ({"type": "record", "name": "Node", "fields": [{"name": "v", "type": "long"}, {"name": "next", "type": ["null", "Node"]},
                                                    {"name": "u", "type": ["null", {"type": "enum", "name": "NE", "symbols": ["A", "B"]},
                                                                           {"type": "record", "name": "NR", "fields": [{"name": "k", "type": "int"}]}]}]},
     {"v": 1, "u": "A", "next": {"v": 2, "u": {"k": 7}, "next": {"v": 3, "u": "B", "next": None}}}),
]
# "error"-typed records are named types like records: (name, value) with return_named_type, identical bytes on write-back
_ER1 = {"type": "error", "name": "Err1", "fields": [{"name": "m", "type": "string"}]}
_ER2 = {"type": "error", "name": "ns.Err2", "fields": [{"name": "m", "type": "string"}]}
NAMED_READ_WITNESSES_HINTED = [
    ({"type": "record", "name": "O4", "fields": [{"name": "e1", "type": ["null", _ER1, _ER2]}, {"name": "e2", "type": ["null", "ns.Err2"]},
                                                  {"name": "arr", "type": {"type": "array", "items": ["Err1", "ns.Err2", "string"]}}]},
     {"e1": ("ns.Err2", {"m": "x"}), "e2": {"m": "y"}, "arr": [("ns.Err2", {"m": "z"}), "s", ("Err1", {"m": "w"})]}),
    ([_ER1, _ER2], ("ns.Err2", {"m": "x"})),
]
NAMED_READ_OPTS = [{}, {"return_named_type": True}, {"return_record_name": True},
                   {"return_named_type": True, "return_named_type_override": True},
                   {"return_record_name": True, "return_record_name_override": True},
                   {"return_record_name": True, "return_named_type": True},
                   {k: True for k in ROPT_KEYS}]


def named_read_witnesses(ctx, stats):
    """deterministic, first in every run: every reader-option combination on values with named union branches at every level
    below a by-name step; also the closure write-back (mode 'none': no hints in the data)"""
    import fastavro, json
    cs = []
    for raw, datum, mode in [(r, d, "none") for r, d in NAMED_READ_WITNESSES] + [(r, d, "named") for r, d in NAMED_READ_WITNESSES_HINTED]:
        named = {}
        parsed = fastavro.parse_schema(json.loads(json.dumps(raw)), named)
        # "error" records: only the named-type option without overrides (the model has no separate constructor for "error":
        # fastavro's return_record_name and the *_override counting look at "record" only -- observation, not compared)
        opts = NAMED_READ_OPTS if mode == "none" else [{}, {"return_named_type": True}]
        for ro in opts:
            for use_raw in (False, True):
                c = CC.Case()
                c.raw, c.parsed, c.named, c.datum, c.suffix, c.wopts, c.ropts, c.tag, c.use_raw = raw, parsed, named, datum, b"", {}, dict(ro), "witness-named-read:" + mode, use_raw
                cs.append(c)
    model = U_run(ctx, [expr(c) for c in cs], "c09w")
    for c, m in zip(cs, model):
        check_case(ctx, c, m, stats)


def fixed_witnesses(ctx):
    import fastavro, json
    obs = {}
    # observation (outside the statement, see C09_closure_refuted): bytearray under [null, fixed(2), bytes] is written as
    # bytes, read back as a bytes object, which re-resolves to the earlier fixed branch
    c = CC.Case()
    c.raw = ["null", {"type": "fixed", "name": "F", "size": 2}, "bytes"]
    c.named = {}
    c.parsed = fastavro.parse_schema(json.loads(json.dumps(c.raw)), c.named)
    c.datum, c.suffix, c.wopts, c.ropts, c.tag, c.use_raw = bytearray(b"ab"), b"", {}, {}, "witness:none", False
    w = CC.impl_write(c.parsed, c.datum)
    if w[0] == "ok":
        obs["closure_bytearray_under_bytes_after_fixed"] = closure_impl(c, w[1])[0]
    # a '-type' entry naming no record branch of the union is an error even when a map branch would fit
    named = {}
    parsed = fastavro.parse_schema(json.loads(json.dumps([A, {"type": "map", "values": ["int", "string"]}])), named)
    w = CC.impl_write(parsed, {"x": 1, "-type": "B"})
    ctx.count("corr:union-index", ("witness", "type hint names no branch"))
    if w[0] == "ok":
        c = CC.Case()
        c.raw, c.parsed, c.named, c.datum, c.suffix, c.wopts, c.ropts, c.tag, c.use_raw = [A, {"type": "map", "values": ["int", "string"]}], parsed, named, {"x": 1, "-type": "B"}, b"", {}, {}, "witness:none", False
        ctx.violation("corr:union-index", c.to_json(), impl=w[1].hex(), model="E", signature="C09:union-choice:type-hint:no-such-branch-not-an-error",
                      found_input=True, detail="a '-type' hint naming no record branch must be an error")
    for raw, datum, idx, what in WITNESSES:
        named = {}
        parsed = fastavro.parse_schema(json.loads(json.dumps(raw)), named)
        w = CC.impl_write(parsed, datum)
        ctx.count("corr:union-index", ("witness", what))
        got = None
        if w[0] == "ok":
            got, _ = U._long(w[1], 0)
        if what.startswith("F13"):
            obs["F13_record_then_map_index"] = got
            continue
        if got != idx and what.startswith("TYPEHINT"):
            c = CC.Case()
            c.raw, c.parsed, c.named, c.datum, c.suffix, c.wopts, c.ropts, c.tag, c.use_raw = raw, parsed, named, datum, b"", {}, {}, "witness:none", False
            ctx.violation("corr:union-index", c.to_json(), impl=str(got), model=str(idx), signature="C09:union-choice:type-hint:non-record-branch-chosen",
                          found_input=True, detail=what)
        elif got != idx:
            c = CC.Case()
            c.raw, c.parsed, c.named, c.datum, c.suffix, c.wopts, c.ropts, c.tag, c.use_raw = raw, parsed, named, datum, b"", {}, {}, "witness:none", False
            ctx.violation("corr:union-index", c.to_json(), impl=str(got), model=str(idx),
                          signature="C09:union-choice:witness:" + what.replace(" ", "-"), found_input=True, detail=what)
    ctx.notes["observations"] = obs


def replay(ctx, rep):
    c = CC.Case.from_json(rep["case"])
    m = U_run(ctx, [expr(c)], "rp")[0]
    tn = not c.wopts.get("disable_tuple_notation")
    w = CC.impl_write(c.schema_arg(), c.datum, **c.wopts)
    print("implementation:", (w[1].hex() if w[0] == "ok" else "raised " + str(w[1]))[:500])
    print("model         :", (m or "")[:500])
    pm = parse_model(m)
    ok = True
    if w[0] == "ok":
        holds, why, _ = U.check_choice(c.datum, c.parsed, c.named, w[1], tn)
        print("statement on the implementation's bytes:", holds, why)
        ok = bool(holds) and pm["status"] == "ok" and pm["W"] == w[1].hex()
        if ok:
            r = CC.impl_read(c.schema_arg(), w[1], **c.ropts)
            rt = G.show_py(r[1]) if r[0] == "ok" else "E"
            print("reader        :", rt[:300]); print("model reader  :", pm["R"][:300])
            ok = rt == pm["R"]
            if ok and tn and c.tag.split(":")[-1] in ("none", "type", "named"):
                res, det = closure_impl(c, w[1])
                print("closure       :", res, det[:200])
                ok = res in ("same", "n/a")
    else:
        ok = pm["status"] == "E" and not (U.writable_x(c.datum, c.parsed, c.named, tn) and w[1] not in ("OverflowError", "error"))
    return ok
