"""C14 - fingerprints: CRC-64-AVRO and named digests for every text."""
import hashlib, random
from .. import core

SRCFACTS = ["rabin", "leaves_crc"]
RULE = ("texts: all 1-byte texts, 2-byte texts (all 65536 in thorough, a stride sample in quick), random byte-ish and "
        "Unicode texts (BMP + astral), canonical-form-like JSON texts, the empty text; non-trivial = distinct non-empty text; "
        "dispatch: every advertised algorithm name, Java spellings, unknown / near-miss names")
TRUSTED = ["str.encode() (UTF-8) is the standard library's; the model receives the UTF-8 bytes",
           "hashlib digests are the standard library's; the model treats the digest as a Section variable "
           "and only decides WHICH algorithm name is applied to WHICH bytes"]
ASSUMPTIONS = ["variable-length digests (shake_*) are outside the statement (no fixed digest length)"]
PARTIAL = []

IMPORTS = "From Coq Require Import String.\nFrom FA Require Import model.Base model.Rabin.\n"
ADV = None


def impl_fp(text, alg):
    from fastavro.schema import fingerprint
    try:
        return ("ok", core.with_timeout(lambda: fingerprint(text, alg), 10))
    except ValueError:
        return ("ValueError", None)
    except core.Timeout:
        return ("timeout", None)
    except Exception as e:
        return ("other:" + type(e).__name__, None)


def gen_texts(ctx):
    rng = ctx.rng
    texts = [""]
    texts += [chr(i) for i in range(128)]                          # 1-byte texts
    texts += [bytes([i]).decode("latin-1") for i in range(128, 256)]  # 2-byte UTF-8
    if ctx.quick():
        step = 37
        two = [(i // 128, i % 128) for i in range(0, 128 * 128, step)]
    else:
        two = [(a, b) for a in range(128) for b in range(128)]
    texts += [chr(a) + chr(b) for a, b in two]
    n = 1500 if ctx.quick() else 60000
    alphabets = [
        lambda: chr(rng.randrange(32, 127)),
        lambda: chr(rng.randrange(0, 0x800)),
        lambda: chr(rng.choice([rng.randrange(0x800, 0xD800), rng.randrange(0xE000, 0x10000)])),
        lambda: chr(rng.randrange(0x10000, 0x110000)),
        lambda: rng.choice('{}[]",:') + rng.choice(["name", "type", "fields", "record", "int", "symbols"]),
    ]
    for _ in range(n):
        k = rng.choice([1, 2, 3, 5, 8, 13, 40, 120])
        al = rng.choice(alphabets)
        texts.append("".join(al() for _ in range(rng.randrange(1, k + 1))))
    # canonical forms of a few schemas
    texts += ['"int"', '{"name":"a.b.R","type":"record","fields":[{"name":"f","type":["null","long"]}]}',
              '{"name":"E","type":"enum","symbols":["A","B"]}', '{"type":"array","items":{"type":"map","values":"string"}}']
    # texts that are JSON schemas but NOT in canonical form, and texts with outer whitespace: the fingerprint is of the TEXT as given
    texts += ['{"type":"int"}', '{"type": "int"}', ' "int"', '"int" ', '"int"\n', '["null", "int"]', '["null","int"]',
              '{"type":"record","name":"R","fields":[]}', '{"name":"R","type":"record","fields":[]}', '{"name": "R", "type": "record", "fields": []}',
              '{"type":"fixed","size":4,"name":"F"}', '{"name":"F","type":"fixed","size":4}', '{"type":"array","items":{"type":"int"}}', 'null', '{}', '[]', '0']
    texts += ["é" * 4097, "a" * 8193, "\U0001F600" * 700]      # long texts (several KiB of UTF-8)
    return texts


def run(ctx):
    global ADV
    from fastavro._schema_common import FINGERPRINT_ALGORITHMS
    ADV = sorted(FINGERPRINT_ALGORITHMS)
    texts = gen_texts(ctx)
    # ---- corr:rabin
    exprs = ['rabin_hex (hx "%s")' % t.encode().hex() for t in texts]
    model = core.coq_eval(exprs, IMPORTS, ctx.workdir, tag="rabin", shard=400)
    hit = [0] * 256
    for t, m in zip(texts, model):
        r = impl_fp(t, "CRC-64-AVRO")
        ctx.count("corr:rabin", t if t else None, nontrivial=bool(t))
        state = 0xC15D213AA4D7A795
        if r != ("ok", m):
            ctx.violation("corr:rabin", dict(text=t, utf8=t.encode().hex(), algorithm="CRC-64-AVRO"), impl=r, model=m,
                          signature="C14:rabin-value-differs-from-spec")
    # table index coverage, measured on the spec side
    tbl = None
    try:
        tbl = _table()
        for t in texts:
            s = 0xC15D213AA4D7A795
            for b in t.encode():
                i = (s ^ b) & 0xFF
                hit[i] += 1
                s = (s >> 8) ^ tbl[i]
    except Exception:
        pass
    ctx.notes["table_index_hits_min"] = min(hit)
    ctx.notes["table_index_hits_zero"] = sum(1 for h in hit if h == 0)
    for t in texts[:1] + texts[300:303]:
        ctx.sample(dict(text=t, crc64=impl_fp(t, "CRC-64-AVRO")[1]))

    # ---- corr:digest (dispatch)
    names = list(ADV) + ["sha-256", "md5 ", "MD-5", "SHA256", "crc-64-avro", "CRC-64-AVRO ", "", "sha", "Md5", "rabin",
                         "SHA-1", "sha3-256", "blake2", "whirlpool", "é"]
    rng = ctx.rng
    for _ in range(40 if ctx.quick() else 400):
        names.append("".join(rng.choice("abcdefSHAMD5-_0123456789 ") for _ in range(rng.randrange(1, 9))))
    dtexts = ["", "a", '"int"', "héllo \U0001F600", '{"type":"map","values":"long"}', '{"type":"int"}', ' "int" ', '{"name": "R", "type": "record", "fields": []}']
    # long texts whose UTF-8 length differs from their character count (chunked hashing, length confusions): the model decides
    # the dispatch (which algorithm) on the empty text, the digest of the long text is hashlib's / the bit-serial CRC
    ltexts = ["é" * k for k in (4095, 4096, 4097, 8191, 8192, 8193, 20000)] + ["\u20ac" * 5461 + "x", "\U0001F600" * 2049,
                                                                             "a" * 8193, ("ab\u00e9" * 7000)[:16385]]
    cases = [(a, t) for a in names for t in dtexts if all(32 <= ord(c) < 127 for c in a)]
    adv_coq = "[" + "; ".join('"%s"' % a for a in ADV) + "]"
    exprs = []
    for a, t in cases:
        exprs.append('match fingerprint (fun a _ => ("D:" ++ a)%%string) %s "%s" (hx "%s") with Some s => s | None => "ValueError" end'
                     % (adv_coq, a.replace('"', '""'), t.encode().hex()))
    model = core.coq_eval(exprs, IMPORTS, ctx.workdir, tag="disp", shard=400)
    disp = {a: m for (a, t), m in zip(cases, model) if t == ""}
    tbl = _table()
    for a in [x for x in names if x in disp][:len(ADV) + 12]:
        for t in ltexts:
            m = disp[a]
            if m is None or m.startswith("D:shake_"):
                continue
            if m == "ValueError":
                expect = ("ValueError", None)
            elif m.startswith("D:"):
                expect = ("ok", hashlib.new(m[2:], t.encode()).hexdigest())
            else:
                st = 0xC15D213AA4D7A795
                for b in t.encode():
                    st = (st >> 8) ^ tbl[(st ^ b) & 0xFF]
                expect = ("ok", st.to_bytes(8, "little").hex())
            r = impl_fp(t, a)
            ctx.count("corr:digest-long", (a, t))
            if r != expect:
                ctx.violation("corr:digest-long", dict(text=t, algorithm=a), impl=r, model=expect,
                              signature="C14:dispatch:" + ("unknown-name" if m == "ValueError" else "digest-differs-on-long-text"))
    for (a, t), m in zip(cases, model):
        r = impl_fp(t, a)
        ctx.count("corr:digest", (a, t))
        if m == "ValueError":
            expect = ("ValueError", None)
        elif m.startswith("D:"):
            hn = m[2:]
            if hn.startswith("shake_"):
                continue                       # variable-length digest: outside the statement
            try:
                expect = ("ok", hashlib.new(hn, t.encode()).hexdigest())
            except Exception as e:
                expect = ("other:" + type(e).__name__, None)
        else:
            expect = ("ok", m)                # CRC
        if r != expect:
            ctx.violation("corr:digest", dict(text=t, algorithm=a), impl=r, model=expect,
                          signature="C14:dispatch:" + ("unknown-name" if m == "ValueError" else "digest-differs"))
    # non-ASCII unknown names go to the implementation only (model strings are ASCII): must raise ValueError
    for a in [n for n in names if not all(32 <= ord(c) < 127 for c in n)]:
        r = impl_fp("x", a)
        ctx.count("corr:digest", (a, "x"))
        if r[0] != "ValueError":
            ctx.violation("corr:digest", dict(text="x", algorithm=a), impl=r, model="ValueError",
                          signature="C14:dispatch:unknown-name")
    ctx.sample(dict(algorithm="MD5", text='"int"', result=impl_fp('"int"', "MD5")[1]))
    ctx.sample(dict(algorithm="sha-256", text='"int"', result=impl_fp('"int"', "sha-256")[0]))
    ctx.exhaustive = False
    ctx.notes["one_byte_texts_exhaustive"] = True
    ctx.notes["two_byte_ascii_texts"] = "all 16384" if not ctx.quick() else "stride 37 sample"


def _table():
    t = []
    for i in range(256):
        fp = i
        for _ in range(8):
            fp = (fp >> 1) ^ (0xC15D213AA4D7A795 & -(fp & 1))
        t.append(fp)
    return t


def replay(ctx, rep):
    c = rep["case"]
    r = impl_fp(c["text"], c["algorithm"])
    if c["algorithm"] == "CRC-64-AVRO":
        m = core.coq_eval(['rabin_hex (hx "%s")' % c["text"].encode().hex()], IMPORTS, ctx.workdir, tag="rp")[0]
        print("implementation:", r, "specification (model):", m)
        return r == ("ok", m)
    print("implementation:", r, "expected:", rep["model"])
    exp = rep["model"]
    return list(r) == list(exp) if isinstance(exp, (list, tuple)) else r[0] == exp
