"""Implementation-side worker for C18.  Runs in its own interpreter with PYTHONPATH=<repo under test>.

  c18_worker.py <job.pkl> <out.json>

job["mode"]:
  footprint  run each op once, report which global cells changed
  count      run each thread's ops alone under the instrumented decimal context: sequential results and the
             number of instrumented shared-access points each thread passes
  forced     for every given schedule run the threads under the scheduler: thread i proceeds from one
             instrumented point to the next only when the schedule says so
  stress     N threads, sys.setswitchinterval(1e-6), mixed operations, compare with sequential results
No file of the tree under test is edited: fastavro._logical_readers_py.decimal_context is REPLACED from the outside by
a decimal.Context subclass whose prec setter / create_decimal / (the Decimal it returns).scaleb call the scheduler.
"""
import decimal, json, os, pickle, sys, threading, time

sys.path.insert(0, os.path.dirname(os.path.abspath(__file__)))
import c17_worker as W          # noqa: E402  (canonical forms, snapshot, exec_call)


class Deadlock(Exception):
    pass


class Sched:
    """one thread at a time: a thread blocks at every instrumented point until the driver gives it the turn"""
    def __init__(self):
        self.cv = threading.Condition()
        self.active = False
        self.tids = {}             # thread ident -> index
        self.waiting = {}          # index -> point kind
        self.done = set()
        self.turn = None
        self.trace = []
        self.counting = None       # list to append point kinds to (sequential dry run)
        self.free = None           # index of a thread that currently runs to completion without stopping at points

    def point(self, kind):
        if self.counting is not None:
            self.counting.append(kind)
        if not self.active:
            return
        tid = self.tids.get(threading.get_ident())
        if tid is None or self.free == tid:
            return
        with self.cv:
            self.waiting[tid] = kind
            self.cv.notify_all()
            t0 = time.time()
            while self.turn != tid:
                self.cv.wait(0.5)
                if time.time() - t0 > 20:
                    raise Deadlock("thread %d starved at %s" % (tid, kind))
            self.turn = None
            del self.waiting[tid]
            self.trace.append([tid, kind])
            self.cv.notify_all()

    def finish(self, tid):
        with self.cv:
            self.done.add(tid)
            self.cv.notify_all()

    def _wait(self, pred):
        t0 = time.time()
        while not pred():
            self.cv.wait(0.5)
            if time.time() - t0 > 20:
                raise Deadlock("driver: %r waiting=%r done=%r" % (self.turn, self.waiting, self.done))

    def drive(self, schedule, n, patience=0.3):
        """Returns (unused entries, infeasible).  A released thread that does not come back to an instrumented point
        within `patience` seconds is taken to be blocked on something the implementation itself synchronises on (a lock
        around the shared context): entries naming a blocked thread are skipped and the run is marked infeasible - it is
        still a legal execution, only not the requested one."""
        unused, infeasible = 0, False

        def ready(i):
            return i in self.waiting or i in self.done

        with self.cv:
            t0 = time.time()
            while not all(ready(i) for i in range(n)):
                self.cv.wait(0.05)
                if time.time() - t0 > patience and any(ready(i) for i in range(n)):
                    infeasible = True                   # some thread is blocked before its first instrumented point
                    break
                if time.time() - t0 > 20:
                    raise Deadlock("driver: no thread reached a point or finished")
            order = list(schedule)
            k = 0
            while True:
                run_out = False
                if k < len(order):
                    tid = order[k]
                    k += 1
                    if tid < 0:                         # entry -(i+1): thread i runs to completion from where it stands
                        tid, run_out = -tid - 1, True
                else:                                   # schedule exhausted: drain in index order
                    rest = [i for i in range(n) if i not in self.done]
                    if not rest:
                        break
                    cand = [i for i in rest if i in self.waiting]
                    if not cand:
                        self._wait(lambda: any(ready(i) for i in rest))
                        continue
                    tid = cand[0]
                if tid in self.done:
                    unused += 1
                    continue
                if tid not in self.waiting:             # blocked inside the implementation: cannot run now
                    infeasible = True
                    continue
                if run_out:
                    self.free = tid
                self.turn = tid
                self.cv.notify_all()
                self._wait(lambda: self.turn is None)
                if run_out:
                    t0 = time.time()
                    while tid not in self.done:
                        self.cv.wait(0.05)
                        if time.time() - t0 > 120:
                            raise Deadlock("thread %d did not finish its free run" % tid)
                    self.free = None
                    continue
                t0 = time.time()
                while not ready(tid):
                    self.cv.wait(0.05)
                    if time.time() - t0 > patience:
                        infeasible = True
                        break
        return unused, infeasible


SCHED = Sched()


class HookedDecimal(decimal.Decimal):
    def scaleb(self, other, context=None):
        if isinstance(context, HookedContext):
            SCHED.point("scaleb")
        return decimal.Decimal.scaleb(decimal.Decimal(self), other, context)


class HookedContext(decimal.Context):
    def __setattr__(self, name, value):
        if name == "prec":
            SCHED.point("set")                           # the store happens when the thread is released
        decimal.Context.__setattr__(self, name, value)

    def create_decimal(self, *a, **kw):
        SCHED.point("create")
        return HookedDecimal(decimal.Context.create_decimal(self, *a, **kw))

    def copy(self):
        SCHED.point("copy")
        return decimal.Context.copy(self)


class HookedList(list):
    """placed by the harness in DATA it hands in (the "fields" list of a shared parsed reader schema): every step of an
    iteration over it is an instrumented point"""
    def __iter__(self):
        it = list.__iter__(self)
        while True:
            SCHED.point("fields")
            try:
                x = next(it)
            except StopIteration:
                return
            yield x


def install():
    """fresh instrumented context (prec 28, no flags); False when the module has no module-level context"""
    import fastavro._logical_readers_py as LR
    if not isinstance(getattr(LR, "decimal_context", None), decimal.Context):
        return False
    LR.decimal_context = HookedContext()
    return True


def plain(res):
    """HookedDecimal never escapes (scaleb returns a plain Decimal); results are canonical strings already"""
    return res


def run_ops(ops, slots):
    out = []
    for c in ops:
        if c["api"] == "mutate":                 # harness-side: the caller edits its own datum object
            W.mutate(c)
            out.append(dict(st="ok", val="None", extra=None))
            continue
        rc = W.resolve(c, slots)
        res, obj = W.exec_call(rc)
        if "$out" in c:
            slots[c["$out"]] = obj
        out.append(res)
    return out


def setup_slots(setup):
    slots = {}
    for c in setup:
        if c["api"] == "new_dict":
            slots[c["$out"]] = {}
        else:
            hook = c.get("$hook_fields")
            run_ops([{k: v for k, v in c.items() if k != "$hook_fields"}], slots)
            if hook and isinstance(slots.get(c["$out"]), dict) and "fields" in slots[c["$out"]]:
                slots[c["$out"]]["fields"] = HookedList(slots[c["$out"]]["fields"])
    return slots


def mode_footprint(job):
    W.fa_modules()
    slots = setup_slots(job["setup"])
    out = []
    snap = W.snapshot()
    for c in job["ops"]:
        before = W.ctx_cells()
        if c["api"] == "new_dict":
            slots[c["$out"]] = {}
            out.append(dict(api="new_dict", st="ok", changed=[], ctx_before=before, ctx=before))
            continue
        res = run_ops([c], slots)[0]
        snap2 = W.snapshot()
        out.append(dict(api=c["api"], st=res["st"], changed=[x[0] for x in W.snap_diff(snap, snap2)], ctx_before=before, ctx=W.ctx_cells()))
        snap = snap2
    return dict(ops=out)


def mode_count(job):
    TRACE.update(tuple(x) for x in job.get("trace", []))
    TRACE_CALLS.update(tuple(x) for x in job.get("trace_calls", []))
    if job.get("recursion_limit"):
        sys.setrecursionlimit(job["recursion_limit"])
    slots = setup_slots(job["setup"])
    has_ctx = install()
    seq, counts = [], []
    for ops in job["threads"]:
        if job.get("fresh_setup"):
            slots = setup_slots(job["setup"])        # every thread's points are counted at FIRST use of the shared objects
            install()
        pts = []
        SCHED.counting = pts
        if TRACE or TRACE_CALLS:
            sys.settrace(tracer)
        try:
            seq.append(run_ops(ops, slots))
        finally:
            sys.settrace(None)
        SCHED.counting = None
        counts.append(pts)
    return dict(has_module_context=has_ctx, sequential=seq, points=counts)


TRACE = set()          # {(file basename, function name or "*")}: every LINE of these functions is an instrumented point
TRACE_CALLS = set()    # {(file basename, function name)}: every CALL of these functions is an instrumented point


def tracer(frame, event, arg):
    """sys.settrace hook (installed in the worker threads only): line-level switch points inside the selected functions
    of the tree under test - instrumentation from the outside, no file is edited"""
    if event != "call":
        return None
    co = frame.f_code
    base = os.path.basename(co.co_filename)
    if (base, co.co_name) in TRACE_CALLS:
        SCHED.point("call:" + co.co_name)
        return None
    if (base, co.co_name) not in TRACE and (base, "*") not in TRACE:
        return None
    name = co.co_name

    def local(frame, event, arg):
        if event == "line":
            SCHED.point("%s:%d" % (name, frame.f_lineno))
        return local
    return local


def run_threads(threads_ops, slots, schedule):
    n = len(threads_ops)
    results = [None] * n
    errors = [None] * n
    SCHED.__init__()
    SCHED.active = True

    def body(i):
        SCHED.tids[threading.get_ident()] = i
        if TRACE or TRACE_CALLS:
            sys.settrace(tracer)
        try:
            results[i] = run_ops(threads_ops[i], slots)
        except BaseException as e:          # scheduler failure, not an API exception (those are inside results)
            errors[i] = "%s: %s" % (type(e).__name__, e)
        finally:
            SCHED.finish(i)

    ths = [threading.Thread(target=body, args=(i,), daemon=True) for i in range(n)]
    for t in ths:
        t.start()
    try:
        unused, infeasible = SCHED.drive(schedule, n)
    finally:
        SCHED.active = False
        with SCHED.cv:
            SCHED.turn = None
    for t in ths:
        t.join(20)
    return results, errors, list(SCHED.trace), unused, infeasible


def one_schedule(job, slots, sch):
    if job.get("fresh_setup"):
        slots = setup_slots(job["setup"])        # new shared objects: every schedule meets them for the first time
    install()
    results, errors, trace, unused, infeasible = run_threads(job["threads"], slots, sch)
    return dict(schedule=sch, results=results, errors=errors, trace=trace, unused=unused, infeasible=infeasible,
                ctx=W.ctx_cells())


def mode_forced(job):
    TRACE.update(tuple(x) for x in job.get("trace", []))
    TRACE_CALLS.update(tuple(x) for x in job.get("trace_calls", []))
    if job.get("recursion_limit"):
        sys.setrecursionlimit(job["recursion_limit"])
        threading.stack_size(64 * 1024 * 1024)
    slots = setup_slots(job["setup"])
    out = []
    for sch in job["schedules"]:
        if not job.get("isolate"):
            out.append(one_schedule(job, slots, sch))
            continue
        # every schedule in a forked copy of this interpreter: module-level state a schedule leaves behind (a torn
        # cache) cannot reach the next schedule; forked from the main thread while no other thread is alive
        r, w = os.pipe()
        pid = os.fork()
        if pid == 0:
            code = 0
            try:
                os.close(r)
                data = json.dumps(one_schedule(job, slots, sch)).encode()
                with os.fdopen(w, "wb") as fh:
                    fh.write(data)
            except BaseException as e:
                code = 1
                try:
                    sys.stderr.write("child: %s %s\n" % (type(e).__name__, e))
                except Exception:
                    pass
            os._exit(code)
        os.close(w)
        with os.fdopen(r, "rb") as fh:
            data = fh.read()
        os.waitpid(pid, 0)
        if data:
            out.append(json.loads(data.decode()))
        else:
            out.append(dict(schedule=sch, results=[[{"st": "harness", "val": "child died", "extra": None}]] * len(job["threads"]),
                            errors=["forked child produced no result"], trace=[], unused=0, infeasible=False, ctx=None))
    return dict(runs=out)


def mode_stress(job):
    slots = setup_slots(job["setup"])
    threads_ops = job["threads"]
    expected = [run_ops(ops, slots) for ops in threads_ops]        # sequential, one after the other
    again = [run_ops(ops, slots) for ops in threads_ops]
    unstable = [[i, k] for i, (a, b) in enumerate(zip(expected, again)) for k, (x, y) in enumerate(zip(a, b)) if x != y]
    old = sys.getswitchinterval()
    stop = time.time() + job["seconds"]
    mism, iters, errors = [], [0] * len(threads_ops), []
    lock = threading.Lock()

    def body(i):
        ops = threads_ops[i]
        try:
            while time.time() < stop and len(mism) < 50:
                for k, c in enumerate(ops):
                    res = run_ops([c], slots)[0]
                    if res != expected[i][k] and [i, k] not in unstable:
                        with lock:
                            mism.append(dict(thread=i, op=k, api=c["api"], expected=expected[i][k], got=res))
                iters[i] += 1
        except BaseException as e:
            errors.append("%d %s: %s" % (i, type(e).__name__, e))

    sys.setswitchinterval(1e-6)
    try:
        ths = [threading.Thread(target=body, args=(i,), daemon=True) for i in range(len(threads_ops))]
        for t in ths:
            t.start()
        for t in ths:
            t.join(job["seconds"] + 60)
    finally:
        sys.setswitchinterval(old)
    return dict(mismatches=mism[:20], n_mismatches=len(mism), iterations=iters, errors=errors, unstable=unstable,
                ops_per_thread=[len(o) for o in threads_ops])


def mode_firstuse(job):
    """threads released together by a barrier read with ONE parsed reader schema that none of them has used before
    (a new parsed object every round), each on its own stream"""
    import fastavro, io
    w = fastavro.parse_schema(job["writer_schema"])
    n = len(job["payloads"])

    def read(i, r):
        return W.outcome(lambda: fastavro.schemaless_reader(io.BytesIO(job["payloads"][i]), w, r))

    ref = fastavro.parse_schema(pickle.loads(pickle.dumps(job["reader_schema"])))
    expected = [read(i, ref) for i in range(n)]
    mism, rounds = [], 0
    old = sys.getswitchinterval()
    sys.setswitchinterval(1e-6)
    stop = time.time() + job["seconds"]
    try:
        while time.time() < stop and not mism:
            rounds += 1
            r = fastavro.parse_schema(pickle.loads(pickle.dumps(job["reader_schema"])))
            res = [None] * n
            barrier = threading.Barrier(n)

            def body(i):
                barrier.wait()
                res[i] = read(i, r)
            ths = [threading.Thread(target=body, args=(i,), daemon=True) for i in range(n)]
            for t in ths:
                t.start()
            for t in ths:
                t.join(30)
            for i in range(n):
                if res[i] != expected[i]:
                    mism.append(dict(round=rounds, thread=i, expected=expected[i], got=res[i]))
    finally:
        sys.setswitchinterval(old)
    return dict(rounds=rounds, mismatches=mism[:5], n_mismatches=len(mism), sequential_ok=all(e["st"] == "ok" for e in expected))


def main():
    with open(sys.argv[1], "rb") as fh:
        job = pickle.load(fh)
    r = dict(footprint=mode_footprint, count=mode_count, forced=mode_forced, stress=mode_stress,
             firstuse=mode_firstuse)[job["mode"]](job)
    with open(sys.argv[2], "w") as fh:
        json.dump(r, fh)


if __name__ == "__main__":
    main()
