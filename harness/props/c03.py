"""C03 - the decoder accepts every spec-valid encoding (any block partition, negative counts + byte size),
both when reading and when skipping; bad union/enum indices and short input raise."""
import json
import io, itertools
from .. import core, gallina as G, codec_common as CC, gen

SRCFACTS = ["leaves_dec"]
RULE = ("layouts = typed values generated top-down from random schemas with every array/map split into random blocks (all compositions of "
        "n<=4 (quick) / n<=6 (thorough) items for array<long>, both count forms, correct / arbitrary announced byte sizes, duplicate map keys "
        "across blocks); bytes produced by the MODEL's layout encoder and fed to fastavro; corr:skip = same bytes as a writer-only field; "
        "corr:bad-index = one union/enum index replaced by each of {-3,-2,-1,n,n+1,2^31,-2^63}; corr:prefix = every proper prefix of every "
        "encoding <= 200 bytes; non-trivial = layout contains a block or a union/record node")
TRUSTED = ["the model's layout encoder wire_l is the specification of 'spec-valid encoding' (theorem C03_accepts quantifies over all of its outputs)"]
ASSUMPTIONS = ["counts beyond ~10^5 zero-byte items are not generated (the code loops; the model would run out of fuel)"]
PARTIAL = []

BAD = [-3, -2, -1, None, "n+1", 1 << 31, -(1 << 63)]


def zz(n):
    n = (n << 1) ^ (n >> 63)
    out = bytearray()
    while n & ~0x7F:
        out.append((n & 0x7F) | 0x80)
        n >>= 7
    out.append(n)
    return bytes(out)


class LayoutGen:
    """top-down typed value generator with explicit layout; returns a Gallina lval term"""

    def __init__(self, rng, named, poison=None, max_depth=4):
        self.rng, self.named, self.max_depth = rng, named, max_depth
        self.poison = poison          # (k, badspec): corrupt the k-th index node
        self.index_nodes = 0
        self.blocks = 0

    def idx(self, n, good):
        k = self.index_nodes
        self.index_nodes += 1
        if self.poison and self.poison[0] == k:
            b = self.poison[1]
            return n if b is None else (n + 1 if b == "n+1" else b)
        return good

    def partition(self, items):
        rng = self.rng
        out, i = [], 0
        while i < len(items):
            k = rng.randrange(1, len(items) - i + 1) if rng.random() < 0.7 else len(items) - i
            out.append(items[i:i + k])
            i += k
        return out

    def block(self, terms, pair=False):
        rng = self.rng
        self.blocks += 1
        neg = rng.random() < 0.5
        sz = rng.choice([0, 1, 7, 1000, (1 << 62), -5]) if rng.random() < 0.5 else len(terms)
        return "(%s, %s, %s)" % ("true" if neg else "false", G.zlit(sz), G.clist(terms))

    def gen(self, s, depth=0):
        rng = self.rng
        if isinstance(s, str) and s not in gen.PRIMS:
            return self.gen(self.named[s], depth)
        if isinstance(s, list):
            order = list(range(len(s)))
            rng.shuffle(order)
            if depth >= self.max_depth:
                order.sort(key=lambda i: 0 if s[i] == "null" else (1 if isinstance(s[i], str) and s[i] in gen.PRIMS else 2))
            i = order[0]
            sub = self.gen(s[i], depth + 1)
            return "(LUnion %s %s)" % (G.zlit(self.idx(len(s), i)), sub)
        t = s if isinstance(s, str) else s["type"]
        if depth > self.max_depth + 8:
            raise gen.TooDeep()
        if t == "null":
            return "(LLeaf ANull)"
        if t == "boolean":
            return "(LLeaf (ABool %s))" % rng.choice(["true", "false"])
        if t == "int":
            c = [x for x in gen.INT_BOUNDS if -(1 << 31) <= x < (1 << 31)]
            return "(LLeaf (AInt %s))" % G.zlit(rng.choice(c))
        if t == "long":
            c = [x for x in gen.INT_BOUNDS if -(1 << 63) <= x < (1 << 63)]
            return "(LLeaf (AInt %s))" % G.zlit(rng.choice(c) if rng.random() < 0.7 else rng.randrange(-(1 << 63), 1 << 63))
        if t == "float":
            return "(LLeaf (AFloat %d))" % rng.choice(gen.F32_BITS + [rng.getrandbits(32)])
        if t == "double":
            return "(LLeaf (ADouble %d))" % rng.choice(gen.F64_BITS + [rng.getrandbits(64)])
        if t == "bytes":
            return "(LLeaf (ABytes %s))" % G.hx(bytes(rng.randrange(256) for _ in range(rng.choice([0, 1, 3, 64]))))
        if t == "string":
            return "(LLeaf (AString %s))" % G.cstr(rng.choice(["", "a", "héllo", "\U0001F600x", "k" * 64]))
        if t == "fixed":
            return "(LLeaf (AFixed %s))" % G.hx(bytes(rng.randrange(256) for _ in range(s["size"])))
        if t == "enum":
            return "(LLeaf (AEnum %s))" % G.zlit(self.idx(len(s["symbols"]), rng.randrange(len(s["symbols"]))))
        if t == "array":
            n = 0 if depth >= self.max_depth else rng.choice([0, 1, 2, 3, 4, 5, 6, 9])
            items = [self.gen(s["items"], depth + 1) for _ in range(n)]
            return "(LArray %s)" % G.clist(self.block(b) for b in self.partition(items))
        if t == "map":
            n = 0 if depth >= self.max_depth else rng.choice([0, 1, 2, 3, 4, 6])
            items = []
            for i in range(n):
                k = rng.choice(["k", "é", ""]) + (str(i) if rng.random() < 0.9 else "0")
                items.append("(%s, %s)" % (G.cstr(k), self.gen(s["values"], depth + 1)))
            return "(LMap %s)" % G.clist(self.block(b, True) for b in self.partition(items))
        if t in ("record", "error"):
            return "(LRecord %s)" % G.clist(self.gen(f["type"], depth + 1) for f in s["fields"])
        raise ValueError(t)


def parse_model(m):
    """'W:<hex>;<read text>' -> (bytes, read text)"""
    if not m or not m.startswith("W:"):
        return None, m
    h, r = m[2:].split(";", 1)
    return bytes.fromhex(h), r


def impl_read_text(schema, data, reader_schema=None):
    r = CC.impl_read(schema, data, reader_schema)
    if r[0] == "ok":
        return "R:" + G.show_py(r[1]) + "|" + str(len(data) - r[2])
    return "E" if r[0] == "raised" else "TIMEOUT"


def cosmetic_reader(raw):
    """a reader schema that differs from the writer only cosmetically (doc attributes; an enum default where there was none):
    reading goes through schema resolution, the value and every rejection must be the same"""
    changed = [False]

    def walk(x):
        if isinstance(x, list):
            return [walk(b) for b in x]
        if isinstance(x, dict):
            y = {k: (walk(v) if k in ("type", "items", "values") and not isinstance(v, str) else v) for k, v in x.items()}
            if x.get("type") in ("record", "error"):
                y["fields"] = [dict(f, type=walk(f["type"])) for f in x["fields"]]
                y["doc"] = "reader side"; changed[0] = True
            elif x.get("type") == "enum":
                y.setdefault("default", x["symbols"][0]); y["doc"] = "reader side"; changed[0] = True
            elif x.get("type") == "fixed":
                y["doc"] = "reader side"; changed[0] = True
            return y
        return x
    r = walk(json.loads(json.dumps(raw)))
    return r if changed[0] else None


def skip_schemas(raw):
    w = {"type": "record", "name": "SkipW", "fields": [{"name": "a", "type": raw}, {"name": "b", "type": "long"}]}
    r = {"type": "record", "name": "SkipW", "fields": [{"name": "b", "type": "long"}]}
    return w, r


def run(ctx):
    import fastavro
    rng = ctx.rng
    quick = ctx.quick()
    # ---- schemas
    pool = []
    for fs in CC.FIXED_SCHEMAS:
        named = {}
        pool.append((fs, fastavro.parse_schema(fs, named), named))
    target = 120 if quick else 2500
    while len(pool) < target:
        try:
            pool.append(CC.make_schema(rng))
        except Exception:
            continue
    jobs = []       # (kind, raw, parsed, named, lterm, suffix, poison)
    # exhaustive small scope: array<long> with n items, every composition, both forms
    nmax = 4 if quick else 6
    named0 = {}
    arr = fastavro.parse_schema({"type": "array", "items": "long"}, named0)
    for n in range(0, nmax + 1):
        for cuts in itertools.product([0, 1], repeat=max(0, n - 1)):
            parts, cur = [], [0]
            for i, c in enumerate(cuts):
                if c:
                    parts.append(cur); cur = []
                cur.append(i + 1)
            if n:
                parts.append(cur)
            for forms in itertools.product([0, 1], repeat=len(parts)):
                bl = ["(%s, %d, %s)" % ("true" if fm else "false", 3 * len(p), G.clist("(LLeaf (AInt %d))" % (100 + j) for j in p))
                      for p, fm in zip(parts, forms)]
                jobs.append(("valid", {"type": "array", "items": "long"}, arr, named0, "(LArray %s)" % G.clist(bl), b"", None))
    ctx.notes["exhaustive_compositions_upto_items"] = nmax
    n_exh = len(jobs)
    # random layouts
    for raw, parsed, named in pool:
        for _ in range(2 if quick else 4):
            try:
                g = LayoutGen(rng, named)
                lt = g.gen(parsed)
            except (gen.TooDeep, RecursionError):
                continue
            suffix = bytes(rng.randrange(256) for _ in range(rng.choice([0, 0, 2, 5])))
            jobs.append(("valid", raw, parsed, named, lt, suffix, None))
            # poisoned copies: corrupt one index node
            if g.index_nodes:
                for bad in (BAD if not quick else rng.sample(BAD, 3)):
                    k = rng.randrange(g.index_nodes)
                    st = rng.getstate()
                    try:
                        lt2 = LayoutGen(rng, named, poison=(k, bad)).gen(parsed)
                    except (gen.TooDeep, RecursionError):
                        continue
                    jobs.append(("bad-index", raw, parsed, named, lt2, b"", (k, bad)))
    exprs = ["run_layout %s %s %s %s %s" % (G.ropts(), G.env_to_coq(j[3]), G.schema_to_coq(j[2]), j[4], G.hx(j[5])) for j in jobs]
    model = CC.run_model(ctx, exprs, "c03")
    skip_jobs, prefix_jobs = [], []
    for idx, (j, m) in enumerate(zip(jobs, model)):
        kind, raw, parsed, named, lt, suffix, poison = j
        data, mread = parse_model(m)
        if data is None:
            ctx.violation("corr:read-blocks", dict(schema=raw, layout=lt), impl=None, model=m, signature="C03:model-output-unparsable",
                          found_input=False)
            continue
        t = impl_read_text(parsed, data + suffix)
        nontrivial = ("LArray [(" in lt) or ("LMap [(" in lt) or ("LUnion" in lt) or ("LRecord" in lt)
        case = dict(schema=raw, layout=lt, bytes=data.hex(), suffix=suffix.hex(), poison=poison)
        if kind == "valid":
            ctx.count("corr:read-blocks", (repr(raw), lt), nontrivial=nontrivial)
            if mread == "E" or mread == "FUEL":
                # the generator produced something the model does not accept as a valid layout: a harness defect
                ctx.violation("corr:read-blocks", case, impl=t, model=mread, signature="C03:generator:invalid-layout", found_input=False)
            elif t != mread:
                ctx.violation("corr:read-blocks", case, impl=t[:1500], model=mread[:1500],
                              signature="C03:read-blocks:" + ("raises-on-valid-encoding" if t in ("E", "TIMEOUT") else "value-differs-from-independent-decoder"),
                              found_input=True)
            if idx < n_exh or rng.random() < (0.5 if quick else 0.3):
                skip_jobs.append((raw, parsed, named, data, "valid"))
            if len(data) <= 200 and (idx < n_exh and n_exh and idx % 7 == 0 or rng.random() < (0.25 if quick else 0.2)):
                prefix_jobs.append((raw, parsed, named, data))
        else:
            ctx.count("corr:bad-index", (repr(raw), lt), nontrivial=True)
            if mread != "E":
                # poisoning hit a position where the new index is still in range (e.g. n+1 wraps?) - skip silently unless decodable
                continue
            if t != "E":
                ctx.violation("corr:bad-index", case, impl=t[:1500], model="E (index out of range must raise)",
                              signature="C03:bad-index:%s:returns-value" % ("negative" if isinstance(poison[1], int) and poison[1] < 0 else "too-large"),
                              found_input=True)
            # the same bad index met while RESOLVING against a cosmetically different reader schema (enums get a default there)
            rr = cosmetic_reader(raw)
            if rr is not None:
                try:
                    res = CC.impl_read(raw, data, rr)
                except Exception as e:
                    res = ("raised", type(e).__name__, None)
                ctx.count("corr:bad-index-resolved", (repr(raw), lt), nontrivial=True)
                if res[0] != "raised":
                    ctx.violation("corr:bad-index-resolved", dict(writer_schema=raw, reader_schema=rr, bytes=data.hex(), cut=len(data), poison=poison),
                                  impl=repr(res[:2])[:300], model="E (index out of range must raise, with or without a reader schema)",
                                  signature="C03:bad-index:resolved:returns-value", found_input=True)
            if rng.random() < 0.6:
                skip_jobs.append((raw, parsed, named, data, "bad-index"))
    # deterministic tails: encodings that end with each kind of leaf (prefix family only; written by the implementation)
    for raw, datum in CC.tail_cases():
        named_t = {}
        parsed_t = fastavro.parse_schema(json.loads(json.dumps(raw)), named_t)
        w = CC.impl_write(parsed_t, datum)
        if w[0] == "ok":
            prefix_jobs.append((raw, parsed_t, named_t, w[1]))
    # ---- corr:skip-by-name (deterministic): the skipped writer-only field's type is a BY-NAME reference to an enum / fixed /
    # record defined earlier (directly, as array items, map values, union branch): skipping must consume exactly that value
    defs = {"type": "record", "name": "Defs9", "fields": [
        {"name": "e", "type": {"type": "enum", "name": "E9", "symbols": ["A", "B", "C"]}}, {"name": "f", "type": {"type": "fixed", "name": "F9", "size": 3}},
        {"name": "r", "type": {"type": "record", "name": "R9", "fields": [{"name": "x", "type": "long"}, {"name": "s", "type": "string"}]}}]}
    dval = {"e": "B", "f": b"abc", "r": {"x": -7, "s": "xy"}}
    for atype, aval in [("E9", "C"), ("F9", b"xyz"), ("R9", {"x": 1 << 40, "s": ""}), ({"type": "array", "items": "E9"}, ["A", "C", "B"]),
                        ({"type": "array", "items": "F9"}, [b"123", b"456"]), ({"type": "map", "values": "R9"}, {"k": {"x": 5, "s": "v"}}),
                        (["null", "F9", "E9"], b"uvw"), (["null", "F9", "E9"], "A"), ({"type": "array", "items": ["R9", "E9", "null"]}, [{"x": 0, "s": "q"}, "B", None])]:
        w9 = {"type": "record", "name": "SkipN", "fields": [{"name": "d", "type": defs}, {"name": "a", "type": atype}, {"name": "b", "type": "long"}]}
        r9 = {"type": "record", "name": "SkipN", "fields": [{"name": "d", "type": defs}, {"name": "b", "type": "long"}]}
        wr = CC.impl_write(w9, {"d": dval, "a": aval, "b": 77})
        ctx.count("corr:skip-by-name", repr(atype) + repr(aval), nontrivial=True)
        if wr[0] != "ok":
            continue
        full = wr[1] + b"\x07"
        try:
            res = CC.impl_read(w9, full, r9)
        except Exception as e:
            res = ("raised", type(e).__name__, None)
        good = res[0] == "ok" and isinstance(res[1], dict) and res[1].get("b") == 77 and res[2] == len(full) - 1
        if not good:
            ctx.violation("corr:skip-by-name", dict(writer_schema=w9, reader_schema=r9, bytes=full.hex(), kind="valid"), impl=repr(res)[:300],
                          model="R:I77|1", signature="C03:skip:by-name-reference:" + ("raises-on-valid-encoding" if res[0] != "ok" else "misaligned-after-skip"),
                          found_input=True)
    # ---- corr:skip
    exprs, sj2 = [], []
    for raw, parsed, named, data, kind in skip_jobs:
        z = rng.choice([0, -1, 300, -(1 << 40)])
        full = data + zz(z) + b"\x07"
        exprs.append("run_skip %s %s %s" % (G.env_to_coq(named), G.schema_to_coq(parsed), G.hx(full)))
        sj2.append((raw, parsed, named, full, z, kind))
    model = CC.run_model(ctx, exprs, "c03s")
    for (raw, parsed, named, full, z, kind), m in zip(sj2, model):
        w, r = skip_schemas(raw)
        try:
            res = CC.impl_read(w, full, r)
        except Exception as e:
            res = ("raised", type(e).__name__, None)
        if res[0] == "ok":
            t = "R:" + G.show_py(res[1].get("b")) + "|" + str(len(full) - res[2]) if isinstance(res[1], dict) else "R:?"
        else:
            t = "E" if res[0] == "raised" else "TIMEOUT"
        ctx.count("corr:skip", (repr(raw), full), nontrivial=True)
        if t != m:
            case = dict(writer_schema=w, reader_schema=r, bytes=full.hex(), kind=kind)
            if kind == "bad-index":
                sig = "C03:skip:bad-index:returns-value" if t != "E" else "C03:skip:model-differs"
            else:
                sig = "C03:skip:" + ("raises-on-valid-encoding" if t in ("E", "TIMEOUT") else "misaligned-after-skip")
            ctx.violation("corr:skip", case, impl=t, model=m, signature=sig, found_input=(m != "FUEL"))
    # ---- corr:prefix (theorem C03_truncated: no proper prefix decodes): every proper prefix, on the implementation
    nprefix = 0
    sample_exprs, sample_meta = [], []
    for raw, parsed, named, data in prefix_jobs:
        for k in range(len(data)):
            p = data[:k]
            t = impl_read_text(parsed, p)
            nprefix += 1
            ctx.count("corr:prefix", None, nontrivial=False)
            if t != "E":
                ctx.violation("corr:prefix", dict(schema=raw, bytes=data.hex(), cut=k), impl=t, model="E (a proper prefix must raise)",
                              signature="C03:prefix:returns-value-on-truncated-input", found_input=True)
            # the same truncation when the value is SKIPPED (trailing writer-only field): must raise too
            w2 = {"type": "record", "name": "SkipT", "fields": [{"name": "b", "type": "long"}, {"name": "a", "type": raw}]}
            r2 = {"type": "record", "name": "SkipT", "fields": [{"name": "b", "type": "long"}]}
            try:
                res = CC.impl_read(w2, b"\x0a" + p, r2)
            except Exception as e:
                res = ("raised", type(e).__name__, None)
            ctx.count("corr:prefix-skip", None, nontrivial=False)
            if res[0] != "raised":
                ctx.violation("corr:prefix-skip", dict(writer_schema=w2, reader_schema=r2, bytes=(b"\x0a" + data).hex(), cut=k + 1), impl=repr(res[:2])[:200],
                              model="E (a value cut short must raise when it is skipped as well)",
                              signature="C03:prefix:skip-accepts-truncated-input", found_input=True)
            if rng.random() < 0.02:
                sample_exprs.append("run_read %s %s %s %s" % (G.ropts(), G.env_to_coq(named), G.schema_to_coq(parsed), G.hx(p)))
                sample_meta.append((raw, data, k))
    model = CC.run_model(ctx, sample_exprs, "c03p")
    for (raw, data, k), m in zip(sample_meta, model):
        if m != "E":
            ctx.violation("corr:prefix", dict(schema=raw, bytes=data.hex(), cut=k), impl="E", model=m,
                          signature="C03:prefix:model-accepts-prefix", found_input=False)
    ctx.notes["prefixes_checked_on_impl"] = nprefix
    ctx.notes["prefixes_checked_on_model"] = len(sample_exprs)
    for j, m in list(zip(jobs, model))[:3]:
        pass
    for j in jobs[n_exh:n_exh + 300:100]:
        ctx.sample(dict(schema=j[1], layout=j[4][:300], kind=j[0]))
    ctx.sample(dict(schema={"type": "array", "items": "long"}, layout=jobs[min(20, len(jobs) - 1)][4]))


def replay(ctx, rep):
    import fastavro
    c = rep["case"]
    if "writer_schema" in c and "cut" in c:
        full = bytes.fromhex(c["bytes"])[:c["cut"]]
        res = CC.impl_read(c["writer_schema"], full, c["reader_schema"])
        print("implementation:", res, "expected: raises")
        return res[0] == "raised"
    if "writer_schema" in c:
        full = bytes.fromhex(c["bytes"])
        res = CC.impl_read(c["writer_schema"], full, c["reader_schema"])
        print("implementation:", res, "expected:", rep["model"])
        exp = rep["model"]
        t = ("R:" + G.show_py(res[1].get("b")) + "|" + str(len(full) - res[2])) if res[0] == "ok" else "E"
        return t == exp
    data = bytes.fromhex(c["bytes"])
    if "cut" in c:
        data = data[:c["cut"]]
    else:
        data += bytes.fromhex(c.get("suffix", ""))
    named = {}
    parsed = fastavro.parse_schema(c["schema"], named)
    t = impl_read_text(parsed, data)
    m = CC.run_model(ctx, ["run_read %s %s %s %s" % (G.ropts(), G.env_to_coq(named), G.schema_to_coq(parsed), G.hx(data))], "rp")[0]
    print("implementation:", t[:400]); print("model (independent decoder):", m[:400])
    return t == m
