"""Generators for C17/C18: schemas that reuse a handful of type names with different
definitions, conforming data, an independent Avro binary / container / JSON encoder for
reader inputs (so reader inputs do not depend on the tree under test), call histories.
Every random choice comes from the rng handed in (ctx.rng)."""
import datetime, decimal, json, struct, uuid, zlib

PRIMS = ["null", "boolean", "int", "long", "float", "double", "bytes", "string"]
SYNC = bytes(range(16))


class Unscaled:
    """reader-input datum of a decimal: the unscaled integer as it sits on the wire"""
    def __init__(self, u):
        self.u = u

    def __repr__(self):
        return "Unscaled(%d)" % self.u


# ----------------------------------------------------------------------------- schemas
class SchemaGen:
    def __init__(self, rng, allow_uuid=True, allow_decimal=True, allow_null_prec=False):
        self.rng = rng
        self.allow_uuid = allow_uuid
        self.allow_decimal = allow_decimal
        self.allow_null_prec = allow_null_prec
        self.open = set()           # records under construction: no direct self-reference (unencodable)

    def record(self, name=None, depth=0, defined=None):
        rng = self.rng
        defined = {} if defined is None else defined
        name = name or rng.choice(["R", "R", "ns.R", "a.b.R", "Inner"])
        s = {"type": "record", "name": name, "fields": []}
        defined[name.split(".")[-1]] = s
        if rng.random() < 0.2:
            s["doc"] = rng.choice(["d1", "other doc"])
        if rng.random() < 0.15:
            s["custom"] = {"k": [1, 2, rng.randrange(5)]}
        nf = rng.randrange(1, 6)
        names = rng.sample(["a", "b", "c", "d", "e", "f", "g"], nf)
        short = name.split(".")[-1]
        self.open.add(short)
        for fn in names:
            f = {"name": fn, "type": self.type(depth + 1, defined)}
            s["fields"].append(f)
        self.open.discard(short)
        return s

    def decimal_params(self):
        rng = self.rng
        p = rng.choice([1, 2, 2, 3, 4, 5, 7, 9, 12, 18])
        sc = rng.randrange(0, min(p, 6) + 1)
        return p, sc

    def logical(self, defined):
        rng = self.rng
        k = rng.choice(["date", "ts-ms", "ts-us", "time-ms", "time-us", "uuid", "decb", "decb", "decf"])
        if k == "date":
            return {"type": "int", "logicalType": "date"}
        if k == "ts-ms":
            return {"type": "long", "logicalType": "timestamp-millis"}
        if k == "ts-us":
            return {"type": "long", "logicalType": "timestamp-micros"}
        if k == "time-ms":
            return {"type": "int", "logicalType": "time-millis"}
        if k == "time-us":
            return {"type": "long", "logicalType": "time-micros"}
        if k == "uuid":
            return {"type": "string", "logicalType": "uuid"} if self.allow_uuid else "string"
        if not self.allow_decimal:
            return "long"
        p, sc = self.decimal_params()
        if k == "decb" or "D" in defined:
            return {"type": "bytes", "logicalType": "decimal", "precision": p, "scale": sc}
        size = rng.choice([4, 8, 12])
        import math
        maxp = int(math.floor(math.log10(2) * (8 * size - 1)))
        p = min(p, maxp)
        sc = min(sc, p)
        s = {"type": "fixed", "name": "D", "size": size, "logicalType": "decimal", "precision": p, "scale": sc}
        defined["D"] = s
        return s

    def type(self, depth, defined, in_union=False):
        rng = self.rng
        r = rng.random()
        if depth >= 3 or r < 0.42:
            t = rng.choice(PRIMS[1:] if in_union else PRIMS)
            return t if rng.random() < 0.85 else {"type": t}
        if r < 0.58:
            return self.logical(defined)
        if r < 0.66:
            if "E" in defined:
                return "E"
            s = {"type": "enum", "name": "E", "symbols": rng.sample(["A", "B", "C", "D", "X", "Y"], rng.randrange(1, 5))}
            defined["E"] = s
            return s
        if r < 0.72:
            if "F" in defined:
                return "F"
            s = {"type": "fixed", "name": "F", "size": rng.choice([0, 1, 3, 8])}
            defined["F"] = s
            return s
        if r < 0.80:
            if "Inner" in self.open:
                return "long"
            if "Inner" in defined:
                return "Inner"
            return self.record("Inner", depth, defined)
        if r < 0.87:
            return {"type": "array", "items": self.type(depth + 1, defined)}
        if r < 0.92:
            return {"type": "map", "values": self.type(depth + 1, defined)}
        if in_union:
            return rng.choice(PRIMS[1:])
        # union: null + one, or two of different kinds
        if rng.random() < 0.6:
            u = ["null", self.type(depth + 1, defined, in_union=True)]
            if rng.random() < 0.3:
                u.reverse()
            return u
        a, b = rng.sample(["int", "string", "double", "boolean", "bytes"], 2)
        return [a, b]


def type_of(s):
    if isinstance(s, list):
        return "union"
    if isinstance(s, dict):
        return s["type"]
    return s


def lookup(s, defined):
    if isinstance(s, str) and s not in PRIMS:
        return defined[s.split(".")[-1]]
    return s


# ----------------------------------------------------------------------------- data
EPOCH = datetime.datetime(1970, 1, 1, tzinfo=datetime.timezone.utc)


class DataGen:
    """mode 'write': Python data as a user hands them to the writer (Decimal, datetime, ...);
    mode 'read': wire-level data for the independent encoder (ints, Unscaled) - and the list of
    decimals (precision, scale, unscaled) in the order a reader meets them."""
    def __init__(self, rng, mode, defined):
        self.rng, self.mode, self.defined = rng, mode, defined
        self.trace = []

    def gen(self, s, depth=0):
        rng = self.rng
        s = lookup(s, self.defined)
        t = type_of(s)
        lt = s.get("logicalType") if isinstance(s, dict) else None
        wr = self.mode == "write"
        if lt == "decimal" and t in ("bytes", "fixed"):
            p, sc = s["precision"], s.get("scale", 0)
            if wr:
                nd = rng.randrange(1, max(p, 1) + 1)
                u = rng.randrange(10 ** (nd - 1) if nd > 1 else 0, 10 ** nd) * rng.choice([1, -1])
                if t == "fixed":
                    lim = 2 ** (8 * s["size"] - 1) - 1
                    u = max(-lim, min(lim, u))
                return decimal.Decimal(u).scaleb(-sc)
            nd = rng.choice([1, 2, 3, 5, 6, 8, 12, 15])
            u = rng.randrange(0, 10 ** nd) * rng.choice([1, -1])
            if rng.random() < 0.2:
                u = rng.choice([125, 135, 12500, 13500, 995, 99999, 12000, 150, 250, -15, 0, 5, 1000000]) * rng.choice([1, -1])
            if t == "fixed":
                lim = 2 ** (8 * s["size"] - 1) - 1
                u = max(-lim, min(lim, u))
            self.trace.append((p, sc, u))
            return Unscaled(u)
        if t == "null":
            return None
        if t == "boolean":
            return rng.random() < 0.5
        if t in ("int", "long"):
            if lt == "date":
                d = rng.randrange(-3000, 40000)
                return datetime.date.fromordinal(719163 + d) if wr else d
            if lt == "time-millis":
                v = rng.randrange(0, 86400000)
                return datetime.time(v // 3600000, v // 60000 % 60, v // 1000 % 60, v % 1000 * 1000) if wr else v
            if lt == "time-micros":
                v = rng.randrange(0, 86400000000)
                return datetime.time(v // 3600000000, v // 60000000 % 60, v // 1000000 % 60, v % 1000000) if wr else v
            if lt == "timestamp-millis":
                v = rng.randrange(-10 ** 11, 2 * 10 ** 12)
                return EPOCH + datetime.timedelta(milliseconds=v) if wr else v
            if lt == "timestamp-micros":
                v = rng.randrange(-10 ** 14, 2 * 10 ** 15)
                return EPOCH + datetime.timedelta(microseconds=v) if wr else v
            b = 31 if t == "int" else 63
            return rng.choice([0, 1, -1, 63, 64, -64, -65, 2 ** b - 1, -2 ** b, rng.randrange(-2 ** b, 2 ** b), rng.randrange(-1000, 1000)])
        if t == "float":
            return rng.choice([0.0, 1.5, -2.25, 1e10, float(rng.randrange(-1000, 1000)) / 8])
        if t == "double":
            return rng.choice([0.0, 0.1, -1e300, 3.141592653589793, rng.random() * 1e6])
        if t == "bytes":
            return bytes(rng.randrange(256) for _ in range(rng.choice([0, 1, 3, 10])))
        if t == "string":
            if lt == "uuid":
                u = uuid.UUID(int=rng.getrandbits(128))
                return u if wr and rng.random() < 0.7 else str(u)
            return rng.choice(["", "a", "hello", "héllo €", "x" * 20, "\U0001F600z"])
        if t == "fixed":
            return bytes(rng.randrange(256) for _ in range(s["size"]))
        if t == "enum":
            return rng.choice(s["symbols"])
        if t == "array":
            n = 0 if depth > 3 else rng.choice([0, 1, 2, 3])
            return [self.gen(s["items"], depth + 1) for _ in range(n)]
        if t == "map":
            n = 0 if depth > 3 else rng.choice([0, 1, 2])
            return {k: self.gen(s["values"], depth + 1) for k in rng.sample(["k1", "k2", "ü", "z"], n)}
        if t == "union":
            i = rng.randrange(len(s))
            v = self.gen(s[i], depth + 1)
            return v if wr else ("$branch", i, v)
        if t in ("record", "error"):
            return {f["name"]: self.gen(f["type"], depth + 1) for f in s["fields"]}
        raise ValueError("gen: " + repr(s))


# ----------------------------------------------------------------------------- independent encoders
def zz(n):
    n = (n << 1) ^ (n >> 63)
    out = bytearray()
    while n & ~0x7F:
        out.append((n & 0x7F) | 0x80)
        n >>= 7
    out.append(n)
    return bytes(out)


def twos(u, size=None):
    if size is None:
        size = (u.bit_length() + 8) // 8 if u >= 0 else ((-u - 1).bit_length() + 8) // 8
    return u.to_bytes(size, "big", signed=True)


def encode(s, v, defined):
    """Avro binary encoding of wire-level data (mode 'read')"""
    s = lookup(s, defined)
    t = type_of(s)
    if isinstance(v, Unscaled):
        b = twos(v.u, s["size"] if t == "fixed" else None)
        return b if t == "fixed" else zz(len(b)) + b
    if t == "null":
        return b""
    if t == "boolean":
        return b"\x01" if v else b"\x00"
    if t in ("int", "long"):
        return zz(v)
    if t == "float":
        return struct.pack("<f", v)
    if t == "double":
        return struct.pack("<d", v)
    if t == "bytes":
        return zz(len(v)) + v
    if t == "string":
        b = v.encode()
        return zz(len(b)) + b
    if t == "fixed":
        return v
    if t == "enum":
        return zz(s["symbols"].index(v))
    if t == "array":
        out = b""
        if v:
            out += zz(len(v)) + b"".join(encode(s["items"], x, defined) for x in v)
        return out + b"\x00"
    if t == "map":
        out = b""
        if v:
            out += zz(len(v)) + b"".join(encode("string", k, defined) + encode(s["values"], x, defined) for k, x in v.items())
        return out + b"\x00"
    if t == "union":
        _, i, x = v
        return zz(i) + encode(s[i], x, defined)
    if t in ("record", "error"):
        return b"".join(encode(f["type"], v[f["name"]], defined) for f in s["fields"])
    raise ValueError("encode: " + repr(s))


def container(schema, recs, defined, codec="null", per_block=2):
    out = b"Obj\x01"
    meta = {"avro.schema": json.dumps(schema).encode(), "avro.codec": codec.encode()}
    out += zz(len(meta)) + b"".join(encode("string", k, {}) + encode("bytes", v, {}) for k, v in meta.items()) + b"\x00"
    out += SYNC
    for i in range(0, len(recs), per_block):
        blk = recs[i:i + per_block]
        data = b"".join(encode(schema, r, defined) for r in blk)
        if codec == "deflate":
            data = zlib.compress(data)[2:-1]
        out += zz(len(blk)) + zz(len(data)) + data + SYNC
    return out


def fullname(s, ns):
    n = s["name"]
    if "." in n:
        return n, n.rsplit(".", 1)[0]
    ns = s.get("namespace", ns)
    return (ns + "." + n if ns else n), ns


def to_json(s, v, defined, ns=""):
    """Avro JSON encoding (Python structure for json.dumps) of wire-level data"""
    s = lookup(s, defined)
    t = type_of(s)
    if isinstance(v, Unscaled):
        return twos(v.u, s["size"] if t == "fixed" else None).decode("latin-1")
    if t in ("bytes", "fixed"):
        return v.decode("latin-1")
    if t == "array":
        return [to_json(s["items"], x, defined, ns) for x in v]
    if t == "map":
        return {k: to_json(s["values"], x, defined, ns) for k, x in v.items()}
    if t == "union":
        _, i, x = v
        b = lookup(s[i], defined)
        bt = type_of(b)
        if bt == "null":
            return None
        key = fullname(b, ns)[0] if bt in ("record", "enum", "fixed", "error") else bt
        return {key: to_json(s[i], x, defined, ns)}
    if t in ("record", "error"):
        _, ns2 = fullname(s, ns)
        return {f["name"]: to_json(f["type"], v[f["name"]], defined, ns2) for f in s["fields"]}
    return v


def has_type(s, defined, pred, seen=None):
    seen = seen or set()
    s0 = s
    s = lookup(s, defined)
    if isinstance(s0, str) and s0 not in PRIMS:
        if s0 in seen:
            return False
        seen = seen | {s0}
    if pred(s):
        return True
    t = type_of(s)
    if t == "union":
        return any(has_type(x, defined, pred, seen) for x in s)
    if t == "array":
        return has_type(s["items"], defined, pred, seen)
    if t == "map":
        return has_type(s["values"], defined, pred, seen)
    if t in ("record", "error"):
        return any(has_type(f["type"], defined, pred, seen) for f in s["fields"])
    return False


def lookup_field(raw, name):
    return [f["type"] for f in raw["fields"] if f["name"] == name][0]


def is_decimal(s):
    return isinstance(s, dict) and s.get("logicalType") == "decimal" and s.get("type") in ("bytes", "fixed")


def is_floaty(s):
    return type_of(s) in ("float", "double")


# ----------------------------------------------------------------------------- model terms
def coq_df(p, sc, u):
    z = lambda n: "(%d)" % n if n < 0 else str(n)
    return "mkDF %s %s %s" % (z(p), z(sc), z(u))


def coq_call(kind, trace=None, failing_k=None):
    if kind in ("CRead", "CJsonRead"):
        t = "(%s [%s]%%Z)" % (kind, "; ".join(coq_df(*d) for d in (trace or [])))
    else:
        t = kind
    if failing_k is not None:
        t = "(CFailing %s %d%%nat)" % (t, failing_k)
    return t


# ----------------------------------------------------------------------------- histories
class HistoryGen:
    """A history: list of call descriptions (see c17_worker) + per call the abstract model call."""
    # families aimed at one class of leak each; c17.py makes every history contain some of them (round robin), so that a
    # quick run does not depend on luck to contain each family several times
    TARGETED = ["c_alias_pairs", "c_default_aliasing", "c_fixed_decimal_sequence", "c_revalidate", "c_defaults", "c_dangling_reference", "c_lazy_readers", "c_union_hints", "c_legacy_defaults", "c_redefined_names",
                "c_writer_object", "c_piecewise_use", "c_read_union_of_records", "c_read_decimal_focus"]

    def __init__(self, rng, ncalls, must=()):
        self.rng = rng
        self.n = ncalls
        self.must = list(must)
        self.calls = []
        self.abstract = []          # Gallina api_call per entry of self.calls ("" for new_dict)
        self.meta = []              # free-form: expected outcome etc.
        self.parsed = []            # (slot, raw schema, defined, shared: parsed against a caller-supplied dict)
        self.raws = []              # raw schema OBJECTS handed to several calls of the history
        self.piecewise = []         # (slot, raw parent, defined): parents whose child type was parsed separately into a shared dict
        self.families = []          # named types Color/Fx/Sub/Rec recurring across calls with DIFFERENT definitions
        self.hinted = []            # (schema argument, raw, [datum objects]) for '-type' hints, data objects reused across calls
        self.legacy = []            # (file bytes, valid reader schema): hand-built files with a mismatching default in the header
        self.dflt = []              # (schema argument, raw, defined): schemas with defaulted fields, shared by many calls
        self.dicts = []             # (slot, {short name: raw schema})
        self.k = 0

    def emit(self, call, abstract, **meta):
        self.calls.append(call)
        self.abstract.append(abstract)
        self.meta.append(meta)

    def fresh_slot(self, p):
        self.k += 1
        return "%s%d" % (p, self.k)

    def new_schema(self, **kw):
        defined = {}
        s = SchemaGen(self.rng, **kw).record(None, 0, defined)
        return s, defined

    def pick_schema(self, want_slot=0.5, **kw):
        """(schema argument, raw schema, defined, shared): a parsed-schema object living in the
        interpreter, a raw schema object already handed to an earlier call, or a new raw schema"""
        r = self.rng.random()
        if self.parsed and r < want_slot and not kw:
            slot, raw, defined, shared = self.rng.choice(self.parsed)
            return {"$slot": slot}, raw, defined, shared
        if self.raws and r < want_slot + 0.15 and not kw:
            raw, defined = self.rng.choice(self.raws)
            return raw, raw, defined, False
        raw, defined = self.new_schema(**kw)
        if not kw:
            self.raws.append((raw, defined))
        return raw, raw, defined, False

    def dict_slot(self):
        if self.dicts and self.rng.random() < 0.7:
            return self.rng.choice(self.dicts)
        slot = self.fresh_slot("N")
        self.emit({"api": "new_dict", "$out": slot}, "")
        self.dicts.append((slot, {}))
        return self.dicts[-1]

    # --- the call kinds ------------------------------------------------------------------
    def c_parse(self):
        rng = self.rng
        r = rng.random()
        if r < 0.15 and self.parsed:                      # re-parse a parsed schema, filling a caller dict
            slot, raw, defined, _ = rng.choice(self.parsed)
            ns, names = self.dict_slot()
            names.update(defined)
            self.emit({"api": "parse_schema", "schema": {"$slot": slot}, "named_schemas": {"$slot": ns}}, "CParse", expect="ok")
            return
        if r < 0.30:
            self.piecewise_parent()
            return
        if r < 0.40:                                       # designed to raise: unknown type / redefinition / bad decimal
            raw, defined = self.new_schema()
            k = rng.choice(["unknown", "redefine", "scale"])
            if k == "unknown":
                # also names that OTHER schemas of the history define (a name registry surviving a call would resolve them)
                cands = ["Nope", "Inner2"] + [n for n in ("Inner", "E", "F", "D", "R", "Outer") if n not in defined and n != raw["name"].split(".")[-1]]
                raw["fields"].append({"name": "zz", "type": rng.choice(cands)})
            elif k == "redefine":
                raw["fields"].append({"name": "zz", "type": {"type": "record", "name": raw["name"], "fields": []}})
            else:
                raw["fields"].append({"name": "zz", "type": {"type": "bytes", "logicalType": "decimal", "precision": 2, "scale": 5}})
            kw = {}
            if rng.random() < 0.5:
                kw["named_schemas"] = {"$slot": self.dict_slot()[0]}
            self.emit(dict({"api": "parse_schema", "schema": raw}, **kw), "(CFailing CParse 0%nat)", expect="raise")
            return
        raw, defined = self.new_schema()
        out = self.fresh_slot("P")
        call = {"api": "parse_schema", "schema": raw, "$out": out}
        shared = False
        if rng.random() < 0.35:
            shared = True
            ns, names = self.dict_slot()
            # names already in the caller's dict are visible to this parse; same names get redefined
            call["named_schemas"] = {"$slot": ns}
            merged = dict(names)
            merged.update(defined)
            names.update(defined)
            defined = merged
        if rng.random() < 0.1:
            call["expand"] = True
            del call["$out"]
            self.emit(call, "CParse", expect="ok")
            return
        self.emit(call, "CParse", expect="ok")
        self.parsed.append((out, raw, defined, shared))

    def piecewise_parent(self, own_dict=False):
        """piecewise: child first, then a parent referring to it by name, both parsed against one caller dict"""
        rng = self.rng
        if own_dict or rng.random() < 0.5:               # a dictionary of its own: a separate schema family
            slot = self.fresh_slot("N")
            self.emit({"api": "new_dict", "$out": slot}, "")
            self.dicts.append((slot, {}))
            ns, names = self.dicts[-1]
        else:
            ns, names = self.dict_slot()
        child_def = {}
        child = SchemaGen(rng).record("Inner", 1, child_def)
        out = self.fresh_slot("P")
        self.emit({"api": "parse_schema", "schema": child, "named_schemas": {"$slot": ns}, "$out": out}, "CParse", expect="ok")
        self.parsed.append((out, child, child_def, True))
        names.update(child_def)
        pdef = dict(names)
        # the FIRST reference to the separately parsed type: directly, as array items, as map values, in a union
        first = rng.choice(["Inner", {"type": "array", "items": "Inner"}, {"type": "map", "values": "Inner"},
                            {"type": "array", "items": {"type": "map", "values": "Inner"}}, ["null", "Inner"]])
        parent = {"type": "record", "name": rng.choice(["R", "Outer"]), "fields": [
            {"name": "x", "type": first}, {"name": "y", "type": rng.choice(["int", {"type": "array", "items": "Inner"}, "Inner"])}]}
        pdef[parent["name"]] = parent
        out2 = self.fresh_slot("P")
        self.emit({"api": "parse_schema", "schema": parent, "named_schemas": {"$slot": ns}, "$out": out2}, "CParse", expect="ok")
        self.parsed.append((out2, parent, pdef, True))
        names[parent["name"]] = parent
        self.piecewise.append((out2, parent, pdef))
        return

    def c_schemaless_writer(self):
        rng = self.rng
        arg, raw, defined, _ = self.pick_schema()
        rec = DataGen(rng, "write", defined).gen(raw)
        expect = "ok"
        if rng.random() < 0.2:                             # non-conforming: raises midway, bytes so far are observable
            rec = dict(rec)
            fn = rng.choice(raw["fields"])["name"]
            rec[fn] = rng.choice([object.__name__, {"zz": 1}, [None], 1.5j.__class__.__name__])
            expect = "any"
        kw = {}
        if rng.random() < 0.25:
            kw = rng.choice([{"strict": True}, {"strict_allow_default": True}, {"disable_tuple_notation": True}])
        if isinstance(rec, dict) and rng.random() < 0.25:       # an extra key: ignored unless a strict flag is (or stays) set
            rec = dict(rec)
            rec["extra_key"] = 1
            expect = "any"
        self.emit({"api": "schemaless_writer", "schema": arg, "record": rec, "kw": kw},
                  "CWrite" if expect == "ok" else "CWrite", expect=expect)

    def read_input(self, **kw):
        arg, raw, defined, shared = self.pick_schema(**kw)
        dg = DataGen(self.rng, "read", defined)
        return arg, raw, defined, dg, shared

    def c_schemaless_reader(self):
        rng = self.rng
        arg, raw, defined, dg, shared = self.read_input()
        v = dg.gen(raw)
        data = encode(raw, v, defined)
        call = {"api": "schemaless_reader", "schema": arg, "data": data}
        if rng.random() < 0.2:
            call["reader_schema"] = arg if rng.random() < 0.5 else json.loads(json.dumps(raw))
        if rng.random() < 0.15:
            call["kw"] = {"return_record_name": True}
        # a schema parsed against a caller-supplied dict resolves its by-name references through that dict
        # as it is NOW (later parses may have redefined the names): the model call is then not predicted
        self.emit(call, None if shared else coq_call("CRead", dg.trace), expect="any" if shared else "ok", decimals=len(dg.trace))

    def c_read_union_of_records(self):
        """unions with record / enum branches read with and without the return_record_name / return_named_type options
        (an option dictionary surviving a call would change what the next call returns)"""
        rng = self.rng
        defined = {}
        inner = SchemaGen(rng, allow_decimal=False).record("Inner", 2, defined)
        other = {"type": "record", "name": "Other", "fields": [{"name": "q", "type": "long"}]}
        defined["Other"] = other
        en = {"type": "enum", "name": "E2", "symbols": ["A", "B"]}
        defined["E2"] = en
        raw = {"type": "record", "name": rng.choice(["R", "U"]), "fields": [
            {"name": "u", "type": rng.choice([["null", inner], [inner, other], ["null", inner, other]])},
            {"name": "v", "type": rng.choice([["null", en], [en, "string"], {"type": "array", "items": ["Inner", "long"]}])}]}
        defined[raw["name"]] = raw
        dg = DataGen(rng, "read", defined)
        v = dg.gen(raw)
        kw = rng.choice([{}, {}, {"return_record_name": True}, {"return_named_type": True},
                         {"return_record_name": True, "return_record_name_override": True},
                         {"return_named_type": True, "return_named_type_override": True}])
        arg = raw
        if rng.random() < 0.4:
            out = self.fresh_slot("P")
            self.emit({"api": "parse_schema", "schema": raw, "$out": out}, "CParse", expect="ok")
            self.parsed.append((out, raw, defined, False))
            arg = {"$slot": out}
        if rng.random() < 0.7:
            self.emit({"api": "schemaless_reader", "schema": arg, "data": encode(raw, v, defined), "kw": kw},
                      coq_call("CRead", dg.trace), expect="ok", decimals=len(dg.trace))
        else:
            recs = [v] + [dg.gen(raw) for _ in range(rng.randrange(0, 3))]
            self.emit({"api": "reader", "data": container(raw, recs, defined, "null"), "kw": kw},
                      coq_call("CRead", dg.trace), expect="ok", decimals=len(dg.trace))

    # --- defaulted fields -----------------------------------------------------------------
    def defaulted_schema(self):
        """a record whose fields carry defaults of every JSON kind (non-empty arrays and maps, nested records,
        union defaults, strings, numbers, booleans, enums, bytes); the names R/Dflt/Sub/DE are reused with
        different defaults from schema to schema"""
        rng = self.rng
        v = rng.randrange(3)
        sub = {"type": "record", "name": "Sub", "fields": [{"name": "q", "type": "long"}, {"name": "s", "type": "string"}]}
        cands = [
            ("da", {"type": "array", "items": "int"}, [[1, 2, 3], [7], [4, 5]][v]),
            ("dm", {"type": "map", "values": "int"}, [{"k": 1, "j": 2}, {"z": 9}, {"a": 1}][v]),
            ("dr", sub, {"q": v + 1, "s": "x" * (v + 1)}),
            ("dar", {"type": "array", "items": "Sub"}, [{"q": 2, "s": "y"}, {"q": 3, "s": ""}][: v % 2 + 1]),
            ("du", ["null", "string"], None),
            ("dv", ["int", "null"], 5 + v),
            ("ds", "string", ["abc", "", "d\u00e9faut"][v]),
            ("dl", "long", [42, -1, 2 ** 40][v]),
            ("dd", "double", [1.5, -0.25, 1e10][v]),
            ("db", "boolean", bool(v % 2)),
            ("de", {"type": "enum", "name": "DE", "symbols": ["A", "B", "C"]}, "ABC"[v]),
            ("dy", "bytes", ["\u00ff\u0001", "", "xyz"][v]),
            ("daa", {"type": "array", "items": {"type": "array", "items": "string"}}, [["x"], ["y", "z"]][: v % 2 + 1]),
            ("dmm", {"type": "map", "values": {"type": "array", "items": "long"}}, {"p": [1, 2], "q": []}),
            # unions whose FIRST branch is an array / a map, with a non-empty default
            ("dua", [{"type": "array", "items": "int"}, "null"], [[1, 2], [9], [3, 4, 5]][v]),
            ("dum", [{"type": "map", "values": "string"}, "null"], [{"k": "v"}, {"a": "b", "c": "d"}, {"z": ""}][v]),
        ]
        keep = [c for c in cands if rng.random() < 0.6 or c[0] in ("da", "dm", "dua", "dum")]
        if any(c[0] == "dar" for c in keep) and not any(c[0] == "dr" for c in keep):
            keep = [c for c in keep if c[0] != "dar"]
        req = [{"name": "n", "type": "long"}]
        if rng.random() < 0.5:
            req.append({"name": "t", "type": "string"})
        fields = req + [{"name": n, "type": t, "default": d} for n, t, d in keep]
        raw = {"type": "record", "name": rng.choice(["R", "Dflt", "Dflt"]), "fields": fields}
        defined = {"Sub": sub, "DE": cands[10][1], raw["name"]: raw}
        return raw, defined

    def pick_defaulted(self):
        """a parsed schema with defaulted fields SHARED by many calls of the history (or a new one)"""
        rng = self.rng
        if self.dflt and rng.random() < 0.8:
            return rng.choice(self.dflt)
        raw, defined = self.defaulted_schema()
        if rng.random() < 0.85:
            out = self.fresh_slot("P")
            self.emit({"api": "parse_schema", "schema": raw, "$out": out}, "CParse", expect="ok")
            self.parsed.append((out, raw, defined, False))
            ent = ({"$slot": out}, raw, defined)
        else:
            ent = (raw, raw, defined)               # the same raw schema OBJECT in several calls
        self.dflt.append(ent)
        return ent

    def partial_record(self, raw, defined, mode):
        """record of `raw` with a random subset of the defaulted fields omitted"""
        rng = self.rng
        dg = DataGen(rng, mode, defined)
        rec = {}
        for f in raw["fields"]:
            # (an omitted bytes field with its string default makes the writers raise TypeError: observation O1)
            if "default" in f and rng.random() < 0.6 and not (mode == "write" and f["type"] == "bytes" and rng.random() < 0.9):
                continue
            rec[f["name"]] = dg.gen(f["type"], 1)
        return rec

    def c_defaults(self):
        rng = self.rng
        arg, raw, defined = self.pick_defaulted()
        k = rng.choice(["json_reader", "json_reader", "json_reader", "json_writer", "schemaless_writer", "writer", "validate",
                        "resolve", "resolve", "resolve_container"])
        if k == "json_reader":
            recs = [self.partial_record(raw, defined, "read") for _ in range(rng.randrange(1, 3))]
            text = "".join(json.dumps({n: to_json(lookup_field(raw, n), v, defined) for n, v in r.items()}) + "\n" for r in recs)
            call = {"api": "json_reader", "schema": arg, "text": text}
            if rng.random() < 0.5:
                call["$mutate_result"] = True         # the consumer appends to / sets keys in every container it was handed
            self.emit(call, "(CJsonRead [])", expect="ok")
        elif k == "json_writer":
            recs = [self.partial_record(raw, defined, "write") for _ in range(rng.randrange(1, 3))]
            self.emit({"api": "json_writer", "schema": arg, "records": recs, "kw": {}}, "CJsonWrite", expect="ok")
        elif k == "schemaless_writer":
            kw = rng.choice([{}, {}, {"strict_allow_default": True}, {"strict": True}])
            self.emit({"api": "schemaless_writer", "schema": arg, "record": self.partial_record(raw, defined, "write"), "kw": kw},
                      "CWrite", expect="any" if kw.get("strict") else "ok")
        elif k == "writer":
            recs = [self.partial_record(raw, defined, "write") for _ in range(rng.randrange(1, 4))]
            kw = rng.choice([{}, {"validator": True}, {"codec": "deflate"}])
            self.emit({"api": "writer", "schema": arg, "records": recs, "kw": kw}, "CWrite", expect="ok")
        elif k == "validate":
            self.emit({"api": "validate", "schema": arg, "datum": self.partial_record(raw, defined, "write"),
                       "kw": {"raise_errors": rng.random() < 0.5}}, "CValidate", expect="any")
        else:
            # schema resolution: the writer wrote only some of the fields, the reader schema supplies the defaults
            wfields = [f for f in raw["fields"] if "default" not in f or rng.random() < 0.4]
            wraw = {"type": "record", "name": raw["name"], "fields": [{k2: v for k2, v in f.items() if k2 != "default"} for f in wfields]}
            dg = DataGen(rng, "read", defined)
            if k == "resolve":
                data = encode(wraw, dg.gen(wraw), defined)
                call = {"api": "schemaless_reader", "schema": wraw, "data": data, "reader_schema": arg}
            else:
                recs = [dg.gen(wraw) for _ in range(rng.randrange(1, 4))]
                call = {"api": "reader", "data": container(wraw, recs, defined, "null"), "reader_schema": arg}
            if rng.random() < 0.5:
                call["$mutate_result"] = True
            self.emit(call, "(CRead [])", expect="ok")

    # --- the same (schema object, datum object) pair again, after the caller changed the datum / with other options ----
    def c_revalidate(self):
        rng = self.rng
        raw, defined = self.new_schema(allow_decimal=False)
        out = self.fresh_slot("P")
        self.emit({"api": "parse_schema", "schema": raw, "$out": out}, "CParse", expect="ok")
        self.parsed.append((out, raw, defined, False))
        arg = {"$slot": out}
        d = DataGen(rng, "write", defined).gen(raw)
        if rng.random() < 0.4:
            d["extra_key"] = 1                       # valid, but not under strict=True

        def use(first=False):
            k = rng.choice(["validate", "validate", "validate_many", "writer", "json_writer", "schemaless_writer"])
            if k == "validate":
                kw = {"raise_errors": rng.random() < 0.5}
                if not first and rng.random() < 0.5:
                    kw["strict"] = True
                self.emit({"api": k, "schema": arg, "datum": d, "kw": kw}, "CValidate", expect="any", shared_data=True)
            elif k == "validate_many":
                self.emit({"api": k, "schema": arg, "records": [d], "kw": {"raise_errors": rng.random() < 0.5}}, "CValidate", expect="any", shared_data=True)
            elif k == "writer":
                self.emit({"api": k, "schema": arg, "records": [d], "kw": {"validator": True}}, "CWrite", expect="any", shared_data=True)
            elif k == "json_writer":
                self.emit({"api": k, "schema": arg, "records": [d], "kw": {"validator": True}}, "CJsonWrite", expect="any", shared_data=True)
            else:
                self.emit({"api": k, "schema": arg, "record": d, "kw": {}}, "CWrite", expect="any", shared_data=True)
        self.emit({"api": "validate", "schema": arg, "datum": d, "kw": {"raise_errors": False}}, "CValidate", expect="ok", shared_data=True)
        for _ in range(rng.randrange(1, 4)):
            if rng.random() < 0.7:
                f = rng.choice(raw["fields"])["name"]
                if rng.random() < 0.6:
                    self.emit({"api": "mutate", "target": d, "action": "set", "key": f, "value": {"definitely": ["not", "conforming"]}}, "")
                else:
                    self.emit({"api": "mutate", "target": d, "action": "delete", "key": f}, "")
            use()

    # --- fixed decimals: same size, same byte length, different bit lengths, both signs, in a row ----------------------
    def c_fixed_decimal_sequence(self):
        rng = self.rng
        size = rng.choice([2, 4, 8])
        import math
        prec = int(math.floor(math.log10(2) * (8 * size - 1)))
        scale = rng.randrange(0, min(prec, 3) + 1)
        raw = {"type": "record", "name": rng.choice(["R", "Dec"]), "fields": [
            {"name": "d", "type": {"type": "fixed", "name": "D", "size": size, "logicalType": "decimal", "precision": prec, "scale": scale}},
            {"name": "n", "type": "long"}]}
        arg = raw
        if rng.random() < 0.5:
            out = self.fresh_slot("P")
            self.emit({"api": "parse_schema", "schema": raw, "$out": out}, "CParse", expect="ok")
            self.parsed.append((out, raw, {"D": raw["fields"][0]["type"]}, False))
            arg = {"$slot": out}
        nbytes = rng.randrange(1, size + 1)
        lo = 0 if nbytes == 1 else 2 ** (8 * (nbytes - 1) - 1)      # magnitudes whose bit length + sign bit needs exactly nbytes bytes
        hi = min(2 ** (8 * nbytes - 1) - 1, 10 ** prec - 1)
        import decimal
        for _ in range(rng.randrange(3, 6)):
            bits = rng.randrange(max(lo.bit_length(), 1), hi.bit_length() + 1)
            mag = min(hi, max(lo, rng.randrange(2 ** (bits - 1), 2 ** bits)))
            val = decimal.Decimal(mag * rng.choice([1, -1, -1])).scaleb(-scale)
            rec = {"d": val, "n": rng.randrange(100)}
            k = rng.choice(["schemaless_writer", "schemaless_writer", "writer", "json_writer", "validate"])
            if k == "schemaless_writer":
                self.emit({"api": k, "schema": arg, "record": rec, "kw": {}}, "CWrite", expect="ok")
            elif k == "validate":
                self.emit({"api": k, "schema": arg, "datum": rec, "kw": {"raise_errors": False}}, "CValidate", expect="any")
            else:
                self.emit({"api": k, "schema": arg, "records": [rec], "kw": {}}, "CWrite" if k == "writer" else "CJsonWrite", expect="any")

    # --- piecewise-parsed schemas in use -----------------------------------------------------------------------
    def c_piecewise_use(self):
        """parent schemas that refer to a type BY NAME because the type was parsed separately into a named_schemas dict:
        canonical form, writers (self-contained header?), validate.  Several families in one history define the SAME full name
        ('Inner') differently, each in its own dictionary."""
        rng = self.rng
        # two families, each with its own dictionary and its own definition of 'Inner', used one after the other
        self.piecewise_parent(own_dict=True)
        self.piecewise_parent(own_dict=True)
        picks = [self.piecewise[-2], self.piecewise[-1]] + ([rng.choice(self.piecewise)] if rng.random() < 0.4 else [])
        pair = rng.choice(["canonical", "canonical", "writer"])
        for n, (slot, raw, defined) in enumerate(picks):
            arg = {"$slot": slot}
            k = pair if n < 2 else rng.choice(["canonical", "writer", "json_writer", "schemaless_writer", "validate"])
            if k == "canonical":
                self.emit({"api": "canonical", "schema": arg}, "CCanonical", expect="any")
            elif k == "validate":
                self.emit({"api": "validate", "schema": arg, "datum": DataGen(rng, "write", defined).gen(raw), "kw": {"raise_errors": False}},
                          "CValidate", expect="any")
            elif k == "schemaless_writer":
                self.emit({"api": k, "schema": arg, "record": DataGen(rng, "write", defined).gen(raw), "kw": {}}, "CWrite", expect="any")
            else:
                recs = [DataGen(rng, "write", defined).gen(raw) for _ in range(rng.randrange(0, 3))]
                self.emit({"api": k, "schema": arg, "records": recs, "kw": {}}, "CWrite" if k == "writer" else "CJsonWrite", expect="any")

    # --- the Writer object ----------------------------------------------------------------------------------------
    def c_writer_object(self):
        """Writer(...).write(...) ... flush(): records handed in one by one, some of them failing MIDWAY (a bad value in the
        last field, after bytes of the record were encoded); a failed call must leave no trace in what the later calls produce"""
        rng = self.rng
        raw = {"type": "record", "name": rng.choice(["R", "W"]), "fields": [
            {"name": "id", "type": "long"}, {"name": "name", "type": "string"},
            {"name": "tags", "type": {"type": "array", "items": "string"}},
            {"name": "color", "type": {"type": "enum", "name": "E", "symbols": ["A", "B"]}}]}
        defined = {"E": raw["fields"][3]["type"], raw["name"]: raw}
        arg = raw
        if rng.random() < 0.4:
            out = self.fresh_slot("P")
            self.emit({"api": "parse_schema", "schema": raw, "$out": out}, "CParse", expect="ok")
            self.parsed.append((out, raw, defined, False))
            arg = {"$slot": out}
        w = self.fresh_slot("WR")
        kw = rng.choice([{}, {}, {"sync_interval": 40}, {"codec": "deflate"}, {"validator": True}])
        self.emit({"api": "writer_new", "schema": arg, "kw": kw, "$out": w}, "CWrite", expect="ok")
        nw = rng.randrange(2, 6)
        force_bad = rng.randrange(nw - 1) if rng.random() < 0.8 else -1      # a midway failure followed by further writes
        for wi in range(nw):
            rec = DataGen(rng, "write", defined).gen(raw)
            if rng.random() < 0.25 or wi == force_bad:
                bad = rng.choice(["enum", "array", "first"]) if wi != force_bad else rng.choice(["enum", "array"])
                if bad == "enum":
                    rec["color"] = "NOPE"
                elif bad == "array":
                    rec["tags"] = ["ok", 5]
                else:
                    rec["id"] = "not a long"
                self.emit({"api": "writer_write", "writer": {"$slot": w}, "record": rec}, "(CFailing CWrite 0%nat)", expect="raise")
            else:
                self.emit({"api": "writer_write", "writer": {"$slot": w}, "record": rec}, "CWrite", expect="ok")
        self.emit({"api": "writer_flush", "writer": {"$slot": w}}, "CWrite", expect="ok")

    # --- the same full names, different definitions ---------------------------------------------------------
    def redefined_variant(self, fam):
        """one more definition of the family's names: enum symbols permuted / extended, fixed size changed,
        record fields reordered / retyped - same full names"""
        rng = self.rng
        ns = fam["ns"]
        syms = list(fam["symbols"])
        rng.shuffle(syms)
        if fam["variants"] and syms == fam["variants"][-1][1]["fields"][0]["type"].get("symbols"):
            syms.reverse()                                     # a permutation that really differs from the previous variant
        if rng.random() < 0.15:
            syms.insert(rng.randrange(len(syms) + 1), "Z%d" % rng.randrange(3))
        sub_fields = [{"name": "p", "type": rng.choice(["long", "long", "string", "double"])}, {"name": "q", "type": "string"}]
        if rng.random() < 0.5:
            sub_fields.reverse()
        enum = {"type": "enum", "name": "Color", "symbols": syms}
        fixed = {"type": "fixed", "name": "Fx", "size": rng.choice([1, 2, 4, 4])}
        sub = {"type": "record", "name": "Sub", "fields": sub_fields}
        fields = [{"name": "e", "type": enum}, {"name": "f", "type": fixed}, {"name": "s", "type": sub},
                  {"name": "e2", "type": {"type": "array", "items": "Color"}}, {"name": "n", "type": "long"}]
        if rng.random() < 0.4:
            fields.insert(rng.randrange(len(fields)), fields.pop(rng.randrange(3)))      # definition order changes too
            # a reference must not precede its definition
            names = [f["name"] for f in fields]
            if names.index("e2") < names.index("e"):
                fields.append(fields.pop(names.index("e2")))
        raw = {"type": "record", "name": "Rec", "fields": fields}
        if ns:
            raw["namespace"] = ns
        defined = {"Color": enum, "Fx": fixed, "Sub": sub, "Rec": raw}
        arg = raw
        k = rng.random()
        if k < 0.5:                        # its own parse_schema call, its own named_schemas dict
            out = self.fresh_slot("P")
            call = {"api": "parse_schema", "schema": raw, "$out": out}
            if k < 0.3:
                nsl = self.fresh_slot("N")
                self.emit({"api": "new_dict", "$out": nsl}, "")
                call["named_schemas"] = {"$slot": nsl}
            self.emit(call, "CParse", expect="ok")
            self.parsed.append((out, raw, defined, False))
            arg = {"$slot": out}
        return arg, raw, defined

    def c_redefined_names(self):
        rng = self.rng
        if not self.families or rng.random() < 0.15:
            self.families.append({"ns": rng.choice(["", "", "ns", "a.b"]), "symbols": rng.sample(["A", "B", "C", "D"], rng.randrange(2, 5)),
                                  "variants": []})
        fam = rng.choice(self.families)
        while len(fam["variants"]) < 2:
            fam["variants"].append(self.redefined_variant(fam))
        if len(fam["variants"]) < 5 and rng.random() < 0.4:
            fam["variants"].append(self.redefined_variant(fam))
        # each invocation: the family's names under (at least) two different definitions, one after the other
        order = rng.sample(fam["variants"], 2) + [rng.choice(fam["variants"]) for _ in range(rng.choice([0, 1]))]
        paired = rng.choice(["schemaless_writer", "writer", "json_writer", None, None])      # often the same writing API for both
        for arg, raw, defined in order:
            k = paired or rng.choice(["schemaless_writer", "schemaless_writer", "writer", "json_writer", "validate",
                                      "schemaless_reader", "reader", "json_reader"])
            if k in ("schemaless_writer", "writer", "json_writer", "validate"):
                recs = [DataGen(rng, "write", defined).gen(raw) for _ in range(rng.randrange(1, 3))]
                if k == "schemaless_writer":
                    self.emit({"api": k, "schema": arg, "record": recs[0], "kw": {}}, "CWrite", expect="ok")
                elif k == "writer":
                    self.emit({"api": k, "schema": arg, "records": recs, "kw": rng.choice([{}, {"validator": True}, {"codec": "deflate"}])}, "CWrite", expect="ok")
                elif k == "json_writer":
                    self.emit({"api": k, "schema": arg, "records": recs, "kw": {}}, "CJsonWrite", expect="ok")
                else:
                    self.emit({"api": k, "schema": arg, "datum": recs[0], "kw": {"raise_errors": rng.random() < 0.5}}, "CValidate", expect="ok")
            else:
                dg = DataGen(rng, "read", defined)
                recs = [dg.gen(raw) for _ in range(rng.randrange(1, 3))]
                if k == "schemaless_reader":
                    self.emit({"api": k, "schema": arg, "data": encode(raw, recs[0], defined)}, "(CRead [])", expect="ok")
                elif k == "reader":
                    self.emit({"api": k, "data": container(raw, recs, defined, rng.choice(["null", "deflate"]))}, "(CRead [])", expect="ok")
                else:
                    has_float = has_type(raw, defined, is_floaty)
                    text = "".join(json.dumps(to_json(raw, r, defined)) + "\n" for r in recs)
                    self.emit({"api": k, "schema": arg, "text": text}, "(CJsonRead [])", expect="any" if has_float else "ok")

    # --- '-type' hints, the same datum objects handed to several calls -------------------------------
    def c_union_hints(self):
        """unions of 2-3 look-alike record branches; dict data with a '-type' hint naming the 2nd/3rd branch (and tuple
        notation); the SAME datum objects are handed to several calls of the history"""
        rng = self.rng
        if self.hinted and rng.random() < 0.7:
            arg, raw, data = rng.choice(self.hinted)
        else:
            nb = rng.randrange(2, 4)
            ftypes = rng.choice([["long", "string"], ["int"], ["string", ["null", "long"]]])
            branches = [{"type": "record", "name": nm, "fields": [{"name": "x%d" % i, "type": t} for i, t in enumerate(ftypes)]}
                        for nm in ["A", "B", "C"][:nb]]
            raw = {"type": "record", "name": rng.choice(["R", "H"]), "fields": [
                {"name": "u", "type": branches},
                {"name": "l", "type": {"type": "array", "items": ["null"] + [b["name"] for b in branches]}},
                {"name": "n", "type": "long"}]}
            defined = {b["name"]: b for b in branches}

            def inner(hint_kind):
                b = rng.choice(branches[1:])
                body = {f["name"]: DataGen(rng, "write", defined).gen(f["type"]) for f in b["fields"]}
                if hint_kind == "dict":
                    return dict({"-type": b["name"]}, **body)
                if hint_kind == "tuple":
                    return (b["name"], body)
                return body
            data = []
            for _ in range(2):
                kind = rng.choice(["dict", "dict", "dict", "tuple", "none"])
                data.append({"u": inner(kind), "l": [inner(rng.choice(["dict", "tuple"])) for _ in range(rng.randrange(0, 3))],
                             "n": rng.randrange(100)})
            arg = raw
            if rng.random() < 0.5:
                out = self.fresh_slot("P")
                self.emit({"api": "parse_schema", "schema": raw, "$out": out}, "CParse", expect="ok")
                self.parsed.append((out, raw, defined, False))
                arg = {"$slot": out}
            self.hinted.append((arg, raw, data))
        for _ in range(rng.choice([1, 2])):
            d = rng.choice(data)                                     # the same OBJECT every time it is picked
            k = rng.choice(["schemaless_writer", "schemaless_writer", "writer", "json_writer", "validate"])
            if k == "schemaless_writer":
                self.emit({"api": k, "schema": arg, "record": d, "kw": rng.choice([{}, {}, {"strict": True}])}, "CWrite", expect="any", shared_data=True)
            elif k == "writer":
                self.emit({"api": k, "schema": arg, "records": [d] if rng.random() < 0.5 else data, "kw": rng.choice([{}, {"validator": True}])},
                          "CWrite", expect="any", shared_data=True)
            elif k == "json_writer":
                self.emit({"api": k, "schema": arg, "records": [d], "kw": {}}, "CJsonWrite", expect="any", shared_data=True)
            else:
                self.emit({"api": k, "schema": arg, "datum": d, "kw": {"raise_errors": False}}, "CValidate", expect="any", shared_data=True)

    # --- foreign / legacy files whose header schema has a mismatching field default -----------------------
    def c_legacy_defaults(self):
        """hand-built container files whose header schema fastavro's own parse rejects (a field default that does not match
        the field type): read with a reader schema (default errors ignored) and without (SchemaParseException), both orders"""
        rng = self.rng
        if self.legacy and rng.random() < 0.75:
            data, good = rng.choice(self.legacy)
        else:
            bad = rng.choice([("int", None), ("string", 5), ("long", "x"), ({"type": "array", "items": "int"}, {}), ("boolean", 0)])
            w = {"type": "record", "name": rng.choice(["R", "Legacy"]), "fields": [
                {"name": "a", "type": bad[0], "default": bad[1]}, {"name": "b", "type": "string"}]}
            good = {"type": "record", "name": w["name"], "fields": [{"name": "a", "type": bad[0]}, {"name": "b", "type": "string"}]}
            defined = {}
            dg = DataGen(rng, "read", defined)
            recs = [dg.gen(good) for _ in range(rng.randrange(1, 4))]
            data = container(w, recs, defined, rng.choice(["null", "deflate"]))
            self.legacy.append((data, good))
        for k in rng.choice([["with", "without"], ["without", "with"], ["with", "block"], ["with", "without", "block"], ["without"],
                             ["block", "with", "without"]]):
            if k == "with":
                self.emit({"api": "reader", "data": data, "reader_schema": good}, "(CRead [])", expect="ok")
            elif k == "without":
                self.emit({"api": "reader", "data": data}, "(CFailing (CRead []) 0%nat)", expect="raise")
            else:
                self.emit({"api": "block_reader", "data": data}, "(CFailing (CRead []) 0%nat)", expect="raise")

    def c_default_aliasing(self):
        """two default-supplying reads in a row with ONE reader / JSON schema object; the consumer adds to every container
        of what the first read returned before the second read starts"""
        rng = self.rng
        arg, raw, defined = self.pick_defaulted()
        k = rng.choice(["resolve", "resolve_container", "json_reader"])
        # the writer wrote none of the container-typed defaulted fields
        wfields = [f for f in raw["fields"] if "default" not in f or (f["name"] in ("ds", "dl", "db") and rng.random() < 0.5)]
        wraw = {"type": "record", "name": raw["name"], "fields": [{k2: v for k2, v in f.items() if k2 != "default"} for f in wfields]}
        for first in (True, False):
            dg = DataGen(rng, "read", defined)
            if k == "resolve":
                call = {"api": "schemaless_reader", "schema": wraw, "data": encode(wraw, dg.gen(wraw), defined), "reader_schema": arg}
                ab = "(CRead [])"
            elif k == "resolve_container":
                recs = [dg.gen(wraw) for _ in range(rng.randrange(1, 4))]
                call = {"api": "reader", "data": container(wraw, recs, defined, "null"), "reader_schema": arg}
                ab = "(CRead [])"
            else:
                recs = [dg.gen(wraw) for _ in range(rng.randrange(1, 3))]
                text = "".join(json.dumps({f["name"]: to_json(f["type"], r[f["name"]], defined) for f in wraw["fields"]}) + "\n" for r in recs)
                call = {"api": "json_reader", "schema": arg, "text": text}
                ab = "(CJsonRead [])"
            if first:
                call["$mutate_result"] = True
            self.emit(call, ab, expect="ok")

    # --- same writer name / reader name pair, reader aliases present vs absent --------------------------------------
    def c_alias_pairs(self):
        """schema resolution between a writer type 'Old...' and a reader type 'New...': the reader carries the alias in one
        call and not in the other (records, enums, fixed; schemaless_reader and reader with a reader schema), both orders"""
        rng = self.rng
        kind = rng.choice(["record", "record", "enum", "fixed"])
        ns = rng.choice(["", "", "ns"])
        q = (lambda n: ns + "." + n) if ns else (lambda n: n)
        if kind == "record":
            w = {"type": "record", "name": q("OldRec"), "fields": [{"name": "a", "type": "long"}, {"name": "b", "type": "string"}]}
            mk = lambda alias: dict({"type": "record", "name": q("NewRec"), "fields": [{"name": "a", "type": "long"}, {"name": "b", "type": "string"}]},
                                    **({"aliases": [rng.choice([q("OldRec"), "OldRec"])]} if alias else {}))
        else:
            inner_w = ({"type": "enum", "name": q("OldE"), "symbols": ["A", "B", "C"]} if kind == "enum"
                       else {"type": "fixed", "name": q("OldF"), "size": 3})
            w = {"type": "record", "name": q("Holder"), "fields": [{"name": "x", "type": inner_w}, {"name": "n", "type": "long"}]}

            def mk(alias):
                inner = ({"type": "enum", "name": q("NewE"), "symbols": ["A", "B", "C"]} if kind == "enum"
                         else {"type": "fixed", "name": q("NewF"), "size": 3})
                if alias:
                    inner["aliases"] = [inner_w["name"] if rng.random() < 0.5 else inner_w["name"].split(".")[-1]]
                return {"type": "record", "name": q("Holder"), "fields": [{"name": "x", "type": inner}, {"name": "n", "type": "long"}]}
        defined = {}
        order = rng.choice([[True, False], [False, True], [True, False, True], [False, True, False]])
        for alias in order:
            r = mk(alias)
            dg = DataGen(rng, "read", defined)
            arg_r = r
            if rng.random() < 0.3:
                out = self.fresh_slot("P")
                self.emit({"api": "parse_schema", "schema": r, "$out": out}, "CParse", expect="ok")
                arg_r = {"$slot": out}
            ab = "(CRead [])" if alias else "(CFailing (CRead []) 0%nat)"
            if rng.random() < 0.6:
                self.emit({"api": "schemaless_reader", "schema": w, "data": encode(w, dg.gen(w), defined), "reader_schema": arg_r},
                          ab, expect="any")
            else:
                recs = [dg.gen(w) for _ in range(rng.randrange(1, 3))]
                self.emit({"api": "reader", "data": container(w, recs, defined, "null"), "reader_schema": arg_r}, ab, expect="any")

    # --- names that only an EARLIER call defined ---------------------------------------------
    def c_dangling_reference(self):
        """a schema that merely REFERS to a type name (defined by other schemas of the history, never by itself):
        UnknownType in a fresh interpreter, whatever was read, written or parsed before"""
        rng = self.rng
        name = rng.choice(["Inner", "Inner", "E", "F", "D", "Sub", "DE", "E2", "Other", "R"])
        shape = rng.choice(["array", "record", "union"])
        if shape == "array":
            raw = {"type": "array", "items": name}
        elif shape == "union":
            raw = {"type": "record", "name": "Ref", "fields": [{"name": "x", "type": ["null", name]}]}
        else:
            raw = {"type": "record", "name": "Ref", "fields": [{"name": "x", "type": name}, {"name": "n", "type": "long"}]}
        data = rng.choice([b"\x02\x06\x08\x00", b"\x02\x00\x02", b"\x00\x00", bytes(rng.randrange(8) for _ in range(6))])
        api = rng.choice(["schemaless_reader", "schemaless_reader", "reader", "schemaless_writer", "validate", "json_reader", "canonical"])
        fail = lambda t: "(CFailing %s 0%%nat)" % t
        if api == "schemaless_reader":
            self.emit({"api": api, "schema": raw, "data": data}, fail("(CRead [])"), expect="raise")
        elif api == "reader":
            hdr = raw if shape != "array" else {"type": "record", "name": "Ref", "fields": [{"name": "x", "type": raw}]}
            out = b"Obj\x01" + zz(2) + encode("string", "avro.schema", {}) + encode("bytes", json.dumps(hdr).encode(), {}) + \
                encode("string", "avro.codec", {}) + encode("bytes", b"null", {}) + b"\x00" + SYNC + zz(1) + zz(len(data)) + data + SYNC
            self.emit({"api": "reader", "data": out}, fail("(CRead [])"), expect="raise")
        elif api == "schemaless_writer":
            self.emit({"api": api, "schema": raw, "record": {"x": None, "n": 1} if shape != "array" else [], "kw": {}}, fail("CWrite"), expect="raise")
        elif api == "validate":
            self.emit({"api": api, "schema": raw, "datum": {"x": None, "n": 1} if shape != "array" else [], "kw": {"raise_errors": False}},
                      fail("CValidate"), expect="raise")
        elif api == "json_reader":
            self.emit({"api": api, "schema": raw, "text": '{"x": null, "n": 1}\n' if shape != "array" else "[]\n"}, fail("(CJsonRead [])"), expect="raise")
        else:
            self.emit({"api": "canonical", "schema": raw}, "CCanonical", expect="any")

    # --- lazy readers ----------------------------------------------------------------------------
    def c_lazy_readers(self):
        """reader objects are lazy: open file A (header parsed), read file B - which defines the same type names
        differently - completely, then consume A.  A's schema uses its named type a second time BY REFERENCE."""
        rng = self.rng
        da, db = {}, {}
        ia = SchemaGen(rng, allow_decimal=False).record("Inner", 2, da)
        ib = SchemaGen(rng, allow_decimal=False).record("Inner", 2, db)
        a = {"type": "record", "name": rng.choice(["R", "Outer"]), "fields": [
            {"name": "first", "type": ia}, {"name": "second", "type": "Inner"},
            {"name": "more", "type": {"type": "array", "items": "Inner"}}]}
        b = {"type": "record", "name": rng.choice(["R", "Other"]), "fields": [{"name": "item", "type": ib}, {"name": "again", "type": "Inner"}]}
        ga, gb = DataGen(rng, "read", da), DataGen(rng, "read", db)
        fa = container(a, [ga.gen(a) for _ in range(rng.randrange(1, 4))], da, rng.choice(["null", "deflate"]))
        fb = container(b, [gb.gen(b) for _ in range(rng.randrange(1, 4))], db, "null")
        ra = self.fresh_slot("RD")
        self.emit({"api": "reader_open", "data": fa, "$out": ra}, "(CRead [])", expect="ok")
        k = rng.random()
        if k < 0.6:
            self.emit({"api": "reader", "data": fb}, "(CRead [])", expect="ok")
        elif k < 0.8:
            rb = self.fresh_slot("RD")
            self.emit({"api": "reader_open", "data": fb, "$out": rb}, "(CRead [])", expect="ok")
            self.emit({"api": "reader_consume", "reader": {"$slot": rb}}, "(CRead [])", expect="ok")
        else:
            dgb = DataGen(rng, "read", db)
            self.emit({"api": "schemaless_reader", "schema": b, "data": encode(b, dgb.gen(b), db)}, "(CRead [])", expect="ok")
        if rng.random() < 0.3:
            self.c_canonical()
        self.emit({"api": "reader_consume", "reader": {"$slot": ra}}, "(CRead [])", expect="ok")

    def c_read_truncated(self):
        """truncated input: the encoding of the first j fields only; field j is a long/string, so the
        read raises exactly there, after the decimals of the first j fields"""
        rng = self.rng
        raw, defined = self.new_schema()
        cut = [i for i, f in enumerate(raw["fields"]) if type_of(lookup(f["type"], defined)) in ("long", "int", "string", "double")
               and not (isinstance(f["type"], dict) and "logicalType" in f["type"])]
        if not cut:
            raw["fields"].append({"name": "tail", "type": "long"})
            cut = [len(raw["fields"]) - 1]
        j = rng.choice(cut)
        dg = DataGen(rng, "read", defined)
        data = b""
        for f in raw["fields"][:j]:
            data += encode(f["type"], dg.gen(f["type"], 1), defined)
        self.emit({"api": "schemaless_reader", "schema": raw, "data": data},
                  coq_call("CRead", dg.trace, failing_k=len(dg.trace)), expect="raise", decimals=len(dg.trace))

    def c_read_decimal_focus(self):
        """a record of decimals read under precisions smaller than the digits on the wire (rounding),
        now and then a precision of 0 (accepted by parse_schema, rejected by the context: raises midway)"""
        rng = self.rng
        n = rng.randrange(1, 4)
        fields, defined = [], {}
        for i in range(n):
            p = rng.choice([0, 1, 2, 2, 3, 5, 9]) if rng.random() < 0.5 else rng.choice([1, 2, 3, 4, 6, 28, 30])
            sc = rng.randrange(0, min(p, 4) + 1) if p else 0
            t = {"type": "bytes", "logicalType": "decimal", "precision": p, "scale": sc}
            if rng.random() < 0.3:
                t = {"type": "array", "items": t}
            fields.append({"name": "d%d" % i, "type": t})
            if rng.random() < 0.4:
                fields.append({"name": "s%d" % i, "type": rng.choice(["string", "long", ["null", "int"]])})
        raw = {"type": "record", "name": rng.choice(["R", "Dec", "Inner"]), "fields": fields}
        dg = DataGen(rng, "read", defined)
        v = dg.gen(raw)
        data = encode(raw, v, defined)
        arg = raw
        if rng.random() < 0.4:
            out = self.fresh_slot("P")
            self.emit({"api": "parse_schema", "schema": raw, "$out": out}, "CParse", expect="ok")
            self.parsed.append((out, raw, defined, False))
            arg = {"$slot": out}
        kind = rng.choice(["schemaless", "schemaless", "container", "json"])
        if kind == "schemaless":
            self.emit({"api": "schemaless_reader", "schema": arg, "data": data}, coq_call("CRead", dg.trace),
                      expect="any", decimals=len(dg.trace))
        elif kind == "container":
            dg2 = DataGen(rng, "read", defined)
            recs = [dg2.gen(raw) for _ in range(rng.randrange(1, 4))]
            self.emit({"api": "reader", "data": container(raw, recs, defined, rng.choice(["null", "deflate"]))},
                      coq_call("CRead", dg2.trace), expect="any", decimals=len(dg2.trace))
        else:
            text = json.dumps(to_json(raw, v, defined)) + "\n"
            self.emit({"api": "json_reader", "schema": arg, "text": text}, coq_call("CJsonRead", dg.trace),
                      expect="any", decimals=len(dg.trace))

    def c_writer(self):
        rng = self.rng
        arg, raw, defined, _ = self.pick_schema()
        recs = [DataGen(rng, "write", defined).gen(raw) for _ in range(rng.randrange(0, 5))]
        expect = "ok"
        if recs and rng.random() < 0.3:                    # non-conforming record in the middle of a writer() call
            bad = dict(recs[0])
            bad[rng.choice(raw["fields"])["name"]] = {"not": "conforming"}
            recs.insert(len(recs) // 2 + (1 if len(recs) > 1 else 0), bad)
            expect = "any"
        call = {"api": "writer", "schema": arg, "records": recs, "kw": {}}
        if rng.random() < 0.4:
            call["kw"]["codec"] = "deflate"
        if rng.random() < 0.3:
            call["kw"]["validator"] = True
        if rng.random() < 0.2:
            call["kw"]["sync_interval"] = rng.choice([0, 1, 50])
        if rng.random() < 0.2:
            call["kw"].update(rng.choice([{"strict": True}, {"strict_allow_default": True}, {"disable_tuple_notation": True}]))
        if recs and rng.random() < 0.2:
            recs[-1] = dict(recs[-1], extra_key=1)
            expect = "any"
        if rng.random() < 0.3:
            call["metadata"] = {"k": "v"} if rng.random() < 0.7 else {}
        if rng.random() < 0.1:
            call["kw"]["codec"] = "nosuchcodec"
            expect = "raise"
        self.emit(call, "CWrite", expect=expect)

    def c_reader(self):
        rng = self.rng
        arg, raw, defined, dg, shared = self.read_input()
        recs = [dg.gen(raw) for _ in range(rng.randrange(0, 5))]
        data = container(raw, recs, defined, rng.choice(["null", "deflate"]), per_block=rng.choice([1, 2, 10]))
        call = {"api": "reader", "data": data}
        if rng.random() < 0.25:
            call["reader_schema"] = arg
        # the writer schema travels in the header as raw JSON: by-name references are resolved inside the file
        self.emit(call, None if shared else coq_call("CRead", dg.trace), expect="any" if shared else "ok", decimals=len(dg.trace))

    def c_reader_truncated(self):
        rng = self.rng
        raw, defined = self.new_schema(allow_decimal=False)
        dg = DataGen(rng, "read", defined)
        recs = [dg.gen(raw) for _ in range(rng.randrange(1, 5))]
        data = container(raw, recs, defined, "null", per_block=2)
        cutat = rng.randrange(0, len(data))
        self.emit({"api": "reader", "data": data[:cutat]}, "(CFailing (CRead []) 0%nat)", expect="any")

    def c_validate(self):
        rng = self.rng
        arg, raw, defined, _ = self.pick_schema()
        d = DataGen(rng, "write", defined).gen(raw)
        if rng.random() < 0.4:
            d = dict(d)
            fn = rng.choice(raw["fields"])["name"]
            if rng.random() < 0.5:
                d[fn] = {"definitely": ["not", "conforming"]}
            else:
                d.pop(fn)
        re_ = rng.random() < 0.5
        kw = {"raise_errors": re_}
        if rng.random() < 0.25:
            kw.update(rng.choice([{"strict": True}, {"disable_tuple_notation": True}]))
        if isinstance(d, dict) and rng.random() < 0.2:
            d = dict(d)
            d["extra_key"] = 1
        if rng.random() < 0.7:
            self.emit({"api": "validate", "schema": arg, "datum": d, "kw": kw}, "CValidate", expect="any")
        else:
            ds = [d] + [DataGen(rng, "write", defined).gen(raw) for _ in range(rng.randrange(0, 3))]
            rng.shuffle(ds)
            self.emit({"api": "validate_many", "schema": arg, "records": ds, "kw": {"raise_errors": re_}}, "CValidate", expect="any")

    def c_canonical(self):
        arg, raw, defined, _ = self.pick_schema()
        self.emit({"api": "canonical", "schema": arg}, "CCanonical", expect="ok")

    def c_fingerprint(self):
        rng = self.rng
        _, raw, _, _ = self.pick_schema(want_slot=0)
        text = json.dumps(raw, separators=(",", ":"))
        alg = rng.choice(["CRC-64-AVRO", "MD5", "SHA-256", "md5", "sha1", "nope"])
        self.emit({"api": "fingerprint", "text": text, "algorithm": alg},
                  "CFingerprint" if alg != "nope" else "(CFailing CFingerprint 0%nat)", expect="raise" if alg == "nope" else "ok")

    def c_json_writer(self):
        rng = self.rng
        arg, raw, defined, _ = self.pick_schema()
        recs = [DataGen(rng, "write", defined).gen(raw) for _ in range(rng.randrange(0, 4))]
        self.emit({"api": "json_writer", "schema": arg, "records": recs, "kw": {}}, "CJsonWrite", expect="any")

    def c_json_reader(self):
        rng = self.rng
        # decimal-free (JSON reads of decimals are in c_read_decimal_focus, where the shape is simple enough
        # to predict the model call even if the text is rejected)
        arg, raw, defined, _ = self.pick_schema()
        for _ in range(20):
            if not (has_type(raw, defined, is_floaty) or has_type(raw, defined, is_decimal)):
                break
            raw, defined = self.new_schema(allow_decimal=False)
            arg = raw
        dg = DataGen(rng, "read", defined)
        recs = [dg.gen(raw) for _ in range(rng.randrange(1, 4))]
        try:
            text = "".join(json.dumps(to_json(raw, r, defined)) + "\n" for r in recs)
        except Exception:
            text = "{}\n"
        self.emit({"api": "json_reader", "schema": arg, "text": text},
                  "(CJsonRead [])" if not has_type(raw, defined, is_decimal) else None, expect="any")

    def c_generate(self):
        rng = self.rng
        if self.parsed and rng.random() < 0.4:
            cands = [p for p in self.parsed if not has_type(p[1], p[2], lambda s: isinstance(s, dict) and s.get("logicalType") == "uuid")]
            if cands:
                slot, raw, defined, _ = rng.choice(cands)
                self.emit({"api": "generate_many", "schema": {"$slot": slot}, "count": rng.randrange(1, 4), "seed": rng.randrange(1000)},
                          "CGenerate", expect="ok")
                return
        raw, defined = self.new_schema(allow_uuid=False)
        self.emit({"api": "generate_many", "schema": raw, "count": rng.randrange(1, 4), "seed": rng.randrange(1000)}, "CGenerate", expect="ok")

    def c_load(self):
        rng = self.rng
        child_def = {}
        child = SchemaGen(rng).record("Inner", 1, child_def)
        parent = {"type": "record", "name": rng.choice(["R", "Outer"]), "fields": [
            {"name": "x", "type": "Inner"}, {"name": "n", "type": rng.choice(["long", "string"])}]}
        files = {parent["name"]: json.dumps(parent), "Inner": json.dumps(child)}
        expect = "ok"
        if rng.random() < 0.25:
            del files["Inner"]
            expect = "raise"
        call = {"api": "load_schema", "files": files, "top": parent["name"]}
        if rng.random() < 0.3:
            call["named_schemas"] = {"$slot": self.dict_slot()[0]}
            # the caller's dict may already define Inner differently: outcome left open
            expect = "any"
        if expect == "ok" and rng.random() < 0.5:
            out = self.fresh_slot("P")
            call["$out"] = out
            d = dict(child_def)
            d[parent["name"]] = parent
            # load_schema returns the parent with the child inlined at its first use
            inl = json.loads(json.dumps(parent))
            inl["fields"][0]["type"] = child
            self.parsed.append((out, inl, d, "named_schemas" in call))
        self.emit(call, "CLoad" if expect != "raise" else "(CFailing CLoad 0%nat)", expect=expect)

    KINDS = [("c_parse", 5), ("c_schemaless_writer", 3), ("c_schemaless_reader", 3), ("c_read_truncated", 1), ("c_read_union_of_records", 2),
             ("c_defaults", 5), ("c_dangling_reference", 2), ("c_lazy_readers", 1),
             ("c_union_hints", 2), ("c_legacy_defaults", 2), ("c_redefined_names", 4), ("c_writer_object", 1), ("c_piecewise_use", 2), ("c_revalidate", 1), ("c_fixed_decimal_sequence", 1), ("c_default_aliasing", 1), ("c_alias_pairs", 1),
             ("c_read_decimal_focus", 3), ("c_writer", 3), ("c_reader", 2), ("c_reader_truncated", 1), ("c_validate", 3),
             ("c_canonical", 1), ("c_fingerprint", 1), ("c_json_writer", 2), ("c_json_reader", 1), ("c_generate", 1), ("c_load", 2)]

    def build(self):
        rng = self.rng
        names = [k for k, w in self.KINDS for _ in range(w)]
        self.c_parse()
        plan = [rng.choice(names) for _ in range(self.n)]
        for m in self.must:
            plan.insert(rng.randrange(len(plan) // 2 + 1), m)       # early enough to be followed by other calls
        done_must = 0
        for kname in plan:
            if sum(1 for c in self.calls if c["api"] not in ("new_dict", "mutate")) >= self.n and done_must >= len(self.must):
                break
            if kname in self.must and done_must < len(self.must):
                done_must += 1
            getattr(self, kname)()
        return self
