"""C18 - concurrent operations on distinct streams behave as if run sequentially.

corr:footprint         one operation of every kind, run once: the global cells that changed (snapshot of C17) must lie
                       within the shared write set the model declares for that operation (hypothesis of C18_interleaving).
corr:forced-schedule   the module-level decimal context is replaced FROM THE OUTSIDE by an instrumented decimal.Context
                       subclass; every thread blocks at each instrumented shared access (prec store, create_decimal,
                       scaleb) until the enumerated schedule lets it proceed.  ALL interleavings of these points for the
                       2- and 3-thread configurations are run; each thread's result is compared with its sequential result
                       (the property's predicate) and with the model's run_schedule on the same schedule.
                       An implementation that no longer touches a module-level context has no instrumented point:
                       every schedule is then the same run; the check falls back on the stress run.
corr:stress            8-16 threads, sys.setswitchinterval(1e-6), mixed operations sharing parsed schemas, every result
                       compared with the sequential result.
"""
import itertools, json, os, pickle, re, shutil, subprocess, sys, tempfile, time
from .. import core
from . import c17, c17_gen as G

SRCFACTS = ["inventory"]
RULE = ("forced schedules: every interleaving of the instrumented shared accesses (3 per decimal read) for 2 threads x 1 decimal "
        "(20 schedules), 2 threads x 2 decimals (924), 3 threads x 1 decimal (1680), a container reader vs a schemaless reader, "
        "threads sharing ONE parsed schema object and reading decimals of different precisions from their own BytesIO; "
        "thorough adds 3 threads x (2,1,1) decimals (all 18480) and random samples of larger configurations; "
        "stress: 8 (quick) / 16 (thorough) threads, mixed write/read/validate/parse/json/canonical operations with and "
        "without logical types, switch interval 1e-6 s; non-trivial = a schedule in which at least two threads interleave")
TRUSTED = ["CPython threading.Condition based scheduler of harness/props/c18_worker.py (one thread runs at a time, hand-over only "
           "at instrumented points)",
           "replacement of fastavro._logical_readers_py.decimal_context by a decimal.Context subclass is behaviour-preserving "
           "apart from the hand-over points (checked: sequential results under the proxy equal those without it)"]
ASSUMPTIONS = ["bytecode-level atomicity under the GIL: a step of the model is the code between two accesses to shared cells",
               "thread safety of the C libraries (BytesIO, zlib, decimal, json) on distinct objects",
               "generate_many (the random module's global generator) and caller-shared named_schemas dictionaries are outside "
               "the property's list of operations and are not run concurrently"]
PARTIAL = ["bytecode-level atomicity under the GIL and the C libraries' thread safety are assumed, not modelled",
           "instrumented points are the accesses to the cells with a write site in the source-facts inventory "
           "(decimal_context); the read-only tables are covered by corr:footprint and the stress run only"]

IMPORTS = "From Coq Require Import String.\nFrom FA Require Import model.Base model.Globals model.Threads.\n"
REPO = c17.REPO
WORKER = os.path.join(c17.HERE, "c18_worker.py")
F4_SIG = "C18:read_decimal:shared-decimal-context:precision-race"


def run_job(job, scratch, tag, timeout=900):
    inp = os.path.join(scratch, tag + ".job.pkl")
    outp = os.path.join(scratch, tag + ".out.json")
    with open(inp, "wb") as fh:
        pickle.dump(job, fh, protocol=4)
    p = subprocess.run([sys.executable, WORKER, inp, outp], env=c17.env_for(scratch), stdout=subprocess.PIPE,
                       stderr=subprocess.PIPE, timeout=timeout)
    if p.returncode != 0:
        raise RuntimeError("c18 worker failed (%s): %s" % (job["mode"], p.stderr.decode()[-1500:]))
    with open(outp) as fh:
        return json.load(fh)


# ----------------------------------------------------------------------------- configurations
DEC = lambda p, s: {"type": "bytes", "logicalType": "decimal", "precision": p, "scale": s}
SHARED = {"type": "record", "name": "R", "fields": [
    {"name": "a", "type": ["null", DEC(5, 2)]},
    {"name": "b", "type": ["null", DEC(2, 0)]},
    {"name": "c", "type": ["null", DEC(3, 1)]},
    {"name": "n", "type": "long"}]}


def shared_record(**vals):
    """wire-level record of SHARED with the given decimal fields set (unscaled ints), the others null"""
    r = {}
    for f in ("a", "b", "c"):
        r[f] = ("$branch", 1, G.Unscaled(vals[f])) if f in vals else ("$branch", 0, None)
    r["n"] = 7
    return r


def trace_of(rec):
    out = []
    for f, (p, s) in (("a", (5, 2)), ("b", (2, 0)), ("c", (3, 1))):
        if rec[f][1] == 1:
            out.append((p, s, rec[f][2].u))
    return out


def configurations(rng, thorough):
    """(name, setup calls, per-thread ops, per-thread model calls, max schedules or None=all)"""
    setup = [{"api": "parse_schema", "schema": SHARED, "$out": "S"}]
    sl = lambda rec: {"api": "schemaless_reader", "schema": {"$slot": "S"}, "data": G.encode(SHARED, rec, {})}
    A, B, C = shared_record(a=12345), shared_record(b=12345), shared_record(c=98765)
    AB, BA = shared_record(a=-99995, b=125), shared_record(b=135, c=-9995)
    cf = []
    cf.append(("2x1", setup, [[sl(A)], [sl(B)]], [G.coq_call("CRead", trace_of(A)), G.coq_call("CRead", trace_of(B))], None))
    cf.append(("3x1", setup, [[sl(A)], [sl(B)], [sl(C)]], [G.coq_call("CRead", trace_of(r)) for r in (A, B, C)], None))
    cf.append(("2x2", setup, [[sl(AB)], [sl(BA)]], [G.coq_call("CRead", trace_of(r)) for r in (AB, BA)], None))
    # a container reader (writer schema from the file header, two records) against a schemaless reader on the shared schema
    recs = [shared_record(a=1234567), shared_record(b=995)]
    cont = {"api": "reader", "data": G.container(SHARED, recs, {}, "deflate", per_block=1)}
    cf.append(("container-vs-schemaless", setup, [[cont], [sl(B)]],
               [G.coq_call("CRead", trace_of(recs[0]) + trace_of(recs[1])), G.coq_call("CRead", trace_of(B))], None))
    # same precision in both threads: no interleaving changes a result even in the current code
    A2 = shared_record(a=-54321)
    cf.append(("2x1-same-precision", setup, [[sl(A)], [sl(A2)]], [G.coq_call("CRead", trace_of(r)) for r in (A, A2)], None))
    # reads WITH A READER SCHEMA: one parsed reader-schema object shared by the threads, parsed anew for every schedule
    # (first use).  The harness wraps the "fields" list of that object - data it hands in, nothing of the tree under test -
    # in a list subclass whose iteration is an instrumented point.
    cf.extend(resolution_configurations(rng, thorough))
    # line-level switch points (sys.settrace in the worker threads) inside selected functions of the tree under test
    cf.extend(traced_configurations(rng, thorough))
    if thorough:
        cf.append(("3x(2,1,1)", setup, [[sl(AB)], [sl(B)], [sl(C)]], [G.coq_call("CRead", trace_of(r)) for r in (AB, B, C)], None))
        cf.append(("3x2-sample", setup, [[sl(AB)], [sl(BA)], [sl(shared_record(a=5, c=12355))]],
                   [G.coq_call("CRead", trace_of(r)) for r in (AB, BA, shared_record(a=5, c=12355))], 4000))
        cf.append(("4x1-sample", setup, [[sl(A)], [sl(B)], [sl(C)], [sl(A2)]],
                   [G.coq_call("CRead", trace_of(r)) for r in (A, B, C, A2)], 4000))
    return cf


RES_SIG = "C18:read-with-reader-schema:shared-parsed-reader-schema:result-differs-from-sequential"


def resolution_schemas(nf):
    w = {"type": "record", "name": "Wide", "fields": [{"name": "f%02d" % i, "type": "long" if i % 2 else "string"} for i in range(nf)]}
    r = json.loads(json.dumps(w))
    for f in r["fields"]:
        f["aliases"] = [f["name"] + "_old"]
    r["fields"][-1]["aliases"].append(r["fields"][-1]["name"])
    r["fields"][-1]["name"] = "renamed"
    r["fields"].append({"name": "extra", "type": "int", "default": 7})
    return w, r


def resolution_configurations(rng, thorough):
    out = []
    for name, nf, nthreads, cap in [("resolve-2threads", 3, 2, 1500), ("resolve-3threads", 2, 3, 1500)] + (
            [("resolve-2threads-wide", 6, 2, 6000)] if thorough else []):
        w, r = resolution_schemas(nf)
        setup = [{"api": "parse_schema", "schema": w, "$out": "W"},
                 {"api": "parse_schema", "schema": r, "$out": "RS", "$hook_fields": True}]
        threads = []
        for t in range(nthreads):
            rec = {"f%02d" % i: (t * 100 + i if i % 2 else "t%d-%d" % (t, i)) for i in range(nf)}
            kind = "schemaless" if t != 1 else "container"
            if kind == "schemaless":
                threads.append([{"api": "schemaless_reader", "schema": {"$slot": "W"}, "data": G.encode(w, rec, {}),
                                 "reader_schema": {"$slot": "RS"}}])
            else:
                threads.append([{"api": "reader", "data": G.container(w, [rec], {}, "null"), "reader_schema": {"$slot": "RS"}}])
        out.append(dict(name=name, setup=setup, threads=threads, mcalls=None, cap=cap, fresh_setup=True, sig=RES_SIG))
    return out


LOGICAL_SIG = "C18:logical-types:threads-handling-different-logical-types:result-differs-from-sequential"
WRITER_SIG = "C18:writer-construction:shared-parsed-schema:result-differs-from-sequential"


def traced_configurations(rng, thorough):
    import datetime, decimal, uuid
    out = []
    LT = {
        "time-micros": ({"type": "long", "logicalType": "time-micros"}, datetime.time(1, 2, 3, 456789), 3723456789),
        "date": ({"type": "int", "logicalType": "date"}, datetime.date(2020, 2, 29), 18321),
        "decimal": ({"type": "bytes", "logicalType": "decimal", "precision": 6, "scale": 2}, decimal.Decimal("1234.56"), G.Unscaled(123456)),
        "uuid": ({"type": "string", "logicalType": "uuid"}, uuid.UUID(int=0x1234567890abcdef1234567890abcdef), "12345678-90ab-cdef-1234-567890abcdef"),
        "timestamp-millis": ({"type": "long", "logicalType": "timestamp-millis"},
                             datetime.datetime(2021, 3, 4, 5, 6, 7, 891000, tzinfo=datetime.timezone.utc), 1614834367891),
        "time-millis": ({"type": "int", "logicalType": "time-millis"}, datetime.time(23, 59, 58, 123000), 86398123),
        "timestamp-micros": ({"type": "long", "logicalType": "timestamp-micros"},
                             datetime.datetime(1999, 12, 31, 23, 59, 59, 999999, tzinfo=datetime.timezone.utc), 946684799999999),
    }
    trace_lt = [["_schema_py.py", "extract_logical_type"]]
    pairs = [("time-micros", "date"), ("decimal", "uuid"), ("timestamp-millis", "time-millis")] + (
        [("timestamp-micros", "timestamp-millis"), ("date", "time-millis")] if thorough else [])
    for a, b in pairs:
        sa = {"type": "record", "name": "A", "fields": [{"name": "v", "type": LT[a][0]}]}
        sb = {"type": "record", "name": "B", "fields": [{"name": "v", "type": LT[b][0]}]}
        both = {"type": "record", "name": "AB", "fields": [{"name": "a", "type": LT[a][0]}, {"name": "b", "type": LT[b][0]}]}
        setup = [{"api": "parse_schema", "schema": sa, "$out": "SA"}, {"api": "parse_schema", "schema": sb, "$out": "SB"},
                 {"api": "parse_schema", "schema": both, "$out": "SAB"}]
        # each thread its own logical type, on its own parsed schema
        out.append(dict(name="logical-write-%s-vs-%s" % (a, b), setup=setup, mcalls=None, cap=150, fresh_setup=False, sig=LOGICAL_SIG,
                        trace=trace_lt, isolate=True,
                        threads=[[{"api": "schemaless_writer", "schema": {"$slot": "SA"}, "record": {"v": LT[a][1]}, "kw": {}}],
                                 [{"api": "schemaless_writer", "schema": {"$slot": "SB"}, "record": {"v": LT[b][1]}, "kw": {}}]]))
        out.append(dict(name="logical-read-%s-vs-%s" % (a, b), setup=setup, mcalls=None, cap=150, fresh_setup=False, sig=LOGICAL_SIG,
                        trace=trace_lt, isolate=True,
                        threads=[[{"api": "schemaless_reader", "schema": {"$slot": "SA"}, "data": G.encode(sa, {"v": LT[a][2]}, {})}],
                                 [{"api": "schemaless_reader", "schema": {"$slot": "SB"}, "data": G.encode(sb, {"v": LT[b][2]}, {})}]]))
        # both types in one SHARED parsed schema, one thread writes, the other reads
        out.append(dict(name="logical-shared-%s+%s" % (a, b), setup=setup, mcalls=None, cap=150, fresh_setup=False, sig=LOGICAL_SIG,
                        trace=trace_lt, isolate=True,
                        threads=[[{"api": "schemaless_writer", "schema": {"$slot": "SAB"}, "record": {"a": LT[a][1], "b": LT[b][1]}, "kw": {}}],
                                 [{"api": "schemaless_reader", "schema": {"$slot": "SAB"},
                                   "data": G.encode(both, {"a": LT[a][2], "b": LT[b][2]}, {})}]]))
    # construction of a container writer on a shared PARSED schema (parsed piecewise: the child type only in the shared dict)
    child = {"type": "record", "name": "Child", "fields": [{"name": "x", "type": "long"}, {"name": "s", "type": "string"}]}
    parent = {"type": "record", "name": "Parent", "fields": [{"name": "c", "type": "Child"}, {"name": "n", "type": "long"}]}
    inline = {"type": "record", "name": "Parent", "fields": [{"name": "c", "type": child}, {"name": "d", "type": "Child"}, {"name": "n", "type": "long"}]}
    defined = {"Child": child, "Parent": parent}
    rec = lambda k: {"c": {"x": k, "s": "s%d" % k}, "n": k + 1}
    trace_w = [["_write_py.py", "__init__"], ["_schema_py.py", "parse_schema"], ["_schema_py.py", "to_parsing_canonical_form"]]
    piecewise = [{"api": "new_dict", "$out": "N"},
                 {"api": "parse_schema", "schema": child, "named_schemas": {"$slot": "N"}, "$out": "C"},
                 {"api": "parse_schema", "schema": parent, "named_schemas": {"$slot": "N"}, "$out": "P"}]
    t0 = [{"api": "writer", "schema": {"$slot": "P"}, "records": [rec(1), rec(2)], "kw": {}}]
    others = {
        "parse_schema": {"api": "parse_schema", "schema": {"$slot": "P"}},
        "schemaless_writer": {"api": "schemaless_writer", "schema": {"$slot": "P"}, "record": rec(5), "kw": {}},
        "writer": {"api": "writer", "schema": {"$slot": "P"}, "records": [rec(7)], "kw": {"codec": "deflate"}},
        "json_writer": {"api": "json_writer", "schema": {"$slot": "P"}, "records": [rec(8)], "kw": {}},
        "canonical": {"api": "canonical", "schema": {"$slot": "P"}},
        "validate": {"api": "validate", "schema": {"$slot": "P"}, "datum": rec(9), "kw": {}},
        "schemaless_reader": {"api": "schemaless_reader", "schema": {"$slot": "P"}, "data": G.encode(parent, rec(3), defined)},
        "reader-with-reader-schema": {"api": "reader", "data": G.container(inline, [dict(rec(4), d={"x": 0, "s": ""})], defined, "null"),
                                      "reader_schema": {"$slot": "P"}},
    }
    for k, op in others.items():
        out.append(dict(name="writer-construction-vs-%s" % k, setup=piecewise, threads=[t0, [op]], mcalls=None, cap=120,
                        fresh_setup=True, sig=WRITER_SIG, trace=trace_w, isolate=True))
    out.append(dict(name="writer-construction-inline-schema-x2", setup=[{"api": "parse_schema", "schema": inline, "$out": "P"}],
                    threads=[[{"api": "writer", "schema": {"$slot": "P"}, "records": [dict(rec(1), d={"x": 1, "s": "d"})], "kw": {}}],
                             [{"api": "writer", "schema": {"$slot": "P"}, "records": [dict(rec(2), d={"x": 2, "s": "e"})], "kw": {}}]],
                    mcalls=None, cap=120, fresh_setup=True, sig=WRITER_SIG, trace=trace_w, isolate=True))
    if thorough:
        for c in out:
            c["cap"] = c["cap"] * 8
    # overlapping writer() calls with DIFFERENT strict / strict_allow_default / disable_tuple_notation flags on data for which
    # the flag matters; line-level points inside writer() and Writer.write / JSONWriter.write
    ws = {"type": "record", "name": "W", "fields": [{"name": "a", "type": "long"}, {"name": "u", "type": ["null", "string", {"type": "record", "name": "T", "fields": [{"name": "q", "type": "long"}]}]},
                                                        {"name": "dflt", "type": "int", "default": 3}]}
    wsetup = [{"api": "parse_schema", "schema": ws, "$out": "WS"}]
    extra = [{"a": 1, "u": None, "dflt": 1, "extra": 9}, {"a": 2, "u": "x", "dflt": 2, "extra": 9}]
    plain = [{"a": 3, "u": "y", "dflt": 3}]
    missing = [{"a": 4, "u": None}, {"a": 5, "u": None}]
    tupled = [{"a": 6, "u": ("T", {"q": 1}), "dflt": 0}, {"a": 7, "u": ("T", {"q": 2}), "dflt": 0}]
    wopt = dict(mcalls=None, cap=None, fresh_setup=False, isolate=True, family="preempt", samples=1000, random=20 if not thorough else 200,
                trace=[["_write_py.py", "writer"], ["_write_py.py", "write"], ["json_write.py", "json_writer"]],
                sig="C18:writer:overlapping-calls-with-different-option-flags:result-differs-from-sequential")
    W_ = lambda api, recs, **kw: [{"api": api, "schema": {"$slot": "WS"}, "records": recs, "kw": kw}]
    out.append(dict(wopt, name="writer-flags-extra-field-vs-strict", setup=wsetup, threads=[W_("writer", extra), W_("writer", plain, strict=True)]))
    out.append(dict(wopt, name="writer-flags-strict-vs-extra-field", setup=wsetup, threads=[W_("writer", plain + plain, strict=True), W_("writer", extra)]))
    out.append(dict(wopt, name="writer-flags-missing-default-vs-strict", setup=wsetup,
                    threads=[W_("writer", missing, strict_allow_default=True), W_("writer", plain, strict=True)]))
    out.append(dict(wopt, name="writer-flags-tuple-notation", setup=wsetup,
                    threads=[W_("writer", tupled), W_("writer", plain, disable_tuple_notation=True)]))
    out.append(dict(wopt, name="json_writer-flags-extra-field-vs-strict", setup=wsetup,
                    threads=[W_("json_writer", extra), W_("json_writer", plain, strict=True)]))
    # validate_many with invalid records (raise_errors=True) overlapping a validate_many of valid records
    vs = {"type": "record", "name": "V", "fields": [{"name": "a", "type": "long"}, {"name": "s", "type": "string"}]}
    good = [{"a": i, "s": "x%d" % i} for i in range(3)]
    bad = [{"a": 1, "s": "ok"}, {"a": "not a long", "s": 5}, {"a": 2, "s": "ok"}]
    vm = dict(mcalls=None, cap=None, fresh_setup=False, isolate=True, family="preempt", samples=1000, random=20 if not thorough else 200,
              trace=[["_validation_py.py", "validate_many"]],
              sig="C18:validate_many:overlapping-calls:result-differs-from-sequential")
    V_ = lambda recs, **kw: [{"api": "validate_many", "schema": {"$slot": "VS"}, "records": recs, "kw": kw}]
    vsetup = [{"api": "parse_schema", "schema": vs, "$out": "VS"}]
    out.append(dict(vm, name="validate_many-invalid-raise-vs-valid", setup=vsetup, threads=[V_(bad, raise_errors=True), V_(good)]))
    out.append(dict(vm, name="validate_many-invalid-noraise-vs-valid", setup=vsetup, threads=[V_(bad, raise_errors=False), V_(good, raise_errors=False)]))
    out.append(dict(vm, name="validate_many-valid-vs-invalid-raise", setup=vsetup, threads=[V_(good + good), V_(bad, raise_errors=True)]))
    # the VERY FIRST write of the process done by several threads at once: the forked worker has imported fastavro and parsed
    # the schema, nothing has been written yet (the sequential reference comes from another process); line-level points in
    # the encoder's integer path
    ints = {"type": "record", "name": "Ints", "fields": [{"name": "a", "type": "int"}, {"name": "b", "type": "long"},
                                                          {"name": "c", "type": {"type": "array", "items": "int"}}]}
    first = dict(mcalls=None, cap=None, fresh_setup=False, isolate=True, family="preempt", samples=30, random=10 if not thorough else 100,
                 trace=[["binary_encoder.py", "*"]],
                 sig="C18:first-write-of-the-process:concurrent-writers:result-differs-from-sequential")
    out.append(dict(first, name="first-write-x2", setup=[{"api": "parse_schema", "schema": ints, "$out": "I"}],
                    threads=[[{"api": "schemaless_writer", "schema": {"$slot": "I"}, "record": {"a": 5, "b": -3, "c": [60, -64, 0]}, "kw": {}}],
                             [{"api": "schemaless_writer", "schema": {"$slot": "I"}, "record": {"a": 63, "b": 7, "c": [1, 2]}, "kw": {}}]]))
    out.append(dict(first, name="first-write-writer-vs-schemaless", setup=[{"api": "parse_schema", "schema": ints, "$out": "I"}],
                    threads=[[{"api": "writer", "schema": {"$slot": "I"}, "records": [{"a": 1, "b": 2, "c": [3]}], "kw": {}}],
                             [{"api": "schemaless_writer", "schema": {"$slot": "I"}, "record": {"a": 62, "b": -64, "c": []}, "kw": {}}]]))
    # deeply nested recursive data in both threads (two linked lists): call-level switch points in the recursive functions
    node = {"type": "record", "name": "Node", "fields": [{"name": "v", "type": "long"}, {"name": "next", "type": ["null", "Node"]}]}
    ndef = {"Node": node}

    def chain(n, base, wire):
        cur = None
        for i in range(n):
            nxt = (("$branch", 0, None) if cur is None else ("$branch", 1, cur)) if wire else cur
            cur = {"v": base + i, "next": nxt}
        return cur
    depth = 120
    setup_n = [{"api": "parse_schema", "schema": node, "$out": "N"}]
    deep = dict(mcalls=None, cap=None, fresh_setup=False, isolate=True, family="preempt", samples=16 if not thorough else 60,
                random=2 if not thorough else 10, recursion_limit=20000,
                sig="C18:deeply-nested-data:concurrent-operations:result-differs-from-sequential")
    out.append(dict(deep, name="deep-read-x2", setup=setup_n, trace_calls=[["_read_py.py", "read_data"]],
                    threads=[[{"api": "schemaless_reader", "schema": {"$slot": "N"}, "data": G.encode(node, chain(depth, t * 1000, True), ndef)}]
                             for t in range(2)]))
    out.append(dict(deep, name="deep-write-x2", setup=setup_n, trace_calls=[["_write_py.py", "write_data"]],
                    threads=[[{"api": "schemaless_writer", "schema": {"$slot": "N"}, "record": chain(40, t * 1000, False), "kw": {}}]
                             for t in range(2)]))         # (writing a union validates the rest of the chain at every node: quadratic)
    out.append(dict(deep, name="deep-validate-vs-read", setup=setup_n,
                    trace_calls=[["_validation_py.py", "_validate"], ["_read_py.py", "read_data"]],
                    threads=[[{"api": "validate", "schema": {"$slot": "N"}, "datum": chain(depth, 5, False), "kw": {}}],
                             [{"api": "schemaless_reader", "schema": {"$slot": "N"}, "data": G.encode(node, chain(depth, 7, True), ndef)}]]))
    # a large schema registry: one thread validates a few hundred DISTINCT record types while the other validates one it has
    # validated before; line-level points in the record validator
    nrec = 300
    big = {"type": "record", "name": "Big", "fields": [
        {"name": "f%d" % i, "type": {"type": "record", "name": "R%d" % i, "fields": [{"name": "v", "type": "int"}]}} for i in range(nrec)]}
    small = {"type": "record", "name": "Small", "namespace": "reg", "fields": [{"name": "x", "type": "long"},
                                                                               {"name": "s", "type": {"type": "record", "name": "Sub", "fields": [{"name": "y", "type": "string"}]}}]}
    bigrec = {"f%d" % i: {"v": i} for i in range(nrec)}
    smallrec = {"x": 1, "s": {"y": "z"}}
    reg_setup = [{"api": "parse_schema", "schema": big, "$out": "B"}, {"api": "parse_schema", "schema": small, "$out": "S"},
                 {"api": "validate", "schema": {"$slot": "S"}, "datum": smallrec, "kw": {}}]           # Small has been validated before
    reg = dict(mcalls=None, cap=None, fresh_setup=True, isolate=True, family="preempt", preempt_only=[0], samples=1000, random=0,
               trace=[["_validation_py.py", "_validate_record"], ["_validation_py.py", "_record_fullname"]],
               sig="C18:validate:many-distinct-record-types-in-another-thread:result-differs-from-sequential")
    out.append(dict(reg, name="registry-validate-vs-validate", setup=reg_setup,
                    threads=[[{"api": "validate", "schema": {"$slot": "S"}, "datum": smallrec, "kw": {}}],
                             [{"api": "validate", "schema": {"$slot": "B"}, "datum": bigrec, "kw": {}}]]))
    out.append(dict(reg, name="registry-writer-validator-vs-validate_many", setup=reg_setup,
                    threads=[[{"api": "writer", "schema": {"$slot": "S"}, "records": [smallrec, smallrec], "kw": {"validator": True}}],
                             [{"api": "validate_many", "schema": {"$slot": "B"}, "records": [bigrec], "kw": {}}]]))
    return out


def single_preemption(counts):
    """thread i runs k of its steps, every other thread runs to completion (in index order), thread i finishes"""
    out = []
    for i, c in enumerate(counts):
        others = [j for j, cj in enumerate(counts) if j != i for _ in range(cj)]
        for k in range(c + 1):
            out.append([i] * k + others + [i] * (c - k))
    return out


def merges(counts):
    """all words over range(len(counts)) with counts[i] occurrences of i, in lexicographic order"""
    def go(rem):
        if not any(rem):
            yield []
            return
        for i, c in enumerate(rem):
            if c:
                rem[i] -= 1
                for w in go(rem):
                    yield [i] + w
                rem[i] += 1
    return go(list(counts))


def n_merges(counts):
    from math import factorial
    n = factorial(sum(counts))
    for c in counts:
        n //= factorial(c)
    return n


def random_merge(rng, counts):
    w = [i for i, c in enumerate(counts) for _ in range(c)]
    rng.shuffle(w)
    return w


def interleaved(s):
    """a schedule in which some thread is pre-empted between its first and last step"""
    first, last = {}, {}
    for k, i in enumerate(s):
        first.setdefault(i, k)
        last[i] = k
    return any(any(j != i for j in s[first[i]:last[i]]) for i in first)


DEC_RE = re.compile(r"D\((\d),(\d+),(-?\d+)\)")


def decimals(res):
    return [(int(a), int(b), int(c)) for a, b, c in DEC_RE.findall(json.dumps([res["val"], res["extra"]]))]


def parse_threads(s):
    g, rest = s.split("|", 1)
    out = []
    for r in [x for x in rest.split("/") if x]:
        out.append(None if r == "raised" else ([tuple(int(v) for v in d.split(",")) for d in r[3:].split(";")] if r[3:] else []))
    return [int(x) for x in g.split(",")], out


# ----------------------------------------------------------------------------- the check
def run(ctx):
    scratch = tempfile.mkdtemp(prefix="c18.", dir=ctx.workdir)
    try:
        _run(ctx, scratch)
    finally:
        shutil.rmtree(scratch, ignore_errors=True)


def _run(ctx, scratch):
    rng = ctx.rng
    thorough = not ctx.quick()
    variant, facts = c17.source_variant()
    ctx.notes["tree_under_test"] = REPO
    ctx.notes["model_variant_selected_by_source_facts"] = variant
    t0 = time.time()
    footprint(ctx, scratch, variant)
    ctx.notes["t_footprint_s"] = round(time.time() - t0, 1)
    t0 = time.time()
    instrumented = forced(ctx, scratch, variant, thorough)
    ctx.notes["t_forced_s"] = round(time.time() - t0, 1)
    t0 = time.time()
    secs = float(os.environ.get("C18_STRESS_S", 60 if thorough else 3))
    if not instrumented:
        ctx.notes["forced_schedule_fallback"] = ("no instrumented shared access was reached (the implementation does not use a "
                                                 "module-level decimal context): all schedules coincide; relying on the stress run")
        secs = max(secs, 6.0)
    stress(ctx, scratch, thorough, secs)
    first_use(ctx, scratch, thorough)
    ctx.notes["t_stress_s"] = round(time.time() - t0, 1)


def footprint(ctx, scratch, variant):
    rng = ctx.rng
    # one history's worth of operations of every kind, run one by one in one interpreter
    ops, abstract = [], []
    while True:
        hg = G.HistoryGen(rng, 40).build()
        kinds = {c["api"] for c in hg.calls}
        if len(kinds) >= 14:
            break
    calls = hg.calls           # "new_dict" entries create the caller-side dictionaries, in order
    recs = run_job(dict(mode="footprint", setup=[], ops=calls), scratch, "fp")["ops"]
    exprs, idx = [], []
    for k, (c, a) in enumerate(zip(calls, hg.abstract)):
        if a:
            exprs.append("show_writes %s %s" % (variant, a))
            idx.append(k)
    model = dict(zip(idx, core.coq_eval(exprs, IMPORTS, ctx.workdir, tag="c18fp", shard=300)))
    seen = {}
    for k, (c, r) in enumerate(zip(calls, recs)):
        if c["api"] in ("new_dict", "mutate"):
            continue
        tags = set()
        others = []
        for key in r["changed"]:
            if key == c17.LR_CTX + ".prec":
                tags.add("P")
            elif key.startswith(c17.LR_CTX + ".flags.") and key.rsplit(".", 1)[1] in ("Inexact", "Rounded"):
                tags.add("F")
            else:
                tags.add("O")
                others.append(key)
        m = model.get(k)
        ctx.count("corr:footprint", (c["api"], k), nontrivial=r["st"] == "ok")
        seen[c["api"]] = seen.get(c["api"], 0) + 1
        if m is None:
            allowed = {"P", "F"} if variant == "Current" else set()      # unpredicted read through a shared dict
        else:
            allowed = set(m.strip("."))
        if not tags <= allowed:
            ctx.violation("corr:footprint", dict(api=c["api"], call=c17.describe(c), cells=r["changed"]),
                          impl=dict(cells_written=sorted(tags), keys=r["changed"]), model=dict(shared_write_set=sorted(allowed), abstract=hg.abstract[k]),
                          signature="C18:writes-shared-cell-outside-footprint:%s" % (others or r["changed"])[0].replace(c17.LR_CTX, "decimal_context"),
                          found_input=False)
    ctx.notes["footprint_ops_by_api"] = seen


def forced(ctx, scratch, variant, thorough):
    rng = ctx.rng
    flags = []
    summary = {}
    import random as _random

    def one(arg):
        cfg, seed = arg
        t_cfg = time.time()
        try:
            return one_(cfg, seed)
        finally:
            nm = cfg["name"] if isinstance(cfg, dict) else cfg[0]
            if summary.get(nm) is not None:
                summary[nm]["seconds"] = round(time.time() - t_cfg, 1)

    def one_(cfg, seed):
        rng = _random.Random(seed)          # per configuration, drawn from ctx.rng below: configurations run in parallel
        if isinstance(cfg, tuple):
            cfg = dict(zip(("name", "setup", "threads", "mcalls", "cap"), cfg), fresh_setup=False, sig=None)
        name, setup, threads, mcalls, cap = cfg["name"], cfg["setup"], cfg["threads"], cfg["mcalls"], cfg["cap"]
        fresh_setup = cfg["fresh_setup"]
        extra = dict(fresh_setup=fresh_setup, trace=cfg.get("trace", []), isolate=cfg.get("isolate", False),
                     trace_calls=cfg.get("trace_calls", []), recursion_limit=cfg.get("recursion_limit"))
        tagn = re.sub(r"\W", "", name)
        cnt = run_job(dict(mode="count", setup=setup, threads=threads, **extra), scratch, "cnt" + tagn)
        counts = [len(p) for p in cnt["points"]]
        seq = [r[0] for r in cnt["sequential"]]
        summary[name] = dict(points_per_thread=counts, has_module_context=cnt["has_module_context"])
        # the proxy is behaviour preserving: sequential results under it equal the model's sequential results
        if mcalls is None:
            # no decimal is decoded: the model (C18_sequential_*: empty shared write set) predicts the sequential result
            # under every schedule; nothing to evaluate
            mseq_t = []
            # (an operation that raises when run alone - e.g. validate_many(raise_errors=True) on invalid records - is compared
            #  like any other: same outcome under every schedule)
        else:
            mseq = core.coq_eval(["show_sequential %s g0 [%s]" % (variant, "; ".join(mcalls))], IMPORTS, ctx.workdir, tag="c18seq" + tagn)[0]
            mseq_t = parse_threads("0,0,0|" + mseq)[1]
        for i, (r, m) in enumerate(zip(seq, mseq_t)):
            ctx.count("corr:forced-schedule", (name, "seq", i), nontrivial=True)
            ok = (m is None and r["st"] == "raised") or (m is not None and r["st"] == "ok" and decimals(r) == m)
            if not ok:
                ctx.violation("corr:forced-schedule", dict(configuration=name, thread=i, op=c17.describe(threads[i][0])),
                              impl=dict(status=r["st"], decimals=decimals(r)), model=dict(sequential=m),
                              signature="C18:sequential-result-differs-from-model", found_input=False)
        if not any(counts):
            summary[name]["schedules"] = 0
            return
        flags.append(name)
        total = n_merges(counts)
        if cfg.get("family") == "preempt":
            # thread i takes k of its steps, every other thread runs to completion, thread i finishes (negative entry
            # -(j+1): thread j runs on to its end without stopping at points) - for every sampled k, plus a few random merges
            scheds = []
            for i in cfg.get("preempt_only", range(len(counts))):
                step = max(1, counts[i] // cfg.get("samples", 24))
                for k in sorted(set(list(range(0, counts[i] + 1, step)) + [counts[i]])):
                    scheds.append([i] * k + [-(j + 1) for j in range(len(counts)) if j != i] + [-(i + 1)])
            for _ in range(cfg.get("random", 0)):
                scheds.append(random_merge(rng, counts))
            summary[name]["exhaustive"] = False
        elif cap is None or total <= cap:
            scheds = list(merges(counts))
            summary[name]["exhaustive"] = True
        else:
            scheds = single_preemption(counts)          # always: one pre-emption at every point of every thread
            seen = set(map(tuple, scheds))
            while len(scheds) < cap:
                w = random_merge(rng, counts)
                if tuple(w) not in seen:
                    seen.add(tuple(w))
                    scheds.append(w)
            summary[name]["exhaustive"] = False
        # an implementation that synchronises on the shared context itself makes most requested orders infeasible
        # (each costs a time-out): probe a few, then sample
        probe = dict(runs=[]) if extra["isolate"] else run_job(
            dict(mode="forced", setup=setup, threads=threads, **extra, schedules=scheds[:: max(1, len(scheds) // 4)][:4]),
            scratch, "probe" + tagn)
        if any(r["infeasible"] for r in probe["runs"]):
            rng.shuffle(scheds)
            scheds = scheds[:60]
            summary[name]["exhaustive"] = False
            summary[name]["note"] = "threads block between instrumented points (implementation-side synchronisation): sampled"
        summary[name]["schedules"] = len(scheds)
        summary[name]["interleavings_total"] = total
        # implementation under every schedule (sharded over worker processes)
        nshard = min(12, max(1, len(scheds) // 150))
        shards = [scheds[i::nshard] for i in range(nshard)]
        from concurrent.futures import ThreadPoolExecutor
        with ThreadPoolExecutor(max_workers=nshard) as ex:
            outs = list(ex.map(lambda a: run_job(dict(mode="forced", setup=setup, threads=threads, schedules=a[1], **extra), scratch,
                                                 "fs%s_%d" % (re.sub(r"\W", "", name), a[0])), enumerate(shards)))
        runs = [r for o in outs for r in o["runs"]]
        # the model under the same schedules: each thread's table-read step first, then the instrumented points
        n = len(threads)
        pre = list(range(n))
        expected_pts = 3 if variant == "Current" else 0
        model_ok = mcalls is not None and all(c == 3 * len(G_trace(mc)) for c, mc in zip(counts, mcalls)) and variant == "Current"
        mres = {}
        if model_ok:
            exprs = ["show_schedule_run Current g0 [%s] [%s]%%nat" % ("; ".join(mcalls), "; ".join(map(str, pre + r["schedule"]))) for r in runs]
            mres = dict(zip(range(len(runs)), core.coq_eval(exprs, IMPORTS, ctx.workdir, tag="c18m" + re.sub(r"\W", "", name), shard=400)))
        elif mcalls is not None:
            summary[name]["model_comparison"] = "skipped: points per thread %r do not match the model's 3 per decimal" % counts
        nrace = 0
        first_race = None
        for k, r in enumerate(runs):
            ctx.count("corr:forced-schedule", (name, tuple(r["schedule"])), nontrivial=interleaved(r["schedule"]))
            if r.get("infeasible"):
                summary[name]["infeasible"] = summary[name].get("infeasible", 0) + 1
            # (where the number of points a thread passes may depend on the schedule - first-use configurations - unused
            #  schedule entries are not an error)
            if any(r["errors"]) or (r["unused"] and not r.get("infeasible") and mcalls is not None):
                ctx.violation("corr:forced-schedule", dict(configuration=name, schedule=r["schedule"]), impl=dict(errors=r["errors"], unused=r["unused"]),
                              model=None, signature="C18:forced-schedule:scheduler-broken", found_input=False, kind="broken-obligation")
                continue
            got = [x[0] for x in r["results"]]
            # (1) the property: every thread's result equals its sequential result
            bad = [i for i in range(n) if got[i] != seq[i]]
            if bad:
                nrace += 1
                key = (sum(1 for a, b in zip(r["schedule"], r["schedule"][1:]) if a != b), r["schedule"])
                if first_race is None or key < first_race[2]:      # fewest pre-emptions, then lexicographic
                    first_race = (r, bad, key)
            # (2) the model predicts exactly what each thread gets under this schedule
            if k in mres and not r.get("infeasible"):
                cells, mt = parse_threads(mres[k])
                it = [(None if x["st"] == "raised" else decimals(x)) for x in got]
                if it != mt or (r["ctx"] is not None and r["ctx"] != cells):
                    ctx.violation("corr:forced-schedule", dict(configuration=name, schedule=r["schedule"], trace=r["trace"]),
                                  impl=dict(thread_decimals=it, decimal_context=r["ctx"]), model=dict(thread_decimals=mt, gstate=cells),
                                  signature="C18:forced-schedule:result-differs-from-model-run_schedule", found_input=False)
        summary[name]["schedules_with_a_thread_differing_from_sequential"] = nrace
        if first_race is not None:
            r, bad, _ = first_race
            i = bad[0]
            got = [x[0] for x in r["results"]]
            ctx.violation("corr:forced-schedule",
                          dict(configuration=name, schedule=r["schedule"], trace=r["trace"], thread=i,
                               setup=[c17.describe(c) for c in setup], threads=[[c17.describe(c) for c in ops] for ops in threads],
                               job_pickled=_b64(dict(mode="forced", setup=setup, threads=threads, schedules=[r["schedule"]], **extra)),
                               note="%d of %d schedules of this configuration give some thread a result different from its sequential one"
                                    % (nrace, len(runs))),
                          impl=dict(thread=i, under_schedule=dict(status=got[i]["st"], decimals=decimals(got[i]), value=got[i]["val"])),
                          model=dict(sequential=dict(status=seq[i]["st"], decimals=decimals(seq[i]), value=seq[i]["val"])),
                          signature=F4_SIG if decimals(seq[i]) != decimals(got[i]) else (cfg["sig"] or "C18:forced-schedule:result-differs-from-sequential"),
                          found_input=True)
    cfgs = [(c, rng.randrange(2 ** 32)) for c in configurations(rng, thorough)]
    from concurrent.futures import ThreadPoolExecutor as _TPE
    with _TPE(max_workers=6) as ex:
        list(ex.map(one, cfgs))
    summary = {(c[0]["name"] if isinstance(c[0], dict) else c[0][0]): summary.get(c[0]["name"] if isinstance(c[0], dict) else c[0][0])
               for c in cfgs}
    ctx.notes["forced_schedule"] = summary
    ctx.sample(dict(forced_schedule={k: (v or {}).get("schedules") for k, v in summary.items()}))
    return bool(flags)


def G_trace(mcall):
    return re.findall(r"mkDF", mcall)


def _b64(o):
    import base64
    return base64.b64encode(pickle.dumps(o, protocol=4)).decode()


def stress(ctx, scratch, thorough, secs):
    rng = ctx.rng
    nthreads = 16 if thorough else 8
    # operations from C17's generator.  Calls that create shared objects (parsed schemas kept in slots, caller-supplied
    # named_schemas dictionaries) are the sequential set-up; everything else is run concurrently.
    setup, pool, nh = [], [], 0
    while len(pool) < nthreads * 6:
        hg = G.HistoryGen(rng, 25).build()
        nh += 1
        for c in hg.calls:
            c = _rename_slots(c, "h%d_" % nh)
            if c["api"] == "new_dict" or "$out" in c or "named_schemas" in c:
                setup.append(c)
            elif c["api"] not in ("generate_many", "mutate", "writer_write", "writer_flush", "reader_consume"):
                pool.append(c)
    # decimals of different precisions on ONE shared parsed schema in every thread
    setup.append({"api": "parse_schema", "schema": SHARED, "$out": "SHARED"})
    sl = lambda rec: {"api": "schemaless_reader", "schema": {"$slot": "SHARED"}, "data": G.encode(SHARED, rec, {})}
    decops = [sl(shared_record(a=1234567)), sl(shared_record(b=12345)), sl(shared_record(c=98765)), sl(shared_record(a=-99995, b=125)),
              sl(shared_record(b=995, c=12355))]
    threads = []
    for i in range(nthreads):
        ops = [pool[(i * 6 + k) % len(pool)] for k in range(6)] + [decops[i % len(decops)], decops[(i + 2) % len(decops)]]
        rng.shuffle(ops)
        threads.append(ops)
    out = run_job(dict(mode="stress", setup=setup, threads=threads, seconds=secs), scratch, "st", timeout=secs + 300)
    total = sum(it * n for it, n in zip(out["iterations"], out["ops_per_thread"]))
    ctx.notes["stress"] = dict(threads=nthreads, seconds=secs, operations_executed=total, iterations=out["iterations"],
                               mismatches=out["n_mismatches"], unstable_ops=len(out["unstable"]), errors=out["errors"],
                               apis=sorted({c["api"] for ops in threads for c in ops}))
    for i, ops in enumerate(threads):
        for k, c in enumerate(ops):
            ctx.count("corr:stress", ("stress", i, k), nontrivial=True)
    if out["errors"]:
        ctx.violation("corr:stress", dict(errors=out["errors"]), impl=None, model=None, signature="C18:stress:harness-error",
                      found_input=False, kind="broken-obligation")
    seen = set()
    for m in out["mismatches"]:
        c = threads[m["thread"]][m["op"]]
        is_dec = decimals(m["expected"]) != decimals(m["got"])
        sig = F4_SIG if is_dec else "C18:stress:%s:result-differs-from-sequential" % m["api"]
        if sig in seen:
            continue
        seen.add(sig)
        ctx.violation("corr:stress", dict(threads=nthreads, switch_interval=1e-6, thread=m["thread"], op=c17.describe(c),
                                          note="%d mismatching results in %d operations" % (out["n_mismatches"], total),
                                          job_pickled=_b64(dict(mode="stress", setup=setup, threads=threads, seconds=secs))),
                      impl=dict(concurrent=m["got"]), model=dict(sequential=m["expected"]), signature=sig, found_input=True)


def first_use(ctx, scratch, thorough):
    """first concurrent use of a freshly parsed, shared reader schema (schema resolution), threads released by a barrier"""
    nf, nthreads = 120, (8 if thorough else 4)
    w, r = resolution_schemas(nf)
    for f in r["fields"]:
        f["aliases"] = f.get("aliases", []) + ["%s_v%d" % (f["name"], k) for k in range(8)]
    payloads = [G.encode(w, {"f%02d" % i: (t * 1000 + i if i % 2 else "t%d-%d" % (t, i)) for i in range(nf)}, {}) for t in range(nthreads)]
    secs = 20.0 if thorough else 2.0
    job = dict(mode="firstuse", writer_schema=w, reader_schema=r, payloads=payloads, seconds=secs)
    out = run_job(job, scratch, "fu", timeout=secs + 120)
    ctx.notes["first_use_stress"] = dict(threads=nthreads, fields=nf + 1, seconds=secs, rounds=out["rounds"], mismatches=out["n_mismatches"],
                                         sequential_ok=out["sequential_ok"])
    for k in range(out["rounds"]):
        ctx.count("corr:stress", ("first-use", k), nontrivial=True)
    if out["mismatches"]:
        m = out["mismatches"][0]
        ctx.violation("corr:stress", dict(kind="first concurrent use of a shared, freshly parsed reader schema", threads=nthreads,
                                          round=m["round"], thread=m["thread"], job_pickled=_b64(job),
                                          writer_schema=str(w)[:600], reader_schema=str(r)[:600]),
                      impl=dict(concurrent=dict(st=m["got"]["st"], val=m["got"]["val"][:500])),
                      model=dict(sequential=dict(st=m["expected"]["st"], val=m["expected"]["val"][:500])), signature=RES_SIG, found_input=True)


def _rename_slots(c, tag):
    """slot names are per history (P1, N2, ...): make them unique across the histories merged into one job"""
    d = {}
    for k, v in c.items():
        if k == "$out":
            d[k] = tag + v
        elif isinstance(v, dict) and len(v) == 1 and "$slot" in v:
            d[k] = {"$slot": tag + v["$slot"]}
        else:
            d[k] = v
    return d


def replay(ctx, rep):
    import base64
    c = rep["case"]
    if "job_pickled" not in c:
        print("nothing to replay for", rep.get("name"))
        return True
    job = pickle.loads(base64.b64decode(c["job_pickled"]))
    scratch = tempfile.mkdtemp(prefix="c18r.", dir=ctx.workdir)
    try:
        if job["mode"] == "forced":
            cnt = run_job(dict(mode="count", setup=job["setup"], threads=job["threads"], fresh_setup=job.get("fresh_setup"),
                               trace=job.get("trace", []), isolate=job.get("isolate", False), trace_calls=job.get("trace_calls", []),
                               recursion_limit=job.get("recursion_limit")), scratch, "cnt")
            seq = [r[0] for r in cnt["sequential"]]
            out = run_job(job, scratch, "rp")["runs"][0]
            got = [x[0] for x in out["results"]]
            print("schedule:", out["schedule"], "trace:", out["trace"])
            for i, (g, s) in enumerate(zip(got, seq)):
                print("thread %d: under the schedule %s %s | sequential %s %s" % (i, g["st"], decimals(g), s["st"], decimals(s)))
            if not any(len(p) for p in cnt["points"]):
                print("no instrumented point reached: the implementation no longer uses a module-level decimal context")
            return got == seq
        job["seconds"] = min(job.get("seconds", 3), 10)
        out = run_job(job, scratch, "rp", timeout=400)
        if job["mode"] == "firstuse":
            print("first-use stress: rounds", out["rounds"], "mismatches", out["n_mismatches"])
            for m in out["mismatches"][:2]:
                print(" thread", m["thread"], "got", json.dumps(m["got"])[:300], "| sequential", json.dumps(m["expected"])[:300])
            return out["n_mismatches"] == 0
        print("stress: mismatches", out["n_mismatches"], "errors", out["errors"])
        for m in out["mismatches"][:3]:
            print(json.dumps(m)[:600])
        return out["n_mismatches"] == 0 and not out["errors"]
    finally:
        shutil.rmtree(scratch, ignore_errors=True)
