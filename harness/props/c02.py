"""C02 - encoder output is byte for byte the specification's binary encoding."""
import io, struct
from .. import core, gallina as G, codec_common as CC, gen

SRCFACTS = ["leaves_enc"]
RULE = ("corr:write = bytes of schemaless_writer vs the model's specification encoder on generated (schema, datum) cases (as C01); "
        "corr:wire-leaf = BinaryEncoder methods one by one on exhaustive boundary families (all varint-length boundaries, int extremes, "
        "float specials and rounding boundaries, all 256 byte values, string lengths 0/1/63/64/8191/8192 with 1-4 byte code points); "
        "non-trivial = datum has a node beyond depth 0 or the leaf value is a boundary value; distinct by (schema, datum)")
TRUSTED = ["struct.pack is CPython's; the model's binary32 rounding (SpecFloat.binary_round 24 128, proved to be IEEE round-to-nearest-even "
           "against Flocq's real-number specification: C02_float_is_IEEE_binary32_rne) is validated bit-exactly against it here",
           "the float-leaf theorems depend on the standard library's real-number axioms and excluded middle through Flocq (named under obligations)"]
ASSUMPTIONS = []
PARTIAL = []


def run(ctx):
    n = 1200 if ctx.quick() else 10000
    cases = CC.gen_cases(ctx, n, hints=True, big=not ctx.quick())
    model = CC.run_model(ctx, [CC.expr_wr(c) for c in cases], "c02")
    redo = []
    for c, m in zip(cases, model):
        w = CC.impl_write(c.schema_arg(), c.datum, **c.wopts)
        ctx.count("corr:write", (repr(c.raw), repr(c.datum)), nontrivial=CC.has_depth(c.datum))
        if m == "U":
            continue
        mb = m[2:].split(";")[0] if m.startswith("W:") else None
        t = w[1].hex() if w[0] == "ok" else "E"
        if (mb if mb is not None else m) == t:
            continue
        redo.append((c, m, w))
    # disagreements: evaluate the statement itself with the independent decoder
    exprs = ["run_canon %s %s %s %s" % (G.ropts(), G.env_to_coq(c.named), G.schema_to_coq(c.parsed), G.hx(w[1]))
             for c, m, w in redo if w[0] == "ok"]
    canon = iter(CC.run_model(ctx, exprs, "c02c"))
    for c, m, w in redo:
        tn = not c.wopts.get("disable_tuple_notation")
        conf = CC.conforms(c.datum, c.parsed, c.named, tn)
        if w[0] != "ok":
            ctx.violation("corr:write", c.to_json(), impl="raised " + str(w[1]), model=m[:1500],
                          signature="C02:write:raises-where-spec-encoder-encodes" if conf else "C02:model-differs",
                          found_input=bool(conf), detail="writer raised on a conforming datum" if conf else "non-conforming datum")
            continue
        k = next(canon)
        ok = False
        if k and k.startswith("C:"):
            cb, rd = k[2:].split(";", 1)
            # spec: canonical one-block layout, decodes to a normalisation of the datum, nothing left over
            if cb == w[1].hex() and rd.endswith("|0") and rd.startswith("R:"):
                ok = True
        ctx.violation("corr:write", c.to_json(), impl=w[1].hex()[:1500], model=m[:1500],
                      signature="C02:write:bytes-are-not-the-spec-encoding" if not ok else "C02:model-differs",
                      found_input=not ok, detail="independent decoder + spec re-encoding: " + str(k)[:300])

    # ---- corr:write-raw: the model parses the RAW schema itself (Parse.v + Bridge.v), so the meaning of the schema
    # (which definition a name denotes, full names) does not come from fastavro's parse_schema
    from .. import schemagen
    raw_imports = CC.IMPORTS.replace("model.Harness.", "model.Harness model.Json model.HarnessRaw.")
    rexprs, rcases = [], []
    for c in cases[: (260 if ctx.quick() else 3000)]:
        try:
            jt = schemagen.to_coq(c.raw)
        except Exception:
            continue
        rexprs.append("run_wr_raw %s %s %s %s %s" % (G.wopts(**c.wopts), G.ropts(**c.ropts), jt, G.py_to_coq(c.datum), G.hx(c.suffix)))
        rcases.append(c)
    rmodel = [G.canon_model_text(x) for x in core.coq_eval(rexprs, raw_imports, ctx.workdir, tag="c02raw", shard=150)]
    for c, m in zip(rcases, rmodel):
        saved = c.use_raw
        c.use_raw = True
        t, _ = CC.impl_wr_text(c)
        c.use_raw = saved
        ctx.count("corr:write-raw", (repr(c.raw), repr(c.datum)), nontrivial=CC.has_depth(c.datum))
        if m in ("U", "PARSE", "BRIDGE"):
            ctx.notes["raw_route_" + m] = ctx.notes.get("raw_route_" + m, 0) + 1
            continue
        if t != m:
            # the model's parse is the specification's reading of the raw schema: when it encodes the datum, different
            # bytes (or a raise) from the implementation are a counterexample
            ctx.violation("corr:write-raw", c.to_json(), impl=t[:1500], model=m[:1500],
                          signature="C02:write-raw:bytes-differ-from-spec-encoding-of-the-raw-schema", found_input=m.startswith("W:"),
                          detail="model parsed the raw schema itself (Parse.v, Bridge.v)")

    # ---- corr:wire-leaf
    from fastavro.io.binary_encoder import BinaryEncoder

    def enc(method, *a):
        fo = io.BytesIO()
        try:
            getattr(BinaryEncoder(fo), method)(*a)
            return fo.getvalue().hex()
        except Exception:
            return "E"

    leaf = []
    ints = sorted(set(gen.INT_BOUNDS + [ctx.rng.randrange(-(1 << 63), 1 << 63) for _ in range(200 if ctx.quick() else 20000)]))
    ints = [z for z in ints if -(1 << 63) <= z < (1 << 63)]
    for z in ints:
        leaf.append(("write_long", (z,), "tohex (long_enc %s)" % G.zlit(z), z))
    fl = [gen.f64(b) for b in gen.F64_BITS] + [gen.f32(b) for b in gen.F32_BITS] + \
         [gen.f64(ctx.rng.getrandbits(64)) for _ in range(300 if ctx.quick() else 30000)] + \
         [gen.f32(ctx.rng.getrandbits(32)) * (1 + 2 ** -24) for _ in range(200 if ctx.quick() else 20000)] + \
         [3.4028235677973366e38, 3.4028234663852886e38, 3.4028235677973362e38, 1.401298464324817e-45, 7.006492321624085e-46,
          7.006492321624087e-46, 1.1754943508222875e-38, 1.1754942106924411e-38]
    for x in fl:
        leaf.append(("write_double", (x,), "tohex (le_bytes 8 %d)" % G.fbits(x), x))
        leaf.append(("write_float", (x,), "run_d2s %d" % G.fbits(x), x))
    for z in [0, 1, -1, 16777217, 16777216, (1 << 53) + 1, (1 << 63), -(1 << 63), (1 << 127), (1 << 128) - 1, 1 << 1023, (1 << 1024) - 1, 1 << 1024,
              3 << 126, (1 << 128) - (1 << 103), (1 << 128) - (1 << 104)]:
        leaf.append(("write_double", (z,), "run_z2d %s" % G.zlit(z), z))
        leaf.append(("write_float", (z,), "run_z2s %s" % G.zlit(z), z))
    blobs = [bytes(range(256)), b"", b"\x00", bytes(63), bytes(64), bytes(8191), bytes(8192)]
    for b in blobs:
        leaf.append(("write_bytes", (b,), "tohex (wire (ABytes %s))" % G.hx(b), b))
        leaf.append(("write_fixed", (b,), "tohex (wire (AFixed %s))" % G.hx(b), b))
    for ch in ["a", "é", "€", "\U0001F600"]:
        for ln in [0, 1, 63, 64, 8191, 8192]:
            s = ch * ln
            leaf.append(("write_utf8", (s,), "tohex (wire (AString %s))" % G.cstr(s), s))
    for b in [True, False]:
        leaf.append(("write_boolean", (b,), "tohex (wire (ABool %s))" % ("true" if b else "false"), b))
    leaf.append(("write_array_end", (), "tohex (wire (AArray []))", "array_end"))
    leaf.append(("write_map_end", (), "tohex (wire (AMap []))", "map_end"))
    for k in [1, 63, 64, 65, 130]:
        leaf.append(("write_item_count", (k,), "tohex (long_enc %d)" % k, k))
        leaf.append(("write_index", (k,), "tohex (long_enc %d)" % k, k))
        leaf.append(("write_enum", (k,), "tohex (long_enc %d)" % k, k))
    model = CC.run_model(ctx, [l[2] for l in leaf], "c02l")
    for (meth, args, _, key), m in zip(leaf, model):
        t = enc(meth, *args)
        ctx.count("corr:wire-leaf", (meth, repr(key)[:80]), nontrivial=True)
        if t != m:
            ctx.violation("corr:wire-leaf", dict(method=meth, arg=repr(args)[:300]), impl=t[:200], model=(m or "")[:200],
                          signature="C02:wire-leaf:%s:bytes-differ-from-spec" % meth, found_input=True)
    for c, m in list(zip(cases, model))[:200:50]:
        ctx.sample(dict(schema=c.raw, datum=repr(c.datum)[:150]))
    ctx.sample(dict(method="write_long", arg=-(1 << 63), bytes=enc("write_long", -(1 << 63))))
    ctx.notes["leaf_calls"] = len(leaf)


def replay(ctx, rep):
    case = rep["case"]
    if "method" in case:
        print("leaf case; re-run the check"); return False
    c = CC.Case.from_json(case)
    m = CC.run_model(ctx, [CC.expr_wr(c)], "rp")[0]
    w = CC.impl_write(c.schema_arg(), c.datum, **c.wopts)
    t = w[1].hex() if w[0] == "ok" else "E"
    mb = m[2:].split(";")[0] if m.startswith("W:") else m
    print("implementation:", t[:400]); print("spec encoder  :", mb[:400])
    return t == mb
