"""C19 - load_schema from per-type files is equivalent to parsing the same types inlined at first use."""
import copy, io, itertools, json, os, shutil, tempfile
from .. import core, schemagen as sg, gen

SRCFACTS = ["schema"]
RULE = ("random acyclic dependency graphs of 1-8 named types (records, enums, fixed) in 1-3 namespaces (incl. the null "
        "namespace), one file <fullname>.avsc per type in a scratch directory; references from fields, array items, map "
        "values and union branches, diamonds, repeated use and use at two depths, qualified and namespace-relative "
        "spellings, dotted names or namespace attributes, occasional locally nested enum/fixed definitions, defaults on "
        "primitive and enum-typed fields; per graph: load_schema(top), load_schema_ordered (every dependencies-first order "
        "for <= 5 types, else 3 random ones), sequences of loads of different top-level types (and the same one twice) "
        "through ONE FlatDictRepository object and through the path form, every single file removed; non-trivial = graph with at least 2 types")
TRUSTED = ["harness/props/c19.py inline_first_use: the harness's own inlining of the files at first use (cross-checked against "
           "the model's inline_first_use: same canonical form, and valid_raw holds of the model's)",
           "harness/gen.py DataGen: conforming data for the encoding comparison",
           "the file system (tempfile.mkdtemp, removed afterwards) and json.dump/json.load of the standard library"]
ASSUMPTIONS = ["one named type per file, the file named after the type's full name; locally nested named types are not "
               "referred to from other files",
               "all text is printable ASCII without double quote and backslash",
               "the encoding comparison (schemaless_writer bytes under the loaded schema and under the parsed inlined schema) "
               "is made on the implementation only; the model compares canonical forms and error kinds / names"]
PARTIAL = ["C19_equiv: the general statement (load = parse of the inlined schema, for every acyclic repository) is not proved; "
           "proved are the first-try case, the error path (C19_missing) with the name that is reported (C19_first_unknown: "
           "UnknownType carries the first reference in document order that is neither primitive nor in the dictionary at that "
           "point, everything before it accepted; C19_unknown_table), that every result is a parse result, and evaluated "
           "instances (diamond, two depths, namespace-relative); what inlining the loaded types gives is C12_piecewise; missing "
           "is the composition over the retry loop (_inject_schema's position, acceptance of the re-parse with the parsed "
           "sub-schema injected, induction over nested loads); the correspondence checks the statement on every generated graph",
           "C19_ordered and C19_inline_closed: evaluated instances only; checked on every generated graph "
           "(valid_raw of the model's inlined schema, every dependencies-first order)"]

IMPORTS = ("From Coq Require Import String.\n"
           "From FA Require Import model.Base model.Json model.Parse model.SchemaSpec model.Inline model.Canon model.Repo.\n")

NAMESPACES = ["", "a", "a.b", "org.x", "n1"]


# ------------------------------------------------------------------ graphs
def gen_graph(rng):
    n = rng.choice([1, 2, 2, 3, 3, 4, 4, 5, 6, 8])
    nss = rng.sample(NAMESPACES, rng.choice([1, 1, 2, 3]))
    types = []
    shorts = ["T%d" % i for i in range(n)]
    if len(nss) > 1 and rng.random() < 0.6:
        shorts = ["T%d" % rng.randrange(max(1, (n + 1) // 2)) for _ in range(n)]      # the same short name in several namespaces
    used = set()
    for i in range(n):
        kind = "record" if i == 0 else rng.choice(["record", "record", "record", "enum", "fixed"])
        ns_i, short = rng.choice(nss), shorts[i]
        for _ in range(10):
            if (ns_i, short) not in used:
                break
            ns_i = rng.choice(nss)
        if (ns_i, short) in used:
            short = "T%d_%d" % (i, i)
        used.add((ns_i, short))
        types.append(dict(i=i, kind=kind, ns=ns_i, short=short, deps=[]))
    # every type i > 0 is used by at least one earlier record; a null-namespace type can only be named from the null namespace
    for i in range(1, n):
        t = types[i]
        parents = [p for p in types[:i] if p["kind"] == "record"]
        ok = [p for p in parents if t["ns"] != "" or p["ns"] == ""]
        if not ok:
            t["ns"] = rng.choice([x for x in NAMESPACES if x])
            t["short"] = "T%d_%d" % (i, i)
            ok = parents
        for p in rng.sample(ok, min(len(ok), rng.choice([1, 1, 2, 3]))):
            p["deps"].append(i)
    for t in types:
        t["full"] = (t["ns"] + "." if t["ns"] else "") + t["short"]
    files = {}
    counter = [0]

    def fresh(prefix):
        counter[0] += 1
        return "%s%d" % (prefix, counter[0])

    def ref(t, u):
        """a spelling of u's name inside the fields of t"""
        if u["ns"] == t["ns"] and rng.random() < 0.5:
            return u["short"]
        return u["full"] if u["ns"] else u["short"]

    def name_attrs(t):
        if not t["ns"]:
            return {"name": t["short"]}
        if rng.random() < 0.5:
            return {"name": t["short"], "namespace": t["ns"]}
        return {"name": t["full"]}

    for t in types:
        if t["kind"] == "enum":
            syms = ["A", "B", "C"][:rng.choice([1, 2, 3])]
            files[t["full"]] = {"type": "enum", **name_attrs(t), "symbols": syms}
        elif t["kind"] == "fixed":
            files[t["full"]] = {"type": "fixed", **name_attrs(t), "size": rng.choice([0, 1, 4, 16])}
        else:
            fields = []
            uses = []
            for d in t["deps"]:
                uses += [d] * rng.choice([1, 1, 1, 2])
            rng.shuffle(uses)
            local = None
            for d in uses:
                u = types[d]
                r = ref(t, u)
                w = rng.choice(["direct", "direct", "array", "map", "opt", "union2", "deep"])
                if w == "direct":
                    ft = r
                elif w == "array":
                    ft = {"type": "array", "items": r}
                elif w == "map":
                    ft = {"type": "map", "values": r}
                elif w == "opt":
                    ft = ["null", r]
                elif w == "union2":
                    ft = ["string", r, {"type": "array", "items": "long"}]
                else:
                    ft = {"type": "array", "items": {"type": "map", "values": ["null", r]}}
                fd = {"name": fresh("f"), "type": ft}
                if w == "direct" and u["kind"] == "enum" and rng.random() < 0.4:
                    fd["default"] = "A"
                if w == "opt" and rng.random() < 0.4:
                    fd["default"] = None
                fields.append(fd)
            for _ in range(rng.choice([0, 1, 1, 2])):
                pt = rng.choice(["int", "string", "boolean", "double", {"type": "bytes"}, ["null", "long"]])
                fd = {"name": fresh("p"), "type": pt}
                if pt == "int" and rng.random() < 0.5:
                    fd["default"] = 7
                fields.insert(rng.randrange(len(fields) + 1), fd)
            if rng.random() < 0.15:
                # a locally nested definition, used twice inside this file only
                ln = fresh("L")
                ldef = rng.choice([{"type": "enum", "name": ln, "symbols": ["X", "Y"]}, {"type": "fixed", "name": ln, "size": 2}])
                fields.insert(rng.randrange(len(fields) + 1), {"name": fresh("l"), "type": ldef})
                fields.append({"name": fresh("l"), "type": ["null", ln]})
            rec = {"type": "record", **name_attrs(t), "fields": fields}
            if rng.random() < 0.2:
                rec["doc"] = "d%d" % t["i"]
            files[t["full"]] = rec
    deps = {t["full"]: sorted({types[d]["full"] for d in t["deps"]}) for t in types}
    return dict(top=types[0]["full"], files=files, deps=deps, n=n)


def inline_first_use(files, top):
    """the harness's own inlining: every reference to a type that has a file and is not defined yet is replaced, in
    document order, by the file's content"""
    defined = set()

    def fullname(ns, node):
        return sg.spec_fullname(ns, node)

    def go(s, ns):
        if isinstance(s, list):
            return [go(m, ns) for m in s]
        if isinstance(s, str):
            if s in sg.PRIMS:
                return s
            q = s if ("." in s or not ns) else ns + "." + s
            if q in defined or q not in files:
                return s
            return go(copy.deepcopy(files[q]), ns)
        if isinstance(s, dict):
            t = s.get("type")
            if t == "array":
                return {**s, "items": go(s["items"], ns)}
            if t == "map":
                return {**s, "values": go(s["values"], ns)}
            if t in ("enum", "fixed"):
                defined.add(fullname(ns, s)[1])
                return s
            if t in ("record", "error"):
                sp, full = fullname(ns, s)
                defined.add(full)
                out = dict(s)
                out["fields"] = [{**f, "type": go(f["type"], sp)} for f in s.get("fields", [])]
                return out
        return s
    return go(copy.deepcopy(files[top]), "")


def first_missing(files, top):
    """the first reference, in document order (files opened at their first use), that is neither a primitive, nor defined
    before, nor the subject of a file - the name C19_first_unknown says UnknownType carries"""
    defined = set()

    class Found(Exception):
        pass

    def go(s, ns):
        if isinstance(s, list):
            for m in s:
                go(m, ns)
        elif isinstance(s, str):
            if s in sg.PRIMS:
                return
            q = s if ("." in s or not ns) else ns + "." + s
            if q in defined:
                return
            if q not in files:
                raise Found(q)
            go(files[q], "")          # the loader parses the file on its own (namespace "")
        elif isinstance(s, dict):
            t = s.get("type")
            if t == "array":
                go(s["items"], ns)
            elif t == "map":
                go(s["values"], ns)
            elif t in ("enum", "fixed"):
                defined.add(sg.spec_fullname(ns, s)[1])
            elif t in ("record", "error"):
                sp, full = sg.spec_fullname(ns, s)
                defined.add(full)
                for f in s.get("fields", []):
                    go(f["type"], sp)
    try:
        go(files[top], "")
    except Found as e:
        return e.args[0]
    return None


def topo_orders(deps, top, limit=None, rng=None):
    """dependencies-first listings of all types, the top last"""
    names = sorted(deps)
    out = []
    if len(names) <= 5:
        for perm in itertools.permutations(names):
            pos = {n: i for i, n in enumerate(perm)}
            if perm[-1] == top and all(pos[d] < pos[n] for n in names for d in deps[n]):
                out.append(list(perm))
        return out
    for _ in range(limit or 3):
        remaining, order = set(names), []
        while remaining:
            ready = sorted(n for n in remaining if all(d not in remaining for d in deps[n]) and (n != top or len(remaining) == 1))
            pick = rng.choice(ready)
            order.append(pick)
            remaining.discard(pick)
        if order not in out:
            out.append(order)
    return out


# ------------------------------------------------------------------ implementation
def classify(fn):
    from fastavro._schema_common import SchemaParseException, UnknownType
    from fastavro.repository.base import SchemaRepositoryError
    try:
        return ("ok", core.with_timeout(fn, 20))
    except SchemaRepositoryError:
        return ("repo-error", None)
    except UnknownType as e:
        return ("unknown:" + (e.name if isinstance(e.name, str) else "<dict>"), None)
    except SchemaParseException:
        return ("parse", None)
    except core.Timeout:
        return ("timeout", None)
    except RecursionError:
        return ("other:RecursionError", None)
    except Exception as e:
        return ("other:" + type(e).__name__, None)


def canon_of(schema):
    from fastavro.schema import to_parsing_canonical_form
    try:
        return "ok:" + to_parsing_canonical_form(schema)
    except Exception as e:
        return "canon-raised:" + type(e).__name__


def write_files(d, files, skip=None):
    skip = skip if isinstance(skip, (set, frozenset, tuple, list)) else {skip}
    for fn in os.listdir(d):
        os.unlink(os.path.join(d, fn))
    for name, raw in files.items():
        if name not in skip:
            with open(os.path.join(d, name + ".avsc"), "w") as f:
                json.dump(raw, f)


def encode(schema, datum):
    import fastavro
    fo = io.BytesIO()
    try:
        core.with_timeout(lambda: fastavro.schemaless_writer(fo, schema, datum), 20)
        return ("ok", fo.getvalue().hex())
    except Exception as e:
        return ("raised", type(e).__name__)


def repo_coq(files, skip=None):
    return "[" + "; ".join("(%s, %s)" % (sg.coq_str(n), sg.to_coq(r)) for n, r in files.items() if n != skip) + "]"


def unhex(h):
    return None if h is None else bytes.fromhex(h).decode("latin-1")


def strip_other(r):
    return "other" if r.startswith("other:") else r


def container_use(schema, data):
    """serialising uses of a loaded schema: the container header (fastavro.writer + reader) and json.dumps of the schema
    without its two top-level marker keys"""
    import fastavro

    def strip_top(x):
        if isinstance(x, list):
            return [strip_top(m) for m in x]
        if isinstance(x, dict):
            return {k: v for k, v in x.items() if k not in ("__fastavro_parsed", "__named_schemas")}
        return x
    try:
        fo = io.BytesIO()
        core.with_timeout(lambda: fastavro.writer(fo, schema, data), 20)
        back = core.with_timeout(lambda: list(fastavro.reader(io.BytesIO(fo.getvalue()))), 20)
        w = "ok:" + repr(back)[:400]
    except Exception as e:
        w = "raised:" + type(e).__name__ + ":" + str(e)[:60]
    try:
        json.dumps(strip_top(schema))
        dj = "ok"
    except Exception as e:
        dj = "raised:" + type(e).__name__ + ":" + str(e)[:60]
    return (w, dj)


def large_graphs(rng):
    """acyclic repositories with many resolutions along one path of the loader's recursion: one record referring to 60
    per-file types, a chain of 60 files, and a 30 x 2 mix (implementation-side predicates only: small types, no model term)"""
    def leaf(i, ns):
        k = i % 3
        nm = {"name": "T%d" % i, **({"namespace": ns} if ns else {})}
        if k == 0:
            return {"type": "enum", **nm, "symbols": ["A", "B%d" % i]}
        if k == 1:
            return {"type": "fixed", **nm, "size": 1 + i % 4}
        return {"type": "record", **nm, "fields": [{"name": "x", "type": "int"}]}
    out = []
    for ns in ("", "big.ns"):
        q = (lambda n: ns + "." + n) if ns else (lambda n: n)
        files = {q("Top"): {"type": "record", "name": q("Top"), "fields": [
            {"name": "f%d" % i, "type": rng.choice(["T%d" % i, q("T%d" % i), ["null", q("T%d" % i)], {"type": "array", "items": "T%d" % i}])}
            for i in range(60)]}}
        for i in range(60):
            files[q("T%d" % i)] = leaf(i, ns)
        out.append(dict(top=q("Top"), n=61, shape="fan-out 60", files=files, order=[q("T%d" % i) for i in range(60)] + [q("Top")]))
        files = {}
        for i in range(60):
            nxt = q("C%d" % (i + 1)) if i < 59 else "long"
            files[q("C%d" % i)] = {"type": "record", "name": "C%d" % i, **({"namespace": ns} if ns else {}), "fields": [
                {"name": "n", "type": nxt if i % 2 or nxt == "long" else ["null", nxt]}, {"name": "k", "type": "int"}]}
        out.append(dict(top=q("C0"), n=60, shape="chain 60", files=files, order=[q("C%d" % i) for i in range(59, -1, -1)]))
    return out


def run_large(ctx, d, data_rng):
    from fastavro.schema import load_schema, load_schema_ordered, parse_schema
    for g in large_graphs(data_rng):
        files, top = g["files"], g["top"]
        key = ("large", g["shape"], top)
        write_files(d, files)
        inlined = inline_first_use(files, top)
        named = {}
        st2, parsed = classify(lambda: parse_schema(copy.deepcopy(inlined), named))
        want = canon_of(parsed) if st2 == "ok" else st2
        cs = dict(top=top, shape=g["shape"], files_json=json.dumps(files))
        st, loaded = classify(lambda: load_schema(os.path.join(d, top + ".avsc")))
        got = canon_of(loaded) if st == "ok" else st
        ctx.count("pred:load-equals-inlined", key)
        if got != want or not got.startswith("ok:"):
            ctx.violation("pred:load-equals-inlined", cs, impl=got[:300], model=want[:300],
                          signature="C19:load_schema:canonical-form-differs-from-inlined" if got.startswith("ok:")
                          else "C19:load_schema:fails-on-valid-repository:" + strip_other(got).split(":")[0])
        sto, lo = classify(lambda: load_schema_ordered([os.path.join(d, n + ".avsc") for n in g["order"]]))
        goto = canon_of(lo) if sto == "ok" else sto
        ctx.count("pred:ordered-equals-inlined", key)
        if goto != want:
            ctx.violation("pred:ordered-equals-inlined", dict(cs, order=g["order"]), impl=goto[:300], model=want[:300],
                          signature="C19:load_schema_ordered:" + ("canonical-form-differs-from-inlined" if goto.startswith("ok:")
                                                                 else "fails:" + strip_other(goto).split(":")[0]))
        if st == "ok" and st2 == "ok":
            try:
                datum = gen.DataGen(data_rng, dict(named), hints=False).datum(parsed)
            except Exception:
                datum = None
            if datum is not None:
                ctx.count("pred:load-encoding", (key, "datum"))
                e1, e2 = encode(loaded, datum), encode(parsed, datum)
                if e1 != e2:
                    ctx.violation("pred:load-encoding", dict(cs, datum=repr(datum)[:300]), impl=e1, model=e2,
                                  signature="C19:load_schema:encoding-differs-from-inlined")


def case(g, **kw):
    return dict(top=g["top"], files=g["files"], files_json=json.dumps(g["files"]), deps=g["deps"], **kw)


def run_graph(ctx, g, d, data_rng):
    """implementation side for one graph; returns dict of observations"""
    from fastavro.schema import load_schema, load_schema_ordered, parse_schema
    files, top = g["files"], g["top"]
    obs = {}
    write_files(d, files)
    st, loaded = classify(lambda: load_schema(os.path.join(d, top + ".avsc")))
    obs["load"] = canon_of(loaded) if st == "ok" else st
    inlined = inline_first_use(files, top)
    named = {}
    st2, parsed = classify(lambda: parse_schema(copy.deepcopy(inlined), named))
    obs["inlined"] = canon_of(parsed) if st2 == "ok" else st2
    obs["inlined_raw"] = inlined
    # encodings of generated data under both
    obs["enc"] = []
    if st == "ok" and st2 == "ok":
        dg = gen.DataGen(data_rng, {k: v for k, v in named.items()}, hints=False)
        for _ in range(3):
            try:
                datum = dg.datum(parsed)
            except Exception:
                continue
            obs["enc"].append((repr(datum)[:300], encode(loaded, datum), encode(parsed, datum)))
            obs.setdefault("data", []).append(datum)
    obs["container"] = []
    if st == "ok" and st2 == "ok":
        obs["container"].append(("load_schema", None, container_use(loaded, obs.get("data", [])), container_use(parsed, obs.get("data", []))))
    # ordered loading
    obs["ordered"] = []
    for order in topo_orders(g["deps"], top, rng=data_rng):
        sto, lo = classify(lambda: load_schema_ordered([os.path.join(d, n + ".avsc") for n in order]))
        r = canon_of(lo) if sto == "ok" else sto
        encs = []
        if sto == "ok" and st2 == "ok" and obs["enc"]:
            dg = gen.DataGen(data_rng, dict(named), hints=False)
            try:
                datum = dg.datum(parsed)
                encs.append((repr(datum)[:300], encode(lo, datum), encode(parsed, datum)))
            except Exception:
                pass
        obs["ordered"].append((order, r, encs))
        if sto == "ok" and st2 == "ok":
            obs["container"].append(("load_schema_ordered", list(order), container_use(lo, obs.get("data", [])), container_use(parsed, obs.get("data", []))))
    # several loads through ONE repository object (and through the path form), of different top-level types of the
    # same graph, in several orders, and of the same top twice: each result against its own inlined schema
    from fastavro.repository import FlatDictRepository
    obs["sequence"] = []
    write_files(d, files)
    records = [n for n, raw in files.items() if raw.get("type") == "record"]
    seqs = [records[::-1] + [top], [top] + records[::-1], [top, top]]
    if len(records) > 2:
        sh = list(records); data_rng.shuffle(sh); seqs.append(sh + [top])
    for seq in seqs:
        for form in ("repo", "path"):
            repo = FlatDictRepository(d)
            for k, name in enumerate(seq):
                if form == "repo":
                    stq, lq = classify(lambda: load_schema(name, repo=repo))
                else:
                    stq, lq = classify(lambda: load_schema(os.path.join(d, name + ".avsc")))
                r = canon_of(lq) if stq == "ok" else stq
                inl = inline_first_use(files, name)
                nm = {}
                sti, pi = classify(lambda: parse_schema(copy.deepcopy(inl), nm))
                expect = canon_of(pi) if sti == "ok" else sti
                enc = None
                if stq == "ok" and sti == "ok":
                    try:
                        datum = gen.DataGen(data_rng, dict(nm), hints=False).datum(pi)
                        enc = (repr(datum)[:200], encode(lq, datum), encode(pi, datum))
                    except Exception:
                        enc = None
                obs["sequence"].append((form, list(seq), k, name, r, expect, enc))
    # every single file removed
    obs["missing"] = []
    for name in files:
        write_files(d, files, skip=name)
        stm, lm = classify(lambda: load_schema(os.path.join(d, top + ".avsc")))
        obs["missing"].append((name, canon_of(lm) if stm == "ok" else stm))
    # two files removed: UnknownType names the FIRST missing reference in document order (C19_first_unknown)
    obs["missing2"] = []
    others = [n for n in files if n != top]
    if len(others) >= 2:
        r2 = __import__("random").Random("|".join(sorted(files)))
        prs = [tuple(r2.sample(others, 2)) for _ in range(3)]
        for pr in sorted(set(prs)):
            write_files(d, files, skip=set(pr))
            stm, lm = classify(lambda: load_schema(os.path.join(d, top + ".avsc")))
            rest = {n: r for n, r in files.items() if n not in pr}
            obs["missing2"].append((pr, canon_of(lm) if stm == "ok" else stm, first_missing(rest, top)))
    return obs


def run(ctx):
    rng = ctx.rng
    n = 110 if ctx.quick() else 2500
    graphs = [gen_graph(rng) for _ in range(n)]
    # hand-made graphs: diamond, use at two depths, namespace-relative reference inside a sub-schema
    graphs.append(dict(top="A", n=4, deps={"A": ["B", "C"], "B": ["D"], "C": ["D"], "D": []}, files={
        "A": {"type": "record", "name": "A", "fields": [{"name": "b", "type": "B"}, {"name": "c", "type": "C"}]},
        "B": {"type": "record", "name": "B", "fields": [{"name": "d", "type": "D"}]},
        "C": {"type": "record", "name": "C", "fields": [{"name": "d", "type": ["null", "D"]}]},
        "D": {"type": "enum", "name": "D", "symbols": ["A"]}}))
    graphs.append(dict(top="n.A", n=3, deps={"n.A": ["n.B", "n.D"], "n.B": ["n.D"], "n.D": []}, files={
        "n.A": {"type": "record", "name": "A", "namespace": "n", "fields": [{"name": "x", "type": {"type": "array", "items": "B"}}, {"name": "y", "type": "n.D"}]},
        "n.B": {"type": "record", "name": "n.B", "fields": [{"name": "d", "type": {"type": "map", "values": "D"}}]},
        "n.D": {"type": "fixed", "name": "D", "namespace": "n", "size": 4}}))
    graphs.append(dict(top="a.P", n=3, deps={"a.P": ["b.Q"], "b.Q": ["b.R"], "b.R": []}, files={
        "a.P": {"type": "record", "name": "a.P", "fields": [{"name": "q", "type": "b.Q"}, {"name": "r", "type": "b.R"}]},
        "b.Q": {"type": "record", "name": "Q", "namespace": "b", "fields": [{"name": "r", "type": "R"}]},
        "b.R": {"type": "record", "name": "R", "namespace": "b", "fields": []}}))
    # the same short name in two namespaces: b.X spelled "X" twice inside namespace b, then a.X
    graphs.append(dict(top="b.T", n=3, deps={"b.T": ["b.X", "a.X"], "b.X": [], "a.X": []}, files={
        "b.T": {"type": "record", "name": "T", "namespace": "b", "fields": [
            {"name": "f1", "type": "X"}, {"name": "f2", "type": ["null", "X"]}, {"name": "f3", "type": {"type": "array", "items": "X"}},
            {"name": "f4", "type": "a.X"}, {"name": "f5", "type": ["null", "a.X"]}]},
        "b.X": {"type": "enum", "name": "X", "namespace": "b", "symbols": ["B1", "B2"]},
        "a.X": {"type": "record", "name": "a.X", "fields": [{"name": "v", "type": "long"}]}}))
    # a null-namespace record nested ("namespace": "") in a namespaced file refers to a null-namespace type with its own file
    graphs.append(dict(top="a.P", n=3, deps={"a.P": ["X", "a.E"], "X": [], "a.E": []}, files={
        "a.P": {"type": "record", "name": "P", "namespace": "a", "fields": [
            {"name": "e", "type": "E"},
            {"name": "q", "type": {"type": "record", "name": "Q", "namespace": "", "fields": [
                {"name": "x", "type": "X"}, {"name": "k", "type": {"type": "enum", "name": "K", "symbols": ["A"]}}, {"name": "k2", "type": ["null", "K"]}]}},
            {"name": "e2", "type": ["null", "a.E"]}]},
        "X": {"type": "fixed", "name": "X", "size": 3},
        "a.E": {"type": "enum", "name": "E", "namespace": "a", "symbols": ["A", "B"]}}))
    # a per-file type used twice inside ONE union: nested in an earlier complex branch, then directly as a later branch
    for ns in ("", "u.v"):
        q = (lambda n_: ns + "." + n_) if ns else (lambda n_: n_)
        for tkind in ("record", "enum", "fixed"):
            tdef = {"type": tkind, "name": q("T")}
            tdef.update({"record": {"fields": [{"name": "x", "type": "int"}]}, "enum": {"symbols": ["A", "B"]}, "fixed": {"size": 3}}[tkind])
            for early in ({"type": "map", "values": q("T")}, {"type": "array", "items": "T"},
                          {"type": "record", "name": q("W"), "fields": [{"name": "f", "type": "T"}]},
                          {"type": "array", "items": {"type": "map", "values": ["null", q("T")]}}):
                for union in ([early, q("T")], ["null", early, "T"], [early, "string", q("T")]):
                    top = {"type": "record", "name": q("Top"), "fields": [{"name": "u", "type": copy.deepcopy(union)},
                                                                        {"name": "after", "type": ["null", "T"]}]}
                    graphs.append(dict(top=q("Top"), n=2, deps={q("Top"): [q("T")], q("T"): []}, files={q("Top"): top, q("T"): copy.deepcopy(tdef)}))
    # the same simple name in the null namespace and in a namespace; a type of that namespace refers to its sibling by the
    # relative spelling AFTER the null-namespace one has been loaded (document order): it must bind to the sibling
    for kind_null, kind_ns in [("enum", "enum"), ("fixed", "enum"), ("record", "record"), ("enum", "record")]:
        def mk(kind, name, ns, tag):
            base = {"type": kind, "name": name}
            if ns:
                base["namespace"] = ns
            if kind == "enum":
                base["symbols"] = ["A" + tag, "B" + tag, "C" + tag][:2 if tag == "n" else 3]
            elif kind == "fixed":
                base["size"] = 2 if tag == "n" else 5
            else:
                base["fields"] = [{"name": "v" + tag, "type": "long" if tag == "n" else "string"}]
            return base
        for first in (True, False):
            fl = [{"name": "s", "type": "Status"}, {"name": "line", "type": "shop.Line"}]
            graphs.append(dict(top="Order", n=4, deps={"Order": ["Status", "shop.Line"] if first else ["shop.Line", "Status"],
                                                       "Status": [], "shop.Line": ["shop.Status"], "shop.Status": []}, files={
                "Order": {"type": "record", "name": "Order", "fields": fl if first else fl[::-1]},
                "Status": mk(kind_null, "Status", "", "n"),
                "shop.Line": {"type": "record", "name": "Line", "namespace": "shop", "fields": [
                    {"name": "status", "type": rng.choice(["Status", ["null", "Status"], {"type": "array", "items": "Status"}])}]},
                "shop.Status": mk(kind_ns, "Status", "shop", "s")}))
    d = tempfile.mkdtemp(prefix="c19.", dir=ctx.workdir)
    try:
        exprs, index = [], []
        for gi, g in enumerate(graphs):
            rp = repo_coq(g["files"])
            top = sg.coq_str(g["top"])
            orders = topo_orders(g["deps"], g["top"], rng=__import__("random").Random(gi))
            g["model_order"] = orders[0] if orders else [g["top"]]
            exprs += ["show_load %s %s" % (rp, top), "show_inlined %s %s" % (rp, top), "show_inlined_valid %s %s" % (rp, top),
                      "show_load_ordered %s [%s]" % (rp, "; ".join(sg.coq_str(x) for x in g["model_order"]))]
            index.append(len(exprs))
            for name in g["files"]:
                exprs.append("show_load %s %s" % (repo_coq(g["files"], skip=name), top))
        out = core.coq_eval(exprs, IMPORTS, ctx.workdir, tag="load", shard=60 if ctx.quick() else 150)
        pos = 0
        hist = {}
        for gi, g in enumerate(graphs):
            m_load, m_inl = unhex(out[pos]), unhex(out[pos + 1])
            m_valid, m_ord = out[pos + 2], unhex(out[pos + 3])
            pos += 4
            m_missing = [unhex(out[pos + i]) for i in range(len(g["files"]))]
            pos += len(g["files"])
            obs = run_graph(ctx, g, d, rng)
            key = json.dumps(g["files"], sort_keys=True)
            nt = g["n"] >= 2
            hist[g["n"]] = hist.get(g["n"], 0) + 1
            # ---- the statement on the implementation
            ctx.count("pred:load-equals-inlined", key, nontrivial=nt)
            if obs["load"] != obs["inlined"] or not obs["load"].startswith("ok:"):
                ctx.violation("pred:load-equals-inlined", case(g, inlined=obs["inlined_raw"]), impl=obs["load"], model=obs["inlined"],
                              signature="C19:load_schema:canonical-form-differs-from-inlined" if obs["load"].startswith("ok:")
                              else "C19:load_schema:fails-on-valid-repository:" + strip_other(obs["load"]).split(":")[0])
            for datum, e1, e2 in obs["enc"]:
                ctx.count("pred:load-encoding", (key, datum), nontrivial=nt)
                if e1 != e2:
                    ctx.violation("pred:load-encoding", case(g, datum=datum), impl=e1, model=e2,
                                  signature="C19:load_schema:encoding-differs-from-inlined")
            for order, r, encs in obs["ordered"]:
                ctx.count("pred:ordered-equals-inlined", (key, tuple(order)), nontrivial=nt)
                if r != obs["inlined"]:
                    ctx.violation("pred:ordered-equals-inlined", case(g, order=order), impl=r, model=obs["inlined"],
                                  signature="C19:load_schema_ordered:" + ("canonical-form-differs-from-inlined" if r.startswith("ok:")
                                                                         else "fails:" + strip_other(r).split(":")[0]))
                for datum, e1, e2 in encs:
                    if e1 != e2:
                        ctx.violation("pred:ordered-equals-inlined", case(g, order=order, datum=datum), impl=e1, model=e2,
                                      signature="C19:load_schema_ordered:encoding-differs-from-inlined")
            for fn, order, got, want in obs["container"]:
                ctx.count("pred:loaded-schema-serialises", (key, fn, tuple(order or ())), nontrivial=nt)
                if got != want:
                    ctx.violation("pred:loaded-schema-serialises", case(g, function=fn, order=order), impl=dict(writer_reader=got[0], json_dumps=got[1]),
                                  model=dict(writer_reader=want[0], json_dumps=want[1]),
                                  signature="C19:%s:%s" % (fn, "container-file-differs-or-fails" if got[0] != want[0] else "schema-not-serialisable"))
            for form, seq, k, name, r, expect, enc in obs["sequence"]:
                ctx.count("pred:repeated-loads", (key, form, tuple(seq), k), nontrivial=nt)
                if r != expect or (enc is not None and enc[1] != enc[2]):
                    ctx.violation("pred:repeated-loads", case(g, form=form, sequence=seq, index=k, loaded=name), impl=r if r != expect else enc[1],
                                  model=expect if r != expect else enc[2],
                                  signature="C19:load_schema:repeated-loads-through-one-%s:%s" % (
                                      "repository" if form == "repo" else "directory",
                                      "differs-from-inlined" if r.startswith("ok:") else "fails:" + strip_other(r).split(":")[0]))
            for name, r in obs["missing"]:
                ctx.count("pred:missing-file", (key, name), nontrivial=nt)
                expect = "repo-error" if name == g["top"] else "unknown:" + name
                if r != expect:
                    ctx.violation("pred:missing-file", case(g, removed=name), impl=r, model=expect,
                                  signature="C19:load_schema:missing-file:" + ("accepted" if r.startswith("ok:") else "names-" + strip_other(r).split(":")[0]))
            for pr, r, fm in obs["missing2"]:
                ctx.count("pred:first-missing", (key, pr), nontrivial=nt)
                expect = "unknown:" + fm if fm is not None else None
                if expect is not None and r != expect:
                    ctx.violation("pred:first-missing", case(g, removed=list(pr)), impl=r, model=expect,
                                  signature="C19:load_schema:two-missing-files:" + ("accepted" if r.startswith("ok:") else "names-another"))
            # ---- model vs implementation
            ctx.count("corr:load", key, nontrivial=nt)
            if strip_other(obs["load"]) != m_load:
                ctx.violation("corr:load", case(g), impl=obs["load"], model=m_load,
                              signature="C19:load_schema:differs-from-model", found_input=False)
            if m_inl != obs["inlined"] or m_valid != "true":
                ctx.violation("corr:inline_first_use", case(g, inlined=obs["inlined_raw"]), impl=obs["inlined"], model=[m_inl, m_valid],
                              signature="C19:harness:inline_first_use-differs-from-model", found_input=False)
            mo = [r for order, r, _ in obs["ordered"] if order == g["model_order"]]
            if mo and strip_other(mo[0]) != m_ord:
                ctx.violation("corr:load-ordered", case(g, order=g["model_order"]), impl=mo[0], model=m_ord,
                              signature="C19:load_schema_ordered:differs-from-model", found_input=False)
            for (name, r), mm in zip(obs["missing"], m_missing):
                ctx.count("corr:load-missing", (key, name), nontrivial=nt)
                if strip_other(r) != mm:
                    ctx.violation("corr:load-missing", case(g, removed=name), impl=r, model=mm,
                                  signature="C19:load_schema:missing-file:differs-from-model", found_input=False)
        run_large(ctx, d, rng)
        ctx.notes["graph_sizes"] = hist
        ctx.sample(dict(top=graphs[3]["top"], files=graphs[3]["files"]))
    finally:
        shutil.rmtree(d, ignore_errors=True)


def replay(ctx, rep):
    c = rep["case"]
    files = json.loads(c["files_json"])
    g = dict(top=c["top"], files=files, deps=c["deps"], n=len(files))
    d = tempfile.mkdtemp(prefix="c19.", dir=ctx.workdir)
    try:
        obs = run_graph(ctx, g, d, __import__("random").Random(0))
    finally:
        shutil.rmtree(d, ignore_errors=True)
    print("load_schema:", obs["load"])
    print("parse of the inlined schema:", obs["inlined"])
    ok = obs["load"] == obs["inlined"] and obs["load"].startswith("ok:")
    for datum, e1, e2 in obs["enc"]:
        ok = ok and e1 == e2
    for order, r, encs in obs["ordered"]:
        print("ordered", order, r)
        ok = ok and r == obs["inlined"]
    for form, seq, k, name, r, expect, enc in obs["sequence"]:
        if r != expect or (enc is not None and enc[1] != enc[2]):
            print("sequence", form, seq, "load #%d of %s:" % (k, name), r, "expected", expect)
            ok = False
    for name, r in obs["missing"]:
        expect = "repo-error" if name == g["top"] else "unknown:" + name
        print("without", name, "->", r, "(expected", expect + ")")
        ok = ok and r == expect
    return ok
