"""C06 - truncated or sync-corrupted files never yield records that were not written."""
import io, json
from .. import core, gallina as G, codec_common as CC, container_common as K, gen
from . import c04, c03

SRCFACTS = ["container"]
RULE = ("corr:cut = container files written by fastavro cut at EVERY byte offset (all offsets of every generated file; quick: ~40 files up to "
        "~600 bytes, all four codecs): the statement itself is evaluated on the implementation at each offset (yields a prefix of the written "
        "records; ends normally only at a block boundary; otherwise raises) and, for null-codec files, the yielded list and outcome are "
        "compared with the model's lazy reader; corr:sync-flip = every byte of every block marker altered; corr:prefix = every proper prefix of "
        "schemaless encodings; non-trivial = file with at least one record; distinct by (file, offset)")
TRUSTED = c04.TRUSTED
ASSUMPTIONS = ["partial yields out of a block whose PAYLOAD is corrupt are not modelled (neither truncation nor marker alteration produces one)"]
PARTIAL = []


def boundaries(data):
    hl, meta, sync = K.split_header(data)
    return hl, [hl] + [e for _, _, _, _, e in K.split_blocks(data, hl)]


def impl_read_via_blocks(data, limit_s=10):
    """records obtained by iterating fastavro.block_reader (a block is handed out only after its marker matched)"""
    import fastavro
    out, per_block = [], []
    def go():
        for b in fastavro.block_reader(io.BytesIO(data)):
            recs = list(b)
            per_block.append(len(recs))
            out.extend(recs)
    try:
        core.with_timeout(go, limit_s)
        oc = "END"
    except core.Timeout:
        oc = "TIMEOUT"
    except Exception:
        oc = "RAISED"
    return oc, out, per_block


def run(ctx):
    import fastavro
    rng = ctx.rng
    quick = ctx.quick()
    cases = []
    for c in c04.make_cases(ctx, 400 if quick else 4000):
        if len(c["records"]) == 0 and rng.random() < 0.8:
            continue
        w = c04.impl_write_file(c)
        if w[0] != "ok":
            continue
        c["data"] = w[1].getvalue()
        if len(c["data"]) > (700 if quick else 4096):
            continue
        cases.append(c)
        if len(cases) >= (36 if quick else 700):
            break
    # blocks with >= 64 records: the record COUNT is then a multi-byte varint, so a cut can fall inside it
    import fastavro as _fa
    for raw, nrec, codec in [("boolean", 70, "null"), ("null", 200, "deflate"), ({"type": "fixed", "name": "F1", "size": 1}, 64, "null"),
                             ("int", 8200, "xz") if not quick else ("int", 130, "bzip2")]:
        named = {}
        parsed = _fa.parse_schema(raw, named)
        recs = K.gen_records(rng, parsed, named, nrec)
        c = dict(raw=raw, parsed=parsed, named=named, records=recs, codec=codec, si=1 << 30, meta=None,
                 sync=bytes(rng.randrange(256) for _ in range(16)), level=None, use_raw=False)
        w = c04.impl_write_file(c)
        if w[0] == "ok":
            c["data"] = w[1].getvalue()
            cases.append(c)
    exprs, meta_e = [], []
    ncut = 0
    for c in cases:
        data = c["data"]
        hl, bnds = boundaries(data)
        _, full = K.impl_read_file(data)
        full_txt = [G.show_py(v) for v in full]
        for k in range(len(data)):
            cut = data[:k]
            t, out = K.impl_read_file(cut, limit_s=10)
            ncut += 1
            ctx.count("corr:cut", None, nontrivial=False)
            got = [G.show_py(v) for v in out]
            prefix_ok = got == full_txt[:len(got)]
            end_ok = (not t.endswith("|END")) or (k in bnds)
            raised_in_header = k >= hl or t == "|RAISED"
            if not (prefix_ok and end_ok and raised_in_header) or t.endswith("TIMEOUT"):
                why = ("yields-records-that-were-not-written" if not prefix_ok else
                       "ends-normally-off-a-block-boundary" if not end_ok else "header-cut-not-reported")
                ctx.violation("corr:cut", dict(c04.case_json(c), file=data.hex(), cut=k), impl=t[:600], model="prefix of " + str(len(full)) + " records; END only at " + str(bnds),
                              signature="C06:cut:" + why, found_input=True)
            # the same cut through the block reader
            boc, bout, _ = impl_read_via_blocks(cut)
            bgot = [G.show_py(v) for v in bout]
            if bgot != full_txt[:len(bgot)] or (boc == "END" and k not in bnds) or boc == "TIMEOUT" or (k < hl and boc != "RAISED"):
                ctx.violation("corr:cut", dict(c04.case_json(c), file=data.hex(), cut=k, via="block_reader"), impl=boc + " after %d records" % len(bout),
                              model="prefix of %d records; END only at %s" % (len(full), bnds),
                              signature="C06:cut:block_reader:" + ("yields-records-that-were-not-written" if bgot != full_txt[:len(bgot)] else "ends-normally-off-a-block-boundary"),
                              found_input=True)
            if c["codec"] == "null" and (quick is False or rng.random() < 0.35):
                exprs.append(K.expr_readfile(c["parsed"], c["named"], cut))
                meta_e.append((c, k, t))
        ctx.nontrivial.add("file:%d" % id(c))
    ctx.notes["cut_offsets_checked_on_impl"] = ncut
    model = CC.run_model(ctx, exprs, "c06c")
    for (c, k, t), m in zip(meta_e, model):
        ctx.count("corr:cut-model", (c["data"], k), nontrivial=True)
        if G.canon_model_text(t) != m:
            ctx.violation("corr:cut-model", dict(c04.case_json(c), file=c["data"].hex(), cut=k), impl=t[:600], model=m[:600],
                          signature="C06:model-differs", found_input=False)
    # ---- corr:sync-flip
    exprs, meta_e = [], []
    for c in cases:
        data = c["data"]
        hl, meta, sync = K.split_header(data)
        frames = K.split_blocks(data, hl)
        _, full = K.impl_read_file(data)
        # records per block, from the block reader counts
        counts = [f[0] for f in frames]
        for bi, (cnt, payload, marker, s, e) in enumerate(frames):
            positions = range(16) if not quick else rng.sample(range(16), 4)
            for pos in positions:
                bad = bytearray(data)
                bad[e - 16 + pos] ^= rng.choice([1, 0x80, 0xFF])
                bad = bytes(bad)
                t, out = K.impl_read_file(bad, limit_s=10)
                expect_n = sum(max(0, x) for x in counts[:bi + 1])
                ctx.count("corr:sync-flip", (data, bi, pos), nontrivial=True)
                ok = t.endswith("|RAISED") and len(out) == expect_n and [G.show_py(v) for v in out] == [G.show_py(v) for v in full[:expect_n]]
                if not ok:
                    ctx.violation("corr:sync-flip", dict(c04.case_json(c), file=bad.hex(), block=bi, byte=pos), impl=t[:600],
                                  model="records of blocks 0..%d then an error" % bi,
                                  signature="C06:sync:altered-marker-not-reported-at-its-block", found_input=True)
                # block reader: blocks before the altered one are handed out, then the error
                boc, bout, per_block = impl_read_via_blocks(bad)
                expect_b = sum(max(0, x) for x in counts[:bi])
                if boc != "RAISED" or len(bout) != expect_b:
                    ctx.violation("corr:sync-flip", dict(c04.case_json(c), file=bad.hex(), block=bi, byte=pos, via="block_reader"),
                                  impl="%s after %d records in %d blocks" % (boc, len(bout), len(per_block)),
                                  model="blocks 0..%d then an error" % (bi - 1),
                                  signature="C06:sync:block_reader:altered-marker-not-reported-at-its-block", found_input=True)
                if c["codec"] == "null" and rng.random() < 0.5:
                    exprs.append(K.expr_readfile(c["parsed"], c["named"], bad))
                    meta_e.append((c, bi, pos, t, bad))
    model = CC.run_model(ctx, exprs, "c06s")
    for (c, bi, pos, t, bad), m in zip(meta_e, model):
        ctx.count("corr:sync-flip-model", (bad,), nontrivial=True)
        if G.canon_model_text(t) != m:
            ctx.violation("corr:sync-flip-model", dict(c04.case_json(c), file=bad.hex(), block=bi, byte=pos), impl=t[:600], model=m[:600],
                          signature="C06:model-differs", found_input=False)
    # ---- corr:prefix : every proper prefix of schemaless encodings raises (theorem C06_schemaless_prefix)
    npref = 0
    import fastavro
    tails = []
    for raw, datum in CC.tail_cases():
        c = CC.Case()
        c.raw, c.named = raw, {}
        c.parsed = fastavro.parse_schema(json.loads(json.dumps(raw)), c.named)
        c.datum = datum
        tails.append(c)
    for c in tails + CC.gen_cases(ctx, 60 if quick else 1500, hints=False):
        w = CC.impl_write(c.parsed, c.datum)
        if w[0] != "ok" or len(w[1]) > 300:
            continue
        for k in range(len(w[1])):
            r = CC.impl_read(c.parsed, w[1][:k])
            npref += 1
            ctx.count("corr:prefix", None, nontrivial=False)
            if r[0] == "ok":
                ctx.violation("corr:prefix", dict(schema=c.raw, bytes=w[1].hex(), cut=k), impl=repr(r[1])[:300], model="raises",
                              signature="C06:prefix:returns-value-on-truncated-input", found_input=True)
            # the same prefix decoded with a reader schema that drops the (trailing) value: it is skipped, and must raise as well
            w2 = {"type": "record", "name": "CutT", "fields": [{"name": "b", "type": "long"}, {"name": "a", "type": c.raw}]}
            r2 = {"type": "record", "name": "CutT", "fields": [{"name": "b", "type": "long"}]}
            try:
                rs = CC.impl_read(w2, b"\x0a" + w[1][:k], r2)
            except Exception as e:
                rs = ("raised", type(e).__name__, None)
            ctx.count("corr:prefix-skipped", None, nontrivial=False)
            if rs[0] == "ok":
                ctx.violation("corr:prefix-skipped", dict(writer_schema=w2, reader_schema=r2, bytes=(b"\x0a" + w[1]).hex(), cut=k + 1), impl=repr(rs[1])[:300],
                              model="raises", signature="C06:prefix:skipped-value:returns-value-on-truncated-input", found_input=True)
    ctx.notes["schemaless_prefixes_checked"] = npref
    ctx.notes["files"] = len(cases)
    ctx.notes["codec_histogram"] = {k: sum(1 for c in cases if c["codec"] == k) for k in K.CODECS}
    for c in cases[:3]:
        ctx.sample(dict(schema=c["raw"], codec=c["codec"], n_records=len(c["records"]), file_bytes=len(c["data"]), cuts=len(c["data"])))


def replay(ctx, rep):
    c = rep["case"]
    if "bytes" in c:            # schemaless prefix families
        p = bytes.fromhex(c["bytes"])[:c["cut"]]
        r = CC.impl_read(c["writer_schema"], p, c["reader_schema"]) if "writer_schema" in c else CC.impl_read(c["schema"], p)
        print("prefix of", c["cut"], "bytes ->", r[:2])
        return r[0] != "ok"
    data = bytes.fromhex(c["file"])
    if "cut" in c:
        cut = data[:c["cut"]]
        _, full = K.impl_read_file(data)
        t, out = K.impl_read_file(cut)
        hl, bnds = boundaries(data)
        got = [G.show_py(v) for v in out]
        ok = got == [G.show_py(v) for v in full][:len(got)] and ((not t.endswith("|END")) or c["cut"] in bnds)
        print("cut at", c["cut"], "->", t[:300], "; boundaries", bnds)
        return ok
    t, out = K.impl_read_file(data)
    print(t[:400])
    return t.endswith("|RAISED")
