"""C08 - reading with a reader schema yields what the specification's resolution rules prescribe.

corr:resolve   implementation (schemaless_reader and reader(reader_schema=...)) vs the model's `rdec` (tie model<->code)
               AND vs the model's `resolve` applied to the value decoded under the writer schema (the statement itself)."""
import copy, io, json
from .. import core, gallina as G, codec_common as CC, gen, evolve

SRCFACTS = []
IMPORTS = ("From Coq Require Import String.\n"
           "From FA Require Import model.Base model.Varint model.Float model.Value model.Schema model.Codec model.Validate "
           "model.Read model.Harness model.Resolve.\n"
           "Open Scope Z_scope.\n")
RULE = ("cases = (writer schema, reader schema, datum): writer schemas random over all constructs (70 % records at top level) + a fixed pool; "
        "reader = composition of 1..6 evolution steps at random depth (add field +/- default, remove field of any type ahead of a retained "
        "one, reorder, rename +/- alias, alias handed to another field, promote, demote, enum add/remove/reorder symbol +/- default, fixed "
        "size, rename type +/- alias (full or unqualified), move a definition to another use site, wrap/unwrap/reorder union, add/remove "
        "branch, change namespace, change kind of a named type, drop default, dict-form primitive) or a deep copy of the writer (15 %); data "
        "boundary-dense from the codec generator (no hints); both schemaless_reader and reader(reader_schema=); hand-written witnesses of every "
        "known disagreement class; non-trivial = at least one step applied and datum has depth; distinct by (writer, reader, datum). "
        "corr:resolve-layouts = the same on FOREIGN bytes: writer records containing arrays/maps, a random valid layout of a random value "
        "(multi-block arrays/maps, negative counts + arbitrary byte sizes, sized and unsized blocks mixed) produced by the model's wire_l, "
        "reader schemas that drop (75 %: a container-typed field first, at any depth) or keep those fields; schemaless_reader on the bytes and "
        "reader(reader_schema=) on a container file whose block holds them. corr:resolve-stream = every case whose reader schema has a list/dict "
        "field default: the datum three times in one file / three schemaless reads with one parsed reader schema, every value read is grown in "
        "place (append / set key) before the next read; each must be the specification's value and the reader schema must be left unchanged")
TRUSTED = ["the writer/reader schemas reach the model as the parsed dicts and the two named_schemas tables the implementation itself built "
           "(schemaless: parse_schema into separate dicts; container: file_reader's own _named_schemas)",
           "the `writer_schema == reader_schema` shortcut of schemaless_reader is evaluated by the harness (Python ==) and passed to the model as 'no reader schema'",
           "violation signatures are labels computed by Python predicates over the case; the verdict itself is the model's"]
ASSUMPTIONS = ["named types are not called like a built-in type name", "logical types other than unknown ones are not generated (C16)",
               "reader schemas that fastavro.parse_schema rejects are not generated",
               "dict insertion order of the result is not compared (DESIGN 1.3)",
               "str defaults that float() would accept ('1.5', 'nan') are not generated for unions containing float/double"]
PARTIAL = ["C08_factor is proved as C08_factor_code (rdec = decode ; rval: all schema pairs, options, layouts) + C08_factor_zone_partial (rval = resolve for "
           "schemas without by-name references under the computable condition `agree`) + C08_factor_zone_refs_any_height_partial (schemas with by-name references / "
           "recursive types, values of ANY height, under the computable condition `agree_all`: a finite set of (writer, reader) schema pairs closed under the pairs visited "
           "next, each pair with no empty reader union, no empty-string enum default, well-formed JSON defaults; C08_factor_zone_refs_partial is the depth-indexed form "
           "`agreen k`, monotone in k); unknown logicalType annotations on array / map / named-type nodes are proved transparent for the code and for the rules "
           "(C08_code_ignores_annotations, C08_spec_ignores_annotations: all schemas), so both zone theorems hold with the zone checked on the schemas without them "
           "(C08_factor_zone_annot_partial, C08_factor_zone_refs_annot_partial); that the code's match verdicts / reader-union branch choice / record guard coincide with "
           "the specification's is proved; reader == writer through the code is proved with references too (C08_identity_code_refs_any_height_partial); all for ANY "
           "reader options. Not covered: unions immediately containing unions - these are no Avro schemas (C08_no_union_behind_reference: none is reached through a "
           "reference either). The full statement was false of the code before the repairs (C08_old_code_refuted_*, about model/ResolveOld.v)"]

SRE = "SchemaResolutionError"


# ---------------------------------------------------------------- canonical values (dict order ignored)
def canon_py(v):
    if v is None:
        return ("N",)
    if isinstance(v, bool):
        return ("b", v)
    if isinstance(v, int):
        return ("I", v)
    if isinstance(v, float):
        return ("D", "nan" if v != v else G.fbits(v))
    if isinstance(v, str):
        return ("S", v.encode("utf-8", "surrogatepass").hex())
    if isinstance(v, (bytes, bytearray)):
        return ("B" if isinstance(v, bytes) else "A", bytes(v).hex())
    if isinstance(v, list):
        return ("L", tuple(canon_py(x) for x in v))
    if isinstance(v, tuple):
        return ("T", tuple(canon_py(x) for x in v))
    if isinstance(v, dict):
        return ("M", tuple(sorted(((canon_py(k), canon_py(x)) for k, x in v.items()), key=repr)))
    return ("?", type(v).__name__)


def parse_show(s):
    """inverse of show_py (model text) into the canonical form"""
    pos = 0

    def hexrun():
        nonlocal pos
        j = pos
        while j < len(s) and s[j] in "0123456789abcdef":
            j += 1
        out = s[pos:j]
        pos = j
        return out

    def val():
        nonlocal pos
        c = s[pos]
        pos += 1
        if c == "N":
            return ("N",)
        if c == "T":
            return ("b", True)
        if c == "F":
            return ("b", False)
        if c == "I":
            j = pos
            if s[j] == "-":
                j += 1
            while j < len(s) and s[j].isdigit():
                j += 1
            n = int(s[pos:j])
            pos = j
            return ("I", n)
        if c == "D":
            if s.startswith("nan", pos):
                pos += 3
                return ("D", "nan")
            j = pos
            while j < len(s) and s[j].isdigit():
                j += 1
            n = int(s[pos:j])
            pos = j
            return ("D", n)
        if c in "SBA":
            return (c, hexrun())
        if c in "[(":
            close = "]" if c == "[" else ")"
            items = []
            while s[pos] != close:
                items.append(val())
                assert s[pos] == ","
                pos += 1
            pos += 1
            return ("L" if c == "[" else "T", tuple(items))
        if c == "{":
            items = []
            while s[pos] != "}":
                k = val()
                assert s[pos] == ":"
                pos += 1
                x = val()
                assert s[pos] == ","
                pos += 1
                items.append((k, x))
            pos += 1
            # later duplicates cannot occur: the model's dicts have unique keys
            return ("M", tuple(sorted(items, key=repr)))
        raise ValueError("bad model text at %d: %r" % (pos, s[:80]))
    v = val()
    assert pos == len(s), (pos, s)
    return v


# ---------------------------------------------------------------- implementation runners
def run_schemaless(argw, argr, data, ropts):
    import fastavro
    fo = io.BytesIO(data)
    try:
        v = core.with_timeout(lambda: fastavro.schemaless_reader(fo, argw, argr, **ropts), 20)
        return ("ok", v, len(data) - fo.tell())
    except core.Timeout:
        return ("timeout", None, None)
    except RecursionError:
        return ("raised", "RecursionError", "")
    except Exception as e:
        return ("raised", type(e).__name__, str(e)[:200])


def run_container(wparsed, r_raw, datum, ropts):
    """returns (result, envs) ; envs = (we, re, w, r) as file_reader parsed them, or None"""
    import fastavro
    fo = io.BytesIO()
    fastavro.writer(fo, wparsed, [datum])
    fo.seek(0)
    envs = None
    try:
        def go():
            nonlocal envs
            rd = fastavro.reader(fo, reader_schema=r_raw, **ropts)
            envs = (rd._named_schemas["writer"], rd._named_schemas["reader"], rd.writer_schema, rd.reader_schema)
            return list(rd)
        out = core.with_timeout(go, 20)
        if len(out) != 1:
            return ("raised", "WrongRecordCount", str(len(out))), envs
        return ("ok", out[0], 0), envs
    except core.Timeout:
        return ("timeout", None, None), envs
    except RecursionError:
        return ("raised", "RecursionError", ""), envs
    except Exception as e:
        return ("raised", type(e).__name__, str(e)[:200]), envs


def impl_class(res):
    """value / ER (SchemaResolutionError) / EO (any other exception)"""
    if res[0] == "ok":
        return "V"
    if res[0] == "timeout":
        return "TIMEOUT"
    return "ER" if res[1] == SRE else "EO"


# ---------------------------------------------------------------- cases
class Case:
    __slots__ = ("w_raw", "r_raw", "datum", "steps", "pass_parsed", "suffix", "ropts", "tag", "layout")

    def to_json(self, route=None):
        return dict(writer_schema=self.w_raw, reader_schema=self.r_raw, datum_repr=repr(self.datum), steps=self.steps,
                    pass_parsed=self.pass_parsed, suffix=self.suffix.hex(), ropts=self.ropts, tag=self.tag, route=route,
                    layout=getattr(self, "layout", None))

    @staticmethod
    def from_json(d):
        c = Case()
        c.w_raw, c.r_raw = d["writer_schema"], d["reader_schema"]
        c.datum = eval(d["datum_repr"], dict(CC.EVAL_ENV))
        c.steps, c.pass_parsed, c.suffix = d.get("steps", []), d.get("pass_parsed", True), bytes.fromhex(d.get("suffix", ""))
        c.ropts, c.tag = d.get("ropts", {}), d.get("tag", "replay")
        c.layout = d.get("layout")
        return c


def rec(name, fields, **kw):
    d = {"type": "record", "name": name, "fields": fields}
    d.update(kw)
    return d


def fld(name, t, **kw):
    d = {"name": name, "type": t}
    d.update(kw)
    return d


E_AB = {"type": "enum", "name": "E", "symbols": ["A", "B"]}
F4 = {"type": "fixed", "name": "F", "size": 4}

# hand-written witnesses: (tag, writer, reader, datum)
WITNESSES = [
    ("F6", "bytes", ["string", "bytes"], b"abc"),
    ("F6-int", "int", ["float", "int"], 16777217),
    ("F6-string", "string", ["bytes", "string"], "abc"),
    ("F6-same-first", "bytes", ["bytes", "string"], b"abc"),
    ("F7", rec("R", [fld("x", F4), fld("y", "F")]), rec("R", [fld("y", F4), fld("x", "F")]), {"x": b"abcd", "y": b"wxyz"}),
    ("F7-enum", rec("R", [fld("x", E_AB), fld("y", "E")]), rec("R", [fld("y", E_AB), fld("x", "E")]), {"x": "A", "y": "B"}),
    ("ref-vs-union-inline", rec("R", [fld("x", E_AB), fld("y", "E")]), rec("R", [fld("y", ["null", E_AB])]), {"x": "A", "y": "B"}),
    ("wrap-ref", rec("R", [fld("x", E_AB), fld("y", "E")]), rec("R", [fld("x", E_AB), fld("y", ["null", "E"])]), {"x": "A", "y": "B"}),
    ("int-float-round", rec("R", [fld("x", "int")]), rec("R", [fld("x", "float")]), {"x": 16777217}),
    ("long-float-round", "long", "float", (1 << 62) + 1),
    ("long-double", "long", "double", (1 << 53) + 1),
    ("default-bytes", rec("R", [fld("x", "int")]), rec("R", [fld("x", "int"), fld("b", "bytes", default="ÿ")]), {"x": 1}),
    ("default-int-for-float", rec("R", [fld("x", "int")]), rec("R", [fld("x", "int"), fld("f", "float", default=3)]), {"x": 1}),
    ("default-null-union", rec("R", [fld("x", "int")]), rec("R", [fld("x", "int"), fld("n", ["null", "int"], default=None)]), {"x": 1}),
    ("default-union-nonfirst-bytes", rec("R", [fld("x", "int")]), rec("R", [fld("x", "int"), fld("b", ["null", "bytes"], default="ÿ")]), {"x": 1}),
    ("default-union-nonfirst-fixed", rec("R", [fld("x", "int")]),
     rec("R", [fld("x", "int"), fld("b", ["null", {"type": "fixed", "name": "DF", "size": 2}], default="\u0001þ")]), {"x": 1}),
    ("default-union-nonfirst-record", rec("R", [fld("x", "int")]),
     rec("R", [fld("x", "int"), fld("b", ["null", rec("DR", [fld("a", "float", default=2), fld("b", "bytes")])], default={"b": "ÿ"})]), {"x": 1}),
    ("default-union-nonfirst-array", rec("R", [fld("x", "int")]),
     rec("R", [fld("x", "int"), fld("b", ["int", {"type": "array", "items": "bytes"}], default=["ÿ", ""])]), {"x": 1}),
    ("default-union-nonfirst-map", rec("R", [fld("x", "int")]),
     rec("R", [fld("x", "int"), fld("b", ["null", {"type": "map", "values": {"type": "fixed", "name": "DF2", "size": 1}}], default={"k": "þ"})]), {"x": 1}),
    ("default-union-nonfirst-double", rec("R", [fld("x", "int")]), rec("R", [fld("x", "int"), fld("b", ["null", "double"], default=3)]), {"x": 1}),
    ("default-union-first-fits", rec("R", [fld("x", "int")]), rec("R", [fld("x", "int"), fld("b", ["string", "bytes"], default="ÿ")]), {"x": 1}),
    ("writer-alias-reader-only-default", rec("R", [fld("a", "int", aliases=["b"])]), rec("R", [fld("b", "int", default=-1)]), {"a": 42}),
    ("writer-alias-reader-only-nodefault", rec("R", [fld("a", "int", aliases=["b"])]), rec("R", [fld("b", "int")]), {"a": 42}),
    ("writer-alias-reader-only-other-type", rec("R", [fld("a", "int", aliases=["b"])]), rec("R", [fld("b", "string", default="none")]), {"a": 42}),
    ("writer-alias-nested", rec("R", [fld("items", {"type": "array", "items": rec("I", [fld("id", "int"), fld("a", "int", aliases=["b"])])})]),
     rec("R", [fld("items", {"type": "array", "items": rec("I", [fld("id", "int"), fld("b", "string", default="none")])})]),
     {"items": [{"id": 7, "a": 1}, {"id": 7, "a": 2}]}),
    ("writer-alias-and-reader-alias", rec("R", [fld("a", "int", aliases=["b"]), fld("c", "int")]),
     rec("R", [fld("b", "long", default=5), fld("c2", "int", aliases=["c"])]), {"a": 42, "c": 3}),
    ("writer-type-alias-ignored", {"type": "fixed", "name": "F", "size": 4, "aliases": ["G"]}, {"type": "fixed", "name": "G", "size": 4}, b"abcd"),
    ("writer-type-alias-ignored-record", rec("R", [fld("x", "int")], aliases=["S"]), rec("S", [fld("x", "int")]), {"x": 1}),
    ("writer-enum-default-reader-none", {"type": "enum", "name": "E", "symbols": ["A", "B"], "default": "A"},
     {"type": "enum", "name": "E", "symbols": ["A"]}, "B"),
    ("writer-enum-default-unknown-to-reader", {"type": "enum", "name": "E", "symbols": ["A", "B", "C"], "default": "C"},
     {"type": "enum", "name": "E", "symbols": ["A"]}, "B"),
    ("writer-enum-default-in-record", rec("R", [fld("e", {"type": "enum", "name": "E", "symbols": ["A", "B"], "default": "B"}), fld("x", "int")]),
     rec("R", [fld("x", "int"), fld("e", {"type": "enum", "name": "E", "symbols": ["B"]})]), {"e": "A", "x": 1}),
    ("default-container-array", rec("R", [fld("x", "int")]), rec("R", [fld("x", "int"), fld("xs", {"type": "array", "items": "int"}, default=[1, 2])]), {"x": 1}),
    ("default-container-map", rec("R", [fld("x", "int")]), rec("R", [fld("x", "int"), fld("m", {"type": "map", "values": "string"}, default={})]), {"x": 1}),
    ("default-container-nested", rec("R", [fld("x", "int")]),
     rec("R", [fld("x", "int"), fld("r", rec("D", [fld("l", {"type": "array", "items": "string"}), fld("m", {"type": "map", "values": "long"}, default={"a": 1})]),
                                   default={"l": []})]), {"x": 1}),
    ("default-container-union", rec("R", [fld("x", "int")]), rec("R", [fld("x", "int"), fld("u", ["null", {"type": "array", "items": "boolean"}], default=[True])]), {"x": 1}),
    ("default-missing", rec("R", [fld("x", "int")]), rec("R", [fld("x", "int"), fld("n", "int")]), {"x": 1}),
    ("same-unqualified-in-union", [rec("a.R", [fld("x", "int")]), rec("b.R", [fld("y", "string")])],
     [rec("a.R", [fld("x", "int")]), rec("b.R", [fld("y", "string")])], {"y": "hello"}),
    ("empty-array-items-mismatch", {"type": "array", "items": "int"}, {"type": "array", "items": "string"}, []),
    ("bytes-string-invalid-utf8", "bytes", "string", b"\xff"),
    ("record-vs-enum-same-name", rec("R", [fld("x", "int")]), {"type": "enum", "name": "R", "symbols": ["A"]}, {"x": 1}),
    ("enum-default", E_AB, {"type": "enum", "name": "E", "symbols": ["A"], "default": "A"}, "B"),
    ("enum-no-default", E_AB, {"type": "enum", "name": "E", "symbols": ["A"]}, "B"),
    ("fixed-size", F4, {"type": "fixed", "name": "F", "size": 5}, b"abcd"),
    ("name-mismatch", F4, {"type": "fixed", "name": "G", "size": 4}, b"abcd"),
    ("alias-unqualified", {"type": "fixed", "name": "ns.F", "size": 4}, {"type": "fixed", "name": "other.G", "size": 4, "aliases": ["F"]}, b"abcd"),
    ("alias-full", {"type": "fixed", "name": "ns.F", "size": 4}, {"type": "fixed", "name": "other.G", "size": 4, "aliases": ["ns.F"]}, b"abcd"),
    ("reorder+alias+default+promote+skip-array",
     rec("R", [fld("a", {"type": "array", "items": "string"}), fld("b", "int"), fld("c", "string")]),
     rec("R", [fld("c2", "bytes", aliases=["c"]), fld("d", "long", default=9), fld("b", "double")]),
     {"a": ["x", "yy"], "b": 3, "c": "hé"}),
    ("skip-every-type", rec("R", [fld("u", ["null", {"type": "map", "values": {"type": "array", "items": F4}}]), fld("e", E_AB),
                                  fld("d", "double"), fld("keep", "long")]),
     rec("R", [fld("keep", "long")]), {"u": {"k": [b"abcd", b"0123"]}, "e": "B", "d": 1.5, "keep": -7}),
    ("writer-union-reader-plain", ["null", "int", "string"], "long", 5),
    ("writer-union-reader-plain-mismatch", ["null", "int", "string"], "long", "x"),
    ("union-to-union", ["null", "int"], ["string", "double", "null"], 5),
    ("array-promotion", {"type": "array", "items": "int"}, {"type": "array", "items": "double"}, [1, 2, 3]),
    ("map-promotion", {"type": "map", "values": "string"}, {"type": "map", "values": "bytes"}, {"k": "v"}),
    ("int->long-under-union", "int", ["null", "long"], 5),
    ("recursive", rec("Node", [fld("v", "int"), fld("next", ["null", "Node"])]),
     rec("Node", [fld("next", ["null", "Node"]), fld("v", "long"), fld("w", "string", default="")]), {"v": 1, "next": {"v": 2, "next": None}}),
    ("by-ref-same-name-size-differs-empty-array",
     rec("R", [fld("u", ["null", F4]), fld("xs", {"type": "array", "items": "F"})]),
     rec("R", [fld("u", ["null", {"type": "fixed", "name": "F", "size": 5}]), fld("xs", {"type": "array", "items": "F"})]),
     {"u": None, "xs": []}),
    ("field-alias-priority", rec("R", [fld("a", "int")]), rec("R", [fld("b", "int", aliases=["a"]), fld("a", "long")]), {"a": 1}),
    ("dict-prim", {"type": "int"}, {"type": "long", "logicalType": "zzz"}, 5),
    # unknown logicalType annotations on array / map / named-type nodes (writer and reader side, inline and by reference)
    ("annotated-nodes",
     {"type": "record", "name": "R", "logicalType": "x-note", "fields": [
         fld("xs", {"type": "array", "logicalType": "x-unit", "items": {"type": "fixed", "name": "F", "size": 2, "logicalType": "x-note"}}),
         fld("n", "int"), fld("f", "F"), fld("e", {"type": "enum", "name": "E", "symbols": ["A", "B"], "logicalType": "x-note"})]},
     {"type": "record", "name": "R", "logicalType": "custom-lt", "fields": [
         fld("n", "long"), fld("xs", {"type": "array", "items": {"type": "fixed", "name": "F", "size": 2}, "logicalType": "x-note"}),
         fld("f", "F"), fld("e", ["null", {"type": "enum", "name": "E", "symbols": ["A"], "default": "A", "logicalType": "x-unit"}]),
         fld("m", {"type": "map", "values": "int", "logicalType": "x-note"}, default={})]},
     {"xs": [b"\x01\x02", b"\x03\x04"], "n": 7, "f": b"\x05\x06", "e": "B"}),
]


def gen_writer(rng):
    """record-biased writer schema: (raw, parsed, named)"""
    import fastavro
    for _ in range(50):
        g = gen.SchemaGen(rng, max_depth=4)
        raw = g.schema(top=True)
        if rng.random() < 0.7 and not (isinstance(raw, dict) and raw.get("type") == "record" and raw["fields"]):
            continue
        raw = json.loads(json.dumps(raw))
        if rng.random() < 0.3:
            evolve.add_writer_aliases(raw, rng)
        if rng.random() < 0.3:
            evolve.add_writer_enum_defaults(raw, rng)
        if rng.random() < 0.2:
            evolve.add_writer_annotations(raw, rng)
        named = {}
        try:
            parsed = fastavro.parse_schema(copy.deepcopy(raw), named)
        except Exception:
            continue
        return raw, parsed, named
    raise RuntimeError("no writer schema")


def gen_cases(ctx, n):
    import fastavro
    rng = ctx.rng
    ev = evolve.Evolver(rng)
    cases = []
    for tag, w, r, d in WITNESSES:
        for pp in (True, False):
            c = Case()
            c.w_raw, c.r_raw, c.datum, c.steps, c.pass_parsed = w, r, d, ["witness:" + tag], pp
            c.suffix, c.ropts, c.tag = b"", {}, "witness:" + tag
            cases.append(c)
    stephist, nofit = {}, 0
    while len(cases) < n:
        try:
            raw, parsed, named = gen_writer(rng)
        except RuntimeError:
            continue
        for _ in range(rng.choice([1, 2, 3])):
            c = Case()
            c.w_raw = raw
            if rng.random() < 0.15:
                c.r_raw, c.steps = copy.deepcopy(raw), ["identity"]
            else:
                try:
                    c.r_raw, c.steps = ev.evolve(raw)
                except Exception:
                    nofit += 1
                    continue
            try:
                c.datum = gen.DataGen(rng, named, hints=False).datum(parsed)
            except (gen.TooDeep, RecursionError):
                continue
            c.pass_parsed = rng.random() < 0.6
            c.suffix = bytes(rng.randrange(256) for _ in range(rng.choice([0, 0, 0, 2, 5])))
            c.ropts = {}
            if rng.random() < 0.12:
                c.ropts = {rng.choice(["return_record_name", "return_named_type"]): True}
                if rng.random() < 0.4:
                    c.ropts[rng.choice(["return_record_name_override", "return_named_type_override"])] = True
            c.tag = "gen"
            for s in c.steps:
                k = s.split("@")[0]
                stephist[k] = stephist.get(k, 0) + 1
            cases.append(c)
    ctx.notes["evolution_steps_applied"] = dict(sorted(stephist.items()))
    ctx.notes["evolutions_abandoned"] = nofit
    return cases


def opt_schema(s):
    return "None" if s is None else "(Some %s)" % G.schema_to_coq(s)


def prepare(c):
    """run both routes on the implementation; returns dict with impl results + Gallina expressions (or None if the datum cannot be written)"""
    import fastavro
    wnamed = {}
    wparsed = fastavro.parse_schema(copy.deepcopy(c.w_raw), wnamed)
    w = CC.impl_write(wparsed, c.datum)
    if w[0] != "ok":
        return None
    data = w[1]
    out = dict(data=data)
    # ---- route A: schemaless_reader
    argw = wparsed if c.pass_parsed else copy.deepcopy(c.w_raw)
    argr = copy.deepcopy(c.r_raw)
    shortcut = (argw == argr)
    out["shortcut"] = shortcut
    out["A"] = run_schemaless(argw, argr, data + c.suffix, c.ropts)
    rnamed = {}
    rparsed = fastavro.parse_schema(copy.deepcopy(c.r_raw), rnamed)
    ro = G.ropts(**c.ropts)
    RA = None if (shortcut or not rparsed) else rparsed
    out["exprA"] = "run_resolve %s %s %s %s %s %s %s" % (ro, G.env_to_coq(wnamed), G.env_to_coq(rnamed), G.schema_to_coq(wparsed),
                                                         opt_schema(RA), G.schema_to_coq(rparsed), G.hx(data + c.suffix))
    # ---- route B: container
    resB, envs = run_container(wparsed, copy.deepcopy(c.r_raw), c.datum, c.ropts)
    out["B"] = resB
    if envs is not None:
        weB, reB, wB, rB = envs
        RB = rB if rB else None
        out["exprB"] = "run_resolve %s %s %s %s %s %s %s" % (ro, G.env_to_coq(weB), G.env_to_coq(reB), G.schema_to_coq(wB),
                                                             opt_schema(RB), G.schema_to_coq(rB if rB is not None else wB), G.hx(data))
    else:
        out["exprB"] = None
    return out


# ---------------------------------------------------------------- foreign layouts (any block partition) read with a reader schema
def has_container(s, named, seen=()):
    if isinstance(s, str):
        return s not in gen.PRIMS and s not in seen and has_container(named[s], named, seen + (s,))
    if isinstance(s, list):
        return any(has_container(b, named, seen) for b in s)
    t = s["type"]
    if t in ("array", "map"):
        return True
    if t in ("record", "error"):
        return any(has_container(f["type"], named, seen) for f in s["fields"])
    return False


def gen_layout_cases(ctx, n):
    """(writer with arrays/maps inside records, reader that drops or keeps them at several depths, a random valid layout)"""
    from . import c03
    rng = ctx.rng
    ev = evolve.Evolver(rng)
    cases, hist = [], {}
    tries = 0
    while len(cases) < n and tries < 40 * n:
        tries += 1
        try:
            raw, parsed, named = gen_writer(rng)
        except RuntimeError:
            continue
        if not (isinstance(parsed, dict) and parsed.get("type") == "record" and len(parsed["fields"]) >= 2 and has_container(parsed, named)):
            continue
        for _ in range(rng.choice([1, 2, 3])):
            c = Case()
            c.w_raw, c.datum = raw, None
            r = rng.random()
            try:
                if r < 0.1:
                    c.r_raw, c.steps = copy.deepcopy(raw), ["identity"]
                elif r < 0.75:
                    c.r_raw, c.steps = ev.evolve(raw, first="remove_container_field")
                else:
                    c.r_raw, c.steps = ev.evolve(raw)
            except Exception:
                continue
            try:
                g = c03.LayoutGen(rng, named)
                c.layout = g.gen(parsed)
            except (gen.TooDeep, RecursionError):
                continue
            if not g.blocks:
                continue
            c.pass_parsed = rng.random() < 0.6
            c.suffix = bytes(rng.randrange(256) for _ in range(rng.choice([0, 0, 2])))
            c.ropts, c.tag = {}, "layout"
            for s in c.steps:
                k = s.split("@")[0]
                hist[k] = hist.get(k, 0) + 1
            cases.append(c)
    ctx.notes["layout_family_steps"] = dict(sorted(hist.items()))
    return cases


def layout_expr(c):
    """Gallina expression for a layout case + what the implementation needs (schemas as it will see them)"""
    import fastavro
    wnamed, rnamed = {}, {}
    wparsed = fastavro.parse_schema(copy.deepcopy(c.w_raw), wnamed)
    rparsed = fastavro.parse_schema(copy.deepcopy(c.r_raw), rnamed)
    argw = wparsed if c.pass_parsed else copy.deepcopy(c.w_raw)
    argr = copy.deepcopy(c.r_raw)
    shortcut = (argw == argr)
    RA = None if (shortcut or not rparsed) else rparsed
    e = "run_resolve_layout %s %s %s %s %s %s %s %s" % (G.ropts(**c.ropts), G.env_to_coq(wnamed), G.env_to_coq(rnamed), G.schema_to_coq(wparsed),
                                                        opt_schema(RA), G.schema_to_coq(rparsed), c.layout, G.hx(c.suffix))
    eB = None
    if shortcut:      # the container route never takes the shortcut
        eB = "run_resolve_layout %s %s %s %s %s %s %s %s" % (G.ropts(**c.ropts), G.env_to_coq(wnamed), G.env_to_coq(rnamed), G.schema_to_coq(wparsed),
                                                             opt_schema(rparsed), G.schema_to_coq(rparsed), c.layout, G.hx(b""))
    return e, eB, (wparsed, argw, argr)


def run_container_bytes(wparsed, r_raw, payload, ropts):
    """a container file whose single block holds the foreign bytes [payload] as one record"""
    import fastavro
    from .. import container_common as K
    fo = io.BytesIO()
    fastavro.writer(fo, wparsed, [])
    head = fo.getvalue()
    hl, _, sync = K.split_header(head)
    data = head[:hl] + K.zz(1) + K.zz(len(payload)) + payload + sync
    try:
        out = core.with_timeout(lambda: list(fastavro.reader(io.BytesIO(data), reader_schema=r_raw, **ropts)), 20)
        if len(out) != 1:
            return ("raised", "WrongRecordCount", str(len(out)))
        return ("ok", out[0], 0)
    except core.Timeout:
        return ("timeout", None, None)
    except RecursionError:
        return ("raised", "RecursionError", "")
    except Exception as e:
        return ("raised", type(e).__name__, str(e)[:200])


def run_layouts(ctx, n):
    cases = gen_layout_cases(ctx, n)
    exprs, meta = [], []
    for c in cases:
        try:
            e, eB, args = layout_expr(c)
        except Exception:
            continue
        meta.append((c, len(exprs), None if eB is None else len(exprs) + 1, args))
        exprs.append(e)
        if eB is not None:
            exprs.append(eB)
    out = core.coq_eval(exprs, IMPORTS, ctx.workdir, tag="c08l", shard=(60 if ctx.quick() else 150), timeout=900)
    out = [G.canon_model_text(x) for x in out]
    skipped_fields = 0
    for c, iA, iB, (wparsed, argw, argr) in meta:
        m = out[iA]
        if not m or not m.startswith("W:"):
            ctx.violation("corr:resolve-layouts", c.to_json(), impl=None, model=m, signature="C08:model-output-unparsable", found_input=False)
            continue
        h, rest = m[2:].split(";", 1)
        payload = bytes.fromhex(h)
        key = (json.dumps(c.w_raw, sort_keys=True), json.dumps(c.r_raw, sort_keys=True), c.layout)
        ctx.count("corr:resolve-layouts", key + ("A",), nontrivial=True)
        resA = run_schemaless(argw, argr, payload + c.suffix, c.ropts)
        compare(ctx, c, "schemaless/layout", resA, rest, True, corr="corr:resolve-layouts")
        ctx.count("corr:resolve-layouts", key + ("B",), nontrivial=True)
        resB = run_container_bytes(wparsed, copy.deepcopy(c.r_raw), payload, c.ropts)
        mB = rest if iB is None else out[iB].split(";", 1)[1]
        compare(ctx, c, "container/layout", resB, mB, False, corr="corr:resolve-layouts")
        skipped_fields += sum(1 for s in c.steps if s.startswith("remove_"))
    ctx.notes["layout_family_cases"] = len(meta)
    ctx.notes["layout_family_removed_fields"] = skipped_fields


# ---------------------------------------------------------------- several records, the consumer mutates what it got
def has_container_default(s):
    """some field default of the schema is (or contains) a list / dict"""
    def cont(d):
        return isinstance(d, (list, dict))
    if isinstance(s, list):
        return any(has_container_default(b) for b in s)
    if isinstance(s, dict):
        t = s.get("type")
        if t in ("record", "error"):
            return any(("default" in f and cont(f["default"])) or has_container_default(f["type"]) for f in s.get("fields", []))
        if t == "array":
            return has_container_default(s["items"])
        if t == "map":
            return has_container_default(s["values"])
    return False


def mutate_in_place(v):
    """what a consumer may do with the value it was handed: grow every container"""
    if isinstance(v, list):
        for x in v:
            mutate_in_place(x)
        v.append("__mutated__")
    elif isinstance(v, dict):
        for x in list(v.values()):
            mutate_in_place(x)
        v["__mutated__"] = 1
    elif isinstance(v, tuple):
        for x in v:
            mutate_in_place(x)


def check_stream(ctx, c, spec):
    """the same datum three times in one file / three schemaless reads with ONE parsed reader schema; every value read is
    mutated in place before the next one is read: each must still be what the rules prescribe, and the reader schema the
    caller passed must be left as it was"""
    import fastavro
    expected = parse_show(spec[2:])
    wnamed = {}
    wparsed = fastavro.parse_schema(copy.deepcopy(c.w_raw), wnamed)
    w = CC.impl_write(wparsed, c.datum)
    if w[0] != "ok":
        return
    for route in ("container", "schemaless"):
        r_obj = copy.deepcopy(c.r_raw)
        pristine = copy.deepcopy(r_obj)
        got, err = [], None
        try:
            def go():
                if route == "container":
                    fo = io.BytesIO()
                    fastavro.writer(fo, wparsed, [c.datum] * 3)
                    fo.seek(0)
                    for recd in fastavro.reader(fo, reader_schema=r_obj):
                        got.append(canon_py(recd))
                        mutate_in_place(recd)
                else:
                    nonlocal pristine
                    rp = fastavro.parse_schema(r_obj)
                    pristine = copy.deepcopy(rp)
                    r_obj2 = rp
                    for _ in range(3):
                        recd = fastavro.schemaless_reader(io.BytesIO(w[1]), wparsed, r_obj2)
                        got.append(canon_py(recd))
                        mutate_in_place(recd)
                    return r_obj2
                return r_obj
            after = core.with_timeout(go, 20)
        except Exception as e:
            err = "%s: %s" % (type(e).__name__, str(e)[:150])
            after = None
        ctx.count("corr:resolve-stream", (json.dumps(c.w_raw, sort_keys=True), json.dumps(c.r_raw, sort_keys=True), repr(c.datum), route),
                  nontrivial=True)
        case = c.to_json(route + "/stream")
        if err is not None or len(got) != 3:
            ctx.violation("corr:resolve-stream", case, impl=err or ("%d records" % len(got)), model="three records: " + spec[:400],
                          signature="C08:read_record:stream:raises-on-repeated-read", found_input=True)
            continue
        bad = [i for i, g in enumerate(got) if g != expected]
        if bad:
            ctx.violation("corr:resolve-stream", case, impl="record %d differs after the consumer mutated record %d in place" % (bad[0], bad[0] - 1),
                          model="every record: " + spec[:400],
                          signature="C08:read_record:default-container-shared-between-records" if bad[0] > 0 else "C08:read_record:stream:first-record-differs",
                          found_input=True)
        elif after != pristine:
            ctx.violation("corr:resolve-stream", case, impl="the reader schema object was modified by mutating the values read",
                          model="the reader schema is left as it was", signature="C08:read_record:default-container-shared-with-reader-schema",
                          found_input=True)


# ---------------------------------------------------------------- labels for violations
def first_diff(a, b, path=""):
    """first differing position of two canonical values: (path, a-leaf, b-leaf)"""
    if a == b:
        return None
    if a[0] != b[0] or a[0] not in "LTM":
        return (path, a, b)
    if a[0] == "M":
        da, db = dict(a[1]), dict(b[1])
        for k in da:
            if k not in db:
                return (path + "/" + repr(k), a, b)
            d = first_diff(da[k], db[k], path + "/k")
            if d:
                return d
        return (path, a, b)
    if len(a[1]) != len(b[1]):
        return (path, a, b)
    for x, y in zip(a[1], b[1]):
        d = first_diff(x, y, path + "/i")
        if d:
            return d
    return (path, a, b)


def has_inline_vs_ref(c):
    """some named type is defined inline at a different use site in the reader than in the writer"""
    def order(s, ns, out):
        if isinstance(s, list):
            for b in s:
                order(b, ns, out)
        elif isinstance(s, dict):
            t = s.get("type")
            if t in ("record", "error", "enum", "fixed"):
                name = s["name"]
                nsp = name.rsplit(".", 1)[0] if "." in name else (s.get("namespace", ns) or "")
                out.append(("def", name.rsplit(".", 1)[-1]))
                for f in s.get("fields", []):
                    out.append(("field", f["name"]))
                    order(f["type"], nsp, out)
            elif t == "array":
                order(s["items"], ns, out)
            elif t == "map":
                order(s["values"], ns, out)
        elif isinstance(s, str) and s not in gen.PRIMS:
            out.append(("ref", s.rsplit(".", 1)[-1]))
        return out
    def sites_of(o):
        d, cur = {}, None
        for k, v in o:
            if k == "field":
                cur = v
            elif k == "def":
                d.setdefault(v, cur)
        return d
    a, b = sites_of(order(c.w_raw, "", [])), sites_of(order(c.r_raw, "", []))
    return any(n in b and b[n] != a[n] for n in a)


F6_SIG = "C08:read_union:reader-union:promotable-branch-before-same-type-branch"
_EARLIER = {"bytes": {"string"}, "string": {"bytes"}, "int": {"long", "float", "double"}, "long": {"float", "double"}, "float": {"double"}}


def f6_shape(s):
    """some union of the reader schema lists a promotion target before the type itself"""
    def tname(b):
        return b if isinstance(b, str) else (b.get("type") if isinstance(b, dict) else None)
    if isinstance(s, list):
        names = [tname(b) for b in s]
        for j, t in enumerate(names):
            if isinstance(t, str) and t in _EARLIER and any(x in _EARLIER[t] for x in names[:j] if isinstance(x, str)):
                return True
        return any(f6_shape(b) for b in s)
    if isinstance(s, dict):
        t = s.get("type")
        if t in ("record", "error"):
            return any(f6_shape(f["type"]) for f in s.get("fields", []))
        if t == "array":
            return f6_shape(s["items"])
        if t == "map":
            return f6_shape(s["values"])
    return False


def has_ref(s):
    if isinstance(s, str):
        return s not in gen.PRIMS
    if isinstance(s, list):
        return any(has_ref(b) for b in s)
    if isinstance(s, dict):
        t = s.get("type")
        if t in ("record", "error"):
            return any(has_ref(f["type"]) for f in s.get("fields", []))
        if t == "array":
            return has_ref(s["items"])
        if t == "map":
            return has_ref(s["values"])
    return False


def has_annotated_node(s):
    """a logicalType annotation on an array / map / named-type node"""
    if isinstance(s, list):
        return any(has_annotated_node(b) for b in s)
    if isinstance(s, dict):
        t = s.get("type")
        if t in ("record", "error", "enum", "fixed", "array", "map") and "logicalType" in s:
            return True
        if t in ("record", "error"):
            return any(has_annotated_node(f["type"]) for f in s.get("fields", []))
        if t == "array":
            return has_annotated_node(s["items"])
        if t == "map":
            return has_annotated_node(s["values"])
    return False


def kind_differs(c):
    """a named type of the same unqualified name (or aliased to it) is of another kind in the reader"""
    def kinds(s, out):
        if isinstance(s, list):
            for b in s:
                kinds(b, out)
        elif isinstance(s, dict):
            t = s.get("type")
            if t in ("record", "error", "enum", "fixed"):
                k = "record" if t == "error" else t
                for n in [s["name"]] + list(s.get("aliases", [])):
                    out.setdefault(n.rsplit(".", 1)[-1], k)
                for f in s.get("fields", []):
                    kinds(f["type"], out)
            elif t == "array":
                kinds(s["items"], out)
            elif t == "map":
                kinds(s["values"], out)
        return out
    a, b = kinds(c.w_raw, {}), kinds(c.r_raw, {})
    return any(n in b and b[n] != a[n] for n in a)


def default_leaves(s, out):
    """every str / number occurring in a field default of the schema"""
    def leaves(d):
        if isinstance(d, dict):
            for x in d.values():
                leaves(x)
        elif isinstance(d, list):
            for x in d:
                leaves(x)
        elif isinstance(d, (str, int, float)) and not isinstance(d, bool):
            out.append(d)
    if isinstance(s, list):
        for b in s:
            default_leaves(b, out)
    elif isinstance(s, dict):
        t = s.get("type")
        if t in ("record", "error"):
            for f in s.get("fields", []):
                if "default" in f:
                    leaves(f["default"])
                default_leaves(f["type"], out)
        elif t == "array":
            default_leaves(s["items"], out)
        elif t == "map":
            default_leaves(s["values"], out)
    return out


def classify(c, res, spec):
    """signature of a disagreement between the implementation (res) and the specification (spec text)"""
    ic = impl_class(res)
    steps = " ".join(c.steps)
    if ic == "TIMEOUT":
        return "C08:read_data:timeout"
    if ic == "EO":
        msg = res[2] or ""
        if res[1] == "TypeError" and "unhashable" in msg:
            return "C08:read_data:by-name-writer-vs-reader-union-with-inline-definition:TypeError"
        if res[1] == "KeyError" and kind_differs(c):
            return "C08:match_schemas:named-type-kind-not-compared:KeyError"
        if res[1] == "UnicodeDecodeError" and f6_shape(c.r_raw):
            return F6_SIG
        if kind_differs(c):
            return "C08:match_schemas:named-type-kind-not-compared:" + res[1]
        if spec.startswith("V:"):
            return "C08:read_data:raises-%s-where-the-rules-give-a-value" % res[1]
        return "C08:read_data:raises-%s-instead-of-resolution-error" % res[1]
    if ic == "ER":
        if spec.startswith("V:"):
            if has_inline_vs_ref(c) or "+defs-moved" in steps:
                return "C08:match_schemas:named-type-inline-vs-reference:resolution-error"
            if "same-unqualified" in steps or c.steps == ["identity"]:
                return "C08:read_union:reader-equals-writer:branches-with-same-unqualified-name:resolution-error"
            return "C08:match_schemas:resolution-error-where-the-rules-give-a-value"
        return "C08:read_data:resolution-error-instead-of-other-error"
    # implementation returned a value
    if not spec.startswith("V:"):
        if spec == "ER":
            if kind_differs(c):
                return "C08:match_schemas:named-type-kind-not-compared:returns-value"
            if has_ref(c.w_raw) and has_ref(c.r_raw):
                return "C08:match_types:by-name-references-compared-by-name-only:returns-value"
            return "C08:match_types:returns-value-where-no-rule-applies"
        return "C08:read_data:returns-value-where-the-specification-raises"
    d = first_diff(canon_py(res[1]), parse_show(spec[2:]))
    if d is None:
        return "C08:harness:no-difference"
    _, a, b = d
    dl = default_leaves(c.r_raw, [])
    if a[0] == "S" and b[0] == "B":
        s_impl = bytes.fromhex(a[1]).decode("utf-8", "surrogatepass")
        if s_impl in dl and not (f6_shape(c.r_raw) and bytes.fromhex(b[1]) == s_impl.encode("utf-8") and "default" not in steps):
            return "C08:read_record:default:bytes-or-fixed-default-returned-as-str"
        return F6_SIG if f6_shape(c.r_raw) else "C08:read_data:value-differs:S-vs-B"
    if a[0] == "B" and b[0] == "S":
        return F6_SIG if f6_shape(c.r_raw) else "C08:read_data:value-differs:B-vs-S"
    if a[0] == "I" and b[0] == "D":
        if a[1] in dl:
            return "C08:read_record:default:json-number-or-object-returned-unconverted"
        return F6_SIG if f6_shape(c.r_raw) else "C08:read_data:value-differs:I-vs-D"
    if a[0] == "D" and b[0] == "I":
        return F6_SIG if f6_shape(c.r_raw) else "C08:read_data:value-differs:D-vs-I"
    if a[0] == "D" and b[0] == "D":
        return "C08:maybe_promote:int-or-long-to-float:not-rounded-to-binary32"
    if a[0] == "M" and b[0] == "M":
        if "default" in steps:
            return "C08:read_record:default:json-number-or-object-returned-unconverted"
        return "C08:read_record:field-sets-differ"
    return "C08:read_data:value-differs:%s-vs-%s" % (a[0], b[0])


# ---------------------------------------------------------------- the check
def compare(ctx, c, route, res, mtext, with_rest, corr="corr:resolve"):
    """res: implementation result; mtext: '<rdec text>;<spec text>'"""
    if mtext is None:
        ctx.violation(corr, c.to_json(route), impl=str(res)[:500], model=None, signature="C08:model-not-evaluated", found_input=False)
        return
    rd, spec, zone = mtext.split(";")
    ic = impl_class(res)
    default_opts = True          # the specification now covers the reader options (wrap_spec)
    has_opts = bool(c.ropts)
    if default_opts and zone.startswith("Z0"):
        ctx.notes.setdefault("outside_zone_reasons", {})
        ctx.notes["outside_zone_reasons"][zone] = ctx.notes["outside_zone_reasons"].get(zone, 0) + 1
    if has_opts:
        ctx.notes["cases_with_reader_options"] = ctx.notes.get("cases_with_reader_options", 0) + 1
    if has_annotated_node(c.w_raw) or has_annotated_node(c.r_raw):
        key = "cases_with_annotated_nodes(%s a proved zone)" % ("inside" if zone in ("Z1", "Z2", "Z2D") else "outside")
        ctx.notes[key] = ctx.notes.get(key, 0) + 1
    if zone in ("Z1", "Z2", "Z2D") and default_opts:
        key = {"Z1": "cases_inside_agreement_zone", "Z2": "cases_inside_agreement_zone_with_references(every depth)",
               "Z2D": "cases_inside_agreement_zone_with_references(depth<=16 only)"}[zone]
        ctx.notes[key] = ctx.notes.get(key, 0) + 1
        if rd.split("|")[0].replace("R:", "V:", 1) != spec:
            ctx.violation(corr, c.to_json(route), impl=None, model=mtext[:600], signature="C08:model:theorem-C08_factor_zone-contradicted",
                          found_input=False)
    # ---- the tie: implementation vs rdec
    if rd.startswith("R:"):
        mv, mrest = rd[2:].rsplit("|", 1)
        tie = ic == "V" and canon_py(res[1]) == parse_show(mv) and (not with_rest or int(mrest) == res[2])
    else:
        tie = ic == rd
    # ---- the statement: implementation vs resolve(decoded value)
    prop_ok = True
    if default_opts:
        if spec == "FUEL" or rd == "FUEL":
            ctx.violation(corr, c.to_json(route), impl=ic, model=mtext[:300], signature="C08:model-out-of-fuel", found_input=False)
            return
        if spec.startswith("V:"):
            prop_ok = ic == "V" and canon_py(res[1]) == parse_show(spec[2:])
        elif spec == "ER":
            prop_ok = ic == "ER"
        else:                       # the specification itself has no value and no resolution error (undecodable promotion)
            prop_ok = ic in ("EO", "ER")
        if not prop_ok:
            # every deviation recorded so far is reproduced by the model's rdec; one that is not is something new
            sig = classify(c, res, spec) + ("" if tie else ":not-reproduced-by-model-rdec")
            ctx.violation(corr, c.to_json(route), impl=(G.show_py(res[1]) if ic == "V" else "%s %s: %s" % (ic, res[1], res[2]))[:1500],
                          model=("specification (resolve): " + spec + " ; model of the code (rdec): " + rd)[:1500], signature=sig, found_input=True,
                          detail="route=%s steps=%s" % (route, c.steps))
    if not tie and prop_ok:
        ctx.violation(corr, c.to_json(route), impl=(G.show_py(res[1]) + "|" + str(res[2]) if ic == "V" else "%s %s: %s" % (ic, res[1], res[2]))[:1500],
                      model=("rdec: " + rd)[:1500], signature="C08:model-differs:%s-vs-%s" % (ic, rd[:2]), found_input=False,
                      detail="the implementation differs from the model rdec but agrees with the specification on this case" if default_opts
                      else "")


def run(ctx):
    n = 1350 if ctx.quick() else 12000
    cases = gen_cases(ctx, n)
    prepared, exprs, index = [], [], {}
    skipped = 0
    for c in cases:
        try:
            p = prepare(c)
        except Exception as e:
            p = None
            ctx.notes["prepare_errors"] = ctx.notes.get("prepare_errors", 0) + 1
            ctx.notes.setdefault("prepare_error_example", "%s: %s" % (type(e).__name__, str(e)[:200]))
        if p is None:
            skipped += 1
            continue
        for k in ("exprA", "exprB"):
            e = p[k]
            if e is not None and e not in index:
                index[e] = len(exprs)
                exprs.append(e)
        prepared.append((c, p))
    ctx.notes["cases_skipped_unwritable"] = skipped
    ctx.notes["model_evaluations"] = len(exprs)
    out = core.coq_eval(exprs, IMPORTS, ctx.workdir, tag="c08", shard=(60 if ctx.quick() else 150), timeout=900)
    out = [G.canon_model_text(x) for x in out]
    hist = {"V": 0, "ER": 0, "EO": 0}
    shortcuts = 0
    for c, p in prepared:
        nontrivial = c.steps != ["identity"] and CC.has_depth(c.datum)
        key = (json.dumps(c.w_raw, sort_keys=True), json.dumps(c.r_raw, sort_keys=True), repr(c.datum))
        mA = out[index[p["exprA"]]]
        ctx.count("corr:resolve", key + ("A",), nontrivial=nontrivial)
        compare(ctx, c, "schemaless", p["A"], mA, True)
        shortcuts += 1 if p["shortcut"] else 0
        if mA:
            sp = mA.split(";")[1]
            hist["V" if sp.startswith("V:") else sp if sp in hist else "EO"] += 1
        if p["exprB"] is not None:
            ctx.count("corr:resolve", key + ("B",), nontrivial=nontrivial)
            compare(ctx, c, "container", p["B"], out[index[p["exprB"]]], False)
        else:
            ctx.notes["container_reader_not_constructed"] = ctx.notes.get("container_reader_not_constructed", 0) + 1
        if mA and not c.ropts and has_container_default(c.r_raw):
            sp = mA.split(";")[1]
            if sp.startswith("V:"):
                check_stream(ctx, c, sp)
    run_layouts(ctx, 350 if ctx.quick() else 4000)
    ctx.notes["specification_outcomes(schemaless route)"] = hist
    ctx.notes["schemaless_equal_schema_shortcut"] = shortcuts
    for c, p in prepared[len(WITNESSES) * 2::max(1, len(prepared) // 5)]:
        ctx.sample(dict(writer=c.w_raw, reader=c.r_raw, steps=c.steps, datum=repr(c.datum)[:200],
                        model=out[index[p["exprA"]]][:200]))


def replay_layout(ctx, c):
    e, eB, (wparsed, argw, argr) = layout_expr(c)
    out = [G.canon_model_text(x) for x in core.coq_eval([e] + ([eB] if eB else []), IMPORTS, ctx.workdir, tag="rpl", shard=10)]
    h, rest = out[0][2:].split(";", 1)
    payload = bytes.fromhex(h)
    ok = True
    for route, res, m in [("schemaless/layout", run_schemaless(argw, argr, payload + c.suffix, c.ropts), rest),
                          ("container/layout", run_container_bytes(wparsed, copy.deepcopy(c.r_raw), payload, c.ropts),
                           rest if not eB else out[1].split(";", 1)[1])]:
        rd, spec, zone = m.split(";")
        ic = impl_class(res)
        print("[%s] bytes: %s" % (route, payload.hex()[:200]))
        print("[%s] implementation: %s" % (route, G.show_py(res[1]) if ic == "V" else "%s %s %s" % (ic, res[1], res[2])))
        print("[%s] model rdec     : %s" % (route, rd[:600]))
        print("[%s] specification  : %s" % (route, spec[:600]))
        if spec.startswith("V:"):
            good = ic == "V" and canon_py(res[1]) == parse_show(spec[2:])
        elif spec == "ER":
            good = ic == "ER"
        else:
            good = ic in ("EO", "ER")
        ok = ok and good
    return ok


def replay(ctx, rep):
    c = Case.from_json(rep["case"])
    if getattr(c, "layout", None):
        return replay_layout(ctx, c)
    p = prepare(c)
    if p is None:
        print("datum cannot be written under the writer schema")
        return False
    exprs = [p["exprA"]] + ([p["exprB"]] if p["exprB"] else [])
    out = [G.canon_model_text(x) for x in core.coq_eval(exprs, IMPORTS, ctx.workdir, tag="rp", shard=10)]
    ok = True
    for route, res, m in [("schemaless", p["A"], out[0])] + ([("container", p["B"], out[1])] if p["exprB"] else []):
        rd, spec, zone = m.split(";")
        ic = impl_class(res)
        print("[%s] implementation: %s" % (route, G.show_py(res[1]) if ic == "V" else "%s %s %s" % (ic, res[1], res[2])))
        print("[%s] model rdec     : %s" % (route, rd[:600]))
        print("[%s] specification  : %s   (%s the agreement zone)" % (route, spec[:600], "inside" if zone in ("Z1", "Z2", "Z2D") else "outside"))
        if spec.startswith("V:"):
            good = ic == "V" and canon_py(res[1]) == parse_show(spec[2:])
        elif spec == "ER":
            good = ic == "ER"
        else:
            good = ic in ("EO", "ER")
        ok = ok and good
    return ok
