"""C11 - parse_schema accepts valid schemas, names per spec, rejects ill-formed ones."""
import copy, json, math
from .. import core, schemagen as sg

SRCFACTS = ["schema"]
RULE = ("valid schemas from harness/schemagen.py (nested / dotted / explicit empty / null namespaces, references before and "
        "after nested definitions, recursion through union / array / map, every attribute, top-level unions) and, for each, "
        "single ill-forming mutations at random positions (undefined reference, duplicate name, missing name, malformed / "
        "duplicate symbol, enum default outside the symbols, field default of a wrong JSON type, decimal precision / scale "
        "negative, non-integer, scale above precision, precision beyond the fixed size); a sweep of fixed sizes against the "
        "floating-point max_precision formula; strings against float(); non-trivial = distinct schema")
TRUSTED = ["harness/schemagen.py: the generator's notion of 'valid' is cross-checked against the model's independent valid_raw "
           "on every case (corr:valid_raw)",
           "harness/schemagen.py to_coq: syntactic printing of a Python JSON value as a Gallina term"]
ASSUMPTIONS = ["all text (names, symbols, doc, attribute keys and string values) is printable ASCII without double quote and "
               "backslash",
               "name is a string, namespace a string or null, symbols and fields are lists, size is an int (bool counts as "
               "int), no duplicate keys: outside this domain the model answers 'other'",
               "modelled configuration of parse_schema: expand=False, _force=False, _ignore_default_error=False",
               "UnknownType raised with the schema dict as its name is compared as unknown:<dict>",
               "fixed sizes stay below 2000 (the exact max_precision scan of the model is linear in the size)"]
PARTIAL = ["C11_accepts is existential in the fuel (no fuel-adequacy lemma for the fuel the harness uses; the harness "
           "never sees 'fuel')",
           "C11_rejects_*: the exact error kind is proved at the offending node; at any depth the theorems say 'never "
           "accepted' (an earlier error of another kind may surface first)"]

IMPORTS = ("From Coq Require Import String.\n"
           "From FA Require Import model.Base model.Json model.Parse model.SchemaSpec model.Canon.\n")


def impl_parse(schema):
    from fastavro.schema import parse_schema, to_parsing_canonical_form
    from fastavro._schema_common import SchemaParseException, UnknownType
    named = {}
    try:
        core.with_timeout(lambda: parse_schema(copy.deepcopy(schema), named), 10)
    except SchemaParseException:
        return "parse"
    except UnknownType as e:
        return "unknown:" + (e.name if isinstance(e.name, str) else "<dict>")
    except core.Timeout:
        return "timeout"
    except Exception as e:
        return "other"
    try:
        canon = to_parsing_canonical_form(copy.deepcopy(schema))
    except Exception as e:
        return "canon-raised:" + type(e).__name__
    return "ok:" + canon + "|" + ",".join(sorted(named))


def case(s, **kw):
    """replay files keep the exact JSON text (floats survive)"""
    return dict(schema=s, schema_json=json.dumps(s), **kw)


def unhex(h):
    return None if h is None else bytes.fromhex(h).decode("latin-1")


MARKERS = ("__fastavro_parsed", "__named_schemas")


def conv_parsed(x):
    """the implementation's parsed schema as plain JSON: markers removed, floats by bit pattern"""
    import struct
    if isinstance(x, float):
        return {"$f": struct.unpack("<Q", struct.pack("<d", x))[0]}
    if isinstance(x, dict):
        return {k: conv_parsed(v) for k, v in x.items() if k not in MARKERS}
    if isinstance(x, (list, tuple)):
        return [conv_parsed(v) for v in x]
    return x


def impl_parsed(schema):
    from fastavro.schema import parse_schema
    try:
        return conv_parsed(core.with_timeout(lambda: parse_schema(copy.deepcopy(schema), {}), 10))
    except Exception:
        return None


def norm_model(m):
    if m is not None and m.startswith("ok:"):
        body, _, names = m.rpartition("|")
        return body + "|" + ",".join(sorted(n for n in names.split(",") if n))
    return m


def cls(r):
    return r.split(":", 1)[0]


def accepted_mutation_signature(mut, schema):
    """name the defect when the implementation accepts an ill-formed schema"""
    k = mut["kind"]
    if k == "duplicate-name" and mut.get("across_top_level_union_members"):
        return "C11:parse_schema:top-level-union:duplicate-name-accepted"
    if k == "default-wrong-type":
        d, t = mut["default"], mut["field_type"]
        ms = t if isinstance(t, list) else [t]
        names = [m if isinstance(m, str) else m.get("type") for m in ms]
        if isinstance(d, bool) and any(n in ("int", "long", "float", "double") for n in names if isinstance(n, str)):
            return "C11:parse_schema:default-check:bool-for-number:wrong-json-type-accepted"
        if isinstance(d, str) and any(n in ("float", "double") for n in names if isinstance(n, str)):
            return "C11:parse_schema:default-check:numeric-string-for-float:wrong-json-type-accepted"
        if isinstance(t, list) and any(isinstance(m, dict) or (isinstance(m, str) and m not in sg.PRIMS) for m in ms):
            return "C11:parse_schema:default-check:union-with-complex-or-named-branch:wrong-json-type-accepted"
        if isinstance(t, str) and t not in sg.PRIMS:
            return "C11:parse_schema:default-check:named-reference:wrong-json-type-accepted"
        return "C11:parse_schema:default-check:other:wrong-json-type-accepted"
    if k == "decimal-precision-falsy-non-integer":
        return "C11:parse_schema:decimal-precision:falsy-or-bool-non-integer-accepted"
    if k == "decimal-scale-falsy-non-integer":
        return "C11:parse_schema:decimal-scale:falsy-or-bool-non-integer-accepted"
    return "C11:parse_schema:%s:accepted" % k


def rejected_valid_signature(schema):
    for p, f, sp in sg.fields_of(schema):
        t = f.get("type")
        if isinstance(t, dict) and t.get("type") in ("float", "double") and isinstance(f.get("default"), int) \
                and not isinstance(f.get("default"), bool):
            return "C11:parse_schema:dict-form-float:integer-default-rejected"
    return "C11:parse_schema:valid-schema-rejected"


def run(ctx):
    rng = ctx.rng
    nvalid = 330 if ctx.quick() else 9000
    cases = []      # (schema, mutation description or None)
    stats, mstats = {}, {}
    for i in range(nvalid):
        s, g = sg.gen_schema(rng, int_float_defaults=(rng.random() < 0.15))
        for k, v in g.stats.items():
            stats[k] = stats.get(k, 0) + v
        cases.append((s, None))
        kinds = rng.sample(sg.MUTATIONS, 4)
        for kind in kinds:
            try:
                m = sg.mutate(rng, s, g, kind)
            except (KeyError, IndexError, TypeError):
                m = None
            if m is None:
                continue
            ms, desc = m
            mstats[kind] = mstats.get(kind, 0) + 1
            cases.append((ms, desc))
    # fixed sizes against the floating-point max_precision formula: precision at the bound and one above
    sizes = list(range(0, 65)) + ([] if ctx.quick() else list(range(65, 400)) + [rng.randrange(400, 1500) for _ in range(60)])
    for size in sizes:
        mp = sg.max_precision(size)
        if mp >= 1:
            cases.append(({"type": "fixed", "name": "F", "size": size, "logicalType": "decimal", "precision": mp}, None))
        cases.append(({"type": "fixed", "name": "F", "size": size, "logicalType": "decimal", "precision": max(mp, 0) + 1},
                      dict(kind="decimal-precision-too-large", path=[], sweep=True)))
    # hand-written corner cases
    corner = [
        [{"type": "record", "name": "A", "fields": []}, {"type": "record", "name": "A", "fields": []}],
        {"type": "record", "name": "R", "fields": [{"name": "f", "type": "double", "default": 2 ** 1024}]},
        {"type": "record", "name": "R", "fields": [{"name": "f", "type": ["null", "double"], "default": 2 ** 1024}]},
        {"type": "record", "name": "R", "fields": [{"name": "f", "type": "double", "default": 2 ** 1024 - 2 ** 970 - 1}]},
        {"type": "record", "name": "R", "fields": [{"name": "f", "type": "double", "default": -(2 ** 1024 - 2 ** 970)}]},
        {"type": "Foo"}, {"type": 5}, {"type": ["null"]}, {"name": "x"}, 5, None, True, 1.5,
        {"type": "record", "name": "R"}, {"type": "record", "name": "R", "fields": [{"type": "int"}]},
        {"type": "record", "name": "R", "fields": [{"name": "f"}]}, {"type": "record", "name": "R", "fields": ["int"]},
        {"type": "error", "name": "E", "fields": [{"name": "f", "type": "E.x"}]},
        {"type": "error", "name": "n.E", "fields": [{"name": "f", "type": ["null", "E"]}]},
        {"type": "enum", "name": "E"}, {"type": "fixed", "name": "F"}, {"type": "array"}, {"type": "map"},
        {"type": "record", "name": "R", "fields": [{"name": "f", "type": "int", "aliases": "x"}]},
        {"type": "bytes", "logicalType": "decimal", "precision": 0}, {"type": "bytes", "logicalType": "decimal", "precision": True, "scale": True},
        {"type": "bytes", "logicalType": "decimal", "scale": 3}, {"type": "bytes", "logicalType": "decimal", "precision": 2, "scale": 0.0},
        {"type": "fixed", "name": "F", "logicalType": "decimal", "precision": 2},
        {"type": "record", "name": "R", "logicalType": "decimal", "precision": -1, "fields": []},
        {"type": "record", "name": "R", "namespace": "a", "fields": [{"name": "f", "type": {"type": "record", "name": "S", "namespace": "", "fields": [{"name": "g", "type": "R"}]}}]},
        {"type": "record", "name": "a.b.R", "namespace": "zz", "fields": [{"name": "f", "type": {"type": "enum", "name": "E", "symbols": []}}, {"name": "g", "type": "a.b.E"}, {"name": "h", "type": "E"}]},
        [["null", "int"], "string"], ["int", "int"], [], {"type": "array", "items": []},
    ]
    for c in corner:
        cases.append((c, dict(kind="corner")))
    for c in sg.NULL_NS_CORPUS:
        cases.append((c, None))
    # witnesses of the defects found so far (fixed ones stay as regression cases; the numeric-string one is a known finding)
    cases.append(([{"type": "record", "name": "A", "fields": []}, {"type": "fixed", "name": "A", "size": 1}],
                  dict(kind="duplicate-name", path=[1], name="A", across_top_level_union_members=True)))
    cases.append(({"type": "record", "name": "R", "fields": [{"name": "f", "type": ["null", {"type": "array", "items": "int"}], "default": 5}]},
                  dict(kind="default-wrong-type", path=["fields", 0], field_type=["null", {"type": "array", "items": "int"}], default=5)))
    cases.append(({"type": "record", "name": "R", "fields": [{"name": "e", "type": {"type": "enum", "name": "E", "symbols": ["A"]}},
                                                              {"name": "f", "type": "E", "default": 5}]},
                  dict(kind="default-wrong-type", path=["fields", 1], field_type="E", default=5)))
    cases.append(({"type": "record", "name": "R", "fields": [{"name": "f", "type": "int", "default": True}]},
                  dict(kind="default-wrong-type", path=["fields", 0], field_type="int", default=True)))
    cases.append(({"type": "record", "name": "R", "fields": [{"name": "f", "type": ["null", "double"], "default": "1.5"}]},
                  dict(kind="default-wrong-type", path=["fields", 0], field_type=["null", "double"], default="1.5")))
    cases.append(({"type": "record", "name": "R", "fields": [{"name": "f", "type": {"type": "double"}, "default": 1}]}, None))
    cases.append(({"type": "bytes", "logicalType": "decimal", "precision": ""},
                  dict(kind="decimal-precision-falsy-non-integer", path=[], node={"type": "bytes", "precision": ""})))
    cases.append(({"type": "bytes", "logicalType": "decimal", "precision": 4, "scale": True},
                  dict(kind="decimal-scale-falsy-non-integer", path=[], node={"type": "bytes", "precision": 4, "scale": True})))

    # unions whose primitive branches (null included) are spelled in dict form, with a default for the first branch
    for ft, dv in [([{"type": "null"}, "int"], None), ([{"type": "null"}, {"type": "string"}], None),
                   ([{"type": "null", "x": 1}, {"type": "array", "items": "long"}], None),
                   ([{"type": "int"}, {"type": "null"}], 7), ([{"type": "double"}, "null"], 1.5),
                   ([{"type": "string"}, {"type": "null"}, "boolean"], "abc"), ([{"type": "boolean"}], True)]:
        cases.append(({"type": "record", "name": "R", "fields": [{"name": "f", "type": ft, "default": dv}]}, None))
    cases.append(({"type": "record", "name": "R", "fields": [{"name": "f", "type": [{"type": "null"}, "int"], "default": "x"}]},
                  dict(kind="default-wrong-type", path=["fields", 0], field_type=[{"type": "null"}, "int"], default="x")))

    # enum symbols that differ only in letter case are distinct symbols (valid)
    for syms in (["m", "M"], ["a", "A", "b"], ["Red", "RED", "red"], ["x_y", "X_Y"], ["A1", "a1", "B"]):
        cases.append(({"type": "enum", "name": "Cs", "symbols": syms}, None))
        cases.append(({"type": "record", "name": "R", "fields": [{"name": "e", "type": {"type": "enum", "name": "n.Cs", "symbols": syms, "default": syms[1]},
                                                                  "default": syms[0]}]}, None))
    # JSON true / false is not a long (nor an int): defaults of long fields in every spelling
    for dv in (True, False):
        for ft in ("long", {"type": "long"}, {"type": "long", "logicalType": "timestamp-millis"}, {"type": "long", "logicalType": "time-micros"},
                   ["long", "null"], ["null", "long"], ["string", {"type": "long"}], [{"type": "long", "logicalType": "timestamp-micros"}, "null"],
                   "int", {"type": "int"}, ["int", "null"]):
            cases.append(({"type": "record", "name": "R", "fields": [{"name": "f", "type": ft, "default": dv}]},
                          dict(kind="default-wrong-type", path=["fields", 0], field_type=ft, default=dv)))
    # wrong-type default on a field whose type is a DIRECT reference to a record that is still open (self / mutual recursion)
    for dv in (5, "x", [], True, None, 1.5):
        for sch, path in [
                ({"type": "record", "name": "Node", "fields": [{"name": "v", "type": "int"}, {"name": "next", "type": "Node", "default": dv}]}, ["fields", 1]),
                ({"type": "record", "name": "A", "fields": [{"name": "b", "type": {"type": "record", "name": "B", "fields": [
                    {"name": "a", "type": "A", "default": dv}]}}]}, ["fields", 0, "type", "fields", 0]),
                ({"type": "record", "name": "N", "namespace": "a.b", "fields": [{"name": "self", "type": "a.b.N", "default": dv},
                                                                                 {"name": "x", "type": "long"}]}, ["fields", 0]),
                ({"type": "error", "name": "n.E", "fields": [{"name": "inner", "type": {"type": "record", "name": "I", "fields": [
                    {"name": "up", "type": "E", "default": dv}, {"name": "me", "type": ["null", "I"]}]}}]}, ["fields", 0, "type", "fields", 0])]:
            cases.append((sch, dict(kind="default-wrong-type", path=path, field_type="direct reference to an open record", default=dv)))

    exprs = []
    for s, mut in cases:
        t = sg.to_coq(s)
        exprs.append("show_parse " + t)
        exprs.append("show_valid " + t)
        exprs.append("show_parsed " + t)
    out = core.coq_eval(exprs, IMPORTS, ctx.workdir, tag="parse", shard=200 if ctx.quick() else 400)
    nvalid_rejected = 0
    for i, (s, mut) in enumerate(cases):
        m = norm_model(unhex(out[3 * i]))
        mvalid = out[3 * i + 1]
        mparsed = unhex(out[3 * i + 2])
        r = impl_parse(s)
        key = json.dumps(s, sort_keys=True, default=str)
        ctx.count("corr:parse", key)
        if r == m and r.startswith("ok:"):
            # the parsed schema itself, key by key (attribute order ignored, markers removed)
            ctx.count("corr:parsed-output", key)
            try:
                mp = json.loads(mparsed[3:])
            except Exception as e:
                mp = "unreadable: %s" % e
            ip = impl_parsed(s)
            if ip != mp:
                ctx.violation("corr:parsed-output", case(s, mutation=mut), impl=ip, model=mp,
                              signature="C11:parse_schema:parsed-output-differs-from-model", found_input=False)
        if r != m:
            # does the implementation violate the statement on this input?
            if mut is None:
                bad = True          # a valid schema: the model's answer is the specification's (C11_accepts, C13_spec)
            elif mut["kind"] == "corner":
                bad = False
            else:
                bad = cls(r) not in ("parse", "unknown")
            ctx.violation("corr:parse", case(s, mutation=mut), impl=r, model=m,
                          signature="C11:parse_schema:differs-from-model:%s-vs-%s" % (cls(r), cls(m) if m else "none"),
                          found_input=bad)
        # the statement itself, evaluated on the implementation
        if mut is None:
            ctx.count("pred:accepts-valid", key)
            if not r.startswith("ok:"):
                nvalid_rejected += 1
                ctx.violation("pred:accepts-valid", case(s), impl=r, model="accepted (specification-valid schema)",
                              signature=rejected_valid_signature(s))
            if mvalid != "true":
                ctx.violation("corr:valid_raw", case(s), impl="generator: valid", model="valid_raw = " + str(mvalid),
                              signature="C11:harness:generator-vs-valid_raw", found_input=False)
        elif mut["kind"] != "corner":
            ctx.count("pred:rejects-ill-formed", key)
            if cls(r) not in ("parse", "unknown"):
                ctx.violation("pred:rejects-ill-formed", case(s, mutation=mut), impl=r,
                              model="SchemaParseException or UnknownType", signature=accepted_mutation_signature(mut, s))
            if mvalid != "false":
                ctx.violation("corr:valid_raw", case(s, mutation=mut), impl="generator: ill-formed", model="valid_raw = " + str(mvalid),
                              signature="C11:harness:mutator-vs-valid_raw", found_input=False)
    # enum symbols outside ASCII (outside the modelled alphabet, implementation only): the specification's symbol grammar
    # is [A-Za-z_][A-Za-z0-9_]*, so letters / digits / connectors of other scripts after the first character are malformed
    for sym in ["caf\u00e9", "x\u0663", "a\u00aa", "A_\u00e9", "n\u0303", "x\u203f", "\u00e9", "a\u00b2", "\u03b1\u03b2", "K\uff11"]:
        for node in ({"type": "enum", "name": "E", "symbols": ["OK", sym]},
                     {"type": "record", "name": "R", "fields": [{"name": "e", "type": {"type": "enum", "name": "n.E", "symbols": [sym, "B"]}}]}):
            mut = dict(kind="malformed-symbol", path=[], symbol=sym, non_ascii=True)
            r = impl_parse(node)
            ctx.count("pred:rejects-ill-formed", json.dumps(node, sort_keys=True))
            if cls(r) not in ("parse", "unknown"):
                ctx.violation("pred:rejects-ill-formed", case(node, mutation=mut), impl=r,
                              model="SchemaParseException (symbol not matching [A-Za-z_][A-Za-z0-9_]*)",
                              signature=accepted_mutation_signature(mut, node))
    ctx.notes["generator"] = stats
    ctx.notes["mutations"] = mstats
    ctx.notes["valid_schemas_rejected_by_implementation"] = nvalid_rejected
    if nvalid_rejected * 10 > nvalid * 3:
        raise RuntimeError("generator broken: %d of %d valid schemas rejected" % (nvalid_rejected, nvalid))

    # ---- float(str): the strings _maybe_float turns into floats
    from fastavro._schema_py import _maybe_float
    alphabet = "0123456789.eE+-_ infatyINFAN"
    strs = ["", " ", "1", "1.", ".5", ".", "1e5", "1e", "e5", "1_0", "_1", "1_", "1__0", "1_.5", "1._5", "1e_5", "1e5_0", "inf", "-inf",
            "+Infinity", "nan", "-NaN", "infinit", "in_f", " 1 ", "1 2", "+", "-", "+-1", "0x10", "1e+5", "1E-5", "1.5.2", "١", "1f",
            "Infinity_", "--1", "1e5.0", "00.00", "+.5e-0_1"]
    strs = [s for s in strs if all(32 <= ord(c) < 127 for c in s)]
    for _ in range(600 if ctx.quick() else 20000):
        strs.append("".join(rng.choice(alphabet) for _ in range(rng.randrange(0, 8))))
    out = core.coq_eval(["show_pyfloat " + sg.coq_str(s) for s in strs], IMPORTS, ctx.workdir, tag="flt", shard=400)
    for s, m in zip(strs, out):
        r = "true" if isinstance(_maybe_float(s), float) else "false"
        ctx.count("corr:float-str", s)
        if r != m:
            ctx.violation("corr:float-str", dict(text=s), impl=r, model=m, signature="C11:_maybe_float:differs-from-model",
                          found_input=False)
    for s, mut in cases[:2]:
        ctx.sample(dict(schema=s, mutation=mut, implementation=impl_parse(s)))


def replay(ctx, rep):
    c = rep["case"]
    if "text" in c:
        from fastavro._schema_py import _maybe_float
        r = "true" if isinstance(_maybe_float(c["text"]), float) else "false"
        m = core.coq_eval(["show_pyfloat " + sg.coq_str(c["text"])], IMPORTS, ctx.workdir, tag="rp")[0]
        print("implementation:", r, "model:", m)
        return r == m
    s, mut = json.loads(c["schema_json"]), c.get("mutation")
    r = impl_parse(s)
    m = norm_model(unhex(core.coq_eval(["show_parse " + sg.to_coq(s)], IMPORTS, ctx.workdir, tag="rp")[0]))
    print("implementation:", r)
    print("model:", m)
    ok = r == m
    if mut is None:
        ok = ok and r.startswith("ok:")
    elif mut.get("kind") != "corner":
        ok = ok and cls(r) in ("parse", "unknown")
    return ok
