"""C04 - container files are self-describing and round-trip under every codec / block size / stream kind."""
import io, json, os, tempfile
from .. import core, gallina as G, codec_common as CC, container_common as K, gen

SRCFACTS = ["container"]
RULE = ("files = fastavro.writer output for (schema of any top-level kind) x (record lists: empty, one, many, zero-byte records, records "
        "exactly filling / exceeding the interval) x codec in {null, deflate, bzip2, xz} x sync_interval in {1, 2, size-1, size, size+1, 16000, huge} "
        "x metadata x explicit/default marker x raw/parsed schema x deflate levels; compared: file bytes vs the model's writer (framing exact, "
        "payloads after stdlib decompression), records/END from fastavro.reader vs the model's reader, writer_schema canonical form, codec, "
        "metadata; I/O trace on wrapper streams exposing only read / only write+flush+seekable; real files in thorough; "
        "non-trivial = at least one record; distinct by (schema, records, codec, interval)")
TRUSTED = ["zlib/bz2/lzma (stdlib) compress/decompress: the model's codec is abstract (Section variables with decompress(compress b) = b); "
           "the harness re-frames compressed files to the null codec with a 40-line varint/slice splitter (harness/container_common.py)",
           "json.dumps of the schema for the avro.schema header entry is the stdlib's; that the header JSON parses to a schema with the same "
           "canonical form is checked with fastavro's own parser (C11/C12/C13 decide the parser)"]
ASSUMPTIONS = ["snappy/zstandard/lz4 are not importable in this sandbox and are not exercised"]
PARTIAL = []


class ReadOnly:
    """exposes only read(); records every attribute the reader touches"""
    def __init__(self, data):
        self._b = io.BytesIO(data)
        self.trace = []

    def read(self, n=-1):
        self.trace.append("read")
        return self._b.read(n)

    def __getattr__(self, name):
        self.trace.append("ATTR:" + name)
        raise AttributeError(name)

    def __iter__(self):
        self.trace.append("ATTR:__iter__")
        raise TypeError("not iterable")


class WriteOnly:
    """exposes only write(), flush(), seekable() -> False"""
    def __init__(self):
        self.data = bytearray()
        self.trace = []

    def write(self, b):
        self.trace.append("write")
        self.data += b
        return len(b)

    def flush(self):
        self.trace.append("flush")

    def seekable(self):
        self.trace.append("seekable")
        return False

    def __getattr__(self, name):
        self.trace.append("ATTR:" + name)
        raise AttributeError(name)


def make_cases(ctx, n):
    import fastavro
    rng = ctx.rng
    pool = []
    for fs in CC.FIXED_SCHEMAS:
        named = {}
        pool.append((fs, fastavro.parse_schema(json.loads(json.dumps(fs)), named), named))
    cases = []
    # large, highly compressible blocks (thousands of identical records in one block) under every codec
    named = {}
    rep = fastavro.parse_schema({"type": "record", "name": "Rep", "fields": [{"name": "a", "type": "long"}, {"name": "s", "type": "string"}]}, named)
    for codec in K.CODECS:
        for nrec, si in ([(3000, 1 << 40)] if ctx.quick() else [(3000, 1 << 40), (5000, 1 << 40), (4000, 64000), (1500, 16000)]):
            recs = [{"a": 0, "s": "aaaaaaaaaaaaaaaa"} for _ in range(nrec)]
            cases.append(dict(raw=named["Rep"], parsed=rep, named=named, records=recs, codec=codec, si=si, meta=None,
                              sync=bytes(range(16)), level=rng.choice([None, 9]), use_raw=False, sizes=[K.record_size(rep, r) for r in recs]))
    # schemas whose named types were parsed SEPARATELY (shared named_schemas dict) and are referred to by name from a top-level
    # union / array / map / record: the file must still be self-describing
    item = {"n": 5, "t": "Y"}
    for top, recs in (
            (["null", {"type": "record", "name": "pc.Seg", "fields": [{"name": "a", "type": "pc.Item"}, {"name": "b", "type": "pc.Tag"}]}, "string"],
             [{"a": item, "b": "X"}, None, "s"]),
            ({"type": "record", "name": "pc.Box", "fields": [{"name": "i", "type": "pc.Item"}, {"name": "t", "type": ["null", "pc.Tag"], "default": None}]},
             [{"i": item, "t": "X"}, {"i": item}]),
            # the FIRST use of a separately parsed type sits inside map values / array items / a nested union
            ({"type": "record", "name": "pc.MBox", "fields": [{"name": "m", "type": {"type": "map", "values": "pc.Item"}},
                                                             {"name": "a", "type": {"type": "array", "items": ["null", "pc.Tag"]}}]},
             [{"m": {"k": item, "j": item}, "a": ["X", None]}, {"m": {}, "a": []}]),
            ({"type": "record", "name": "pc.ABox", "fields": [{"name": "a", "type": {"type": "array", "items": {"type": "map", "values": ["pc.Tag", "pc.Item"]}}},
                                                             {"name": "again", "type": "pc.Item"}]},
             [{"a": [{"x": "Y", "y": item}], "again": item}])):
        named = {}
        fastavro.parse_schema({"type": "enum", "name": "pc.Tag", "symbols": ["X", "Y"]}, named)
        fastavro.parse_schema({"type": "record", "name": "pc.Item", "fields": [{"name": "n", "type": "long"}, {"name": "t", "type": "pc.Tag"}]}, named)
        parsed = fastavro.parse_schema(top, named)
        sizes = [K.record_size(parsed, r) for r in recs]
        if all(x is not None for x in sizes):
            cases.append(dict(raw=top, parsed=parsed, named=named, records=recs, codec=rng.choice(K.CODECS), si=rng.choice([1, 16000]), meta=None,
                              sync=bytes(range(16)), level=None, use_raw=False, sizes=sizes, piecewise=True))
    while len(cases) < n:
        if rng.random() < 0.35:
            raw, parsed, named = rng.choice(pool)
        else:
            try:
                raw, parsed, named = CC.make_schema(rng, max_depth=3)
            except Exception:
                continue
        try:
            recs = K.gen_records(rng, parsed, named, rng.choice([0, 1, 1, 2, 3, 5, 12, 30]))
        except (gen.TooDeep, RecursionError):
            continue
        sizes = [K.record_size(parsed, r) for r in recs]
        if any(s is None for s in sizes):
            continue          # generator produced something the writer rejects (covered by C01/C10)
        si_choices = [1, 2, 16000, 1 << 40, 0, -5]
        if sizes:
            s0 = sizes[0]
            si_choices += [s0 - 1, s0, s0 + 1, sum(sizes), sum(sizes) + 1, max(1, sum(sizes) // 2)]
        c = dict(raw=raw, parsed=parsed, named=named, records=recs,
                 codec=rng.choice(K.CODECS), si=rng.choice(si_choices),
                 meta=rng.choice([None, {}, {"k": "v"}, {"a": "é", "long": "x" * 70}, {"avro.codec": "zzz", "u": ""}]),
                 sync=bytes(rng.randrange(256) for _ in range(16)) if rng.random() < 0.7 else b"",
                 level=rng.choice([None, None, 1, 9, 0, -1]), use_raw=rng.random() < 0.4, sizes=sizes)
        cases.append(c)
    return cases


def impl_write_file(c, fo=None):
    import fastavro
    fo = fo if fo is not None else io.BytesIO()
    md = None if c["meta"] is None else dict(c["meta"])
    schema_arg = c["raw"] if c["use_raw"] else c["parsed"]
    records = c["records"]
    if len(c["records"]) >= 2 and (len(repr(c["raw"])) + len(c["records"])) % 3 == 0:
        # the records come from a generator that itself writes ANOTHER container file while this one has records pending:
        # writers must not share anything (the other file is checked too)
        def gen_records():
            for i, r in enumerate(c["records"]):
                if i == 1:
                    other = io.BytesIO()
                    fastavro.writer(other, {"type": "record", "name": "Inner", "fields": [{"name": "n", "type": "long"}]}, [{"n": 1}, {"n": 2}], codec="null")
                    if [x for x in fastavro.reader(io.BytesIO(other.getvalue()))] != [{"n": 1}, {"n": 2}]:
                        raise RuntimeError("the inner writer's file does not read back")
                yield r
        records = gen_records()
    try:
        core.with_timeout(lambda: fastavro.writer(fo, schema_arg, records, codec=c["codec"], sync_interval=c["si"],
                                                  metadata=md, sync_marker=c["sync"], codec_compression_level=c["level"]), 60)
    except core.Timeout:
        return ("timeout", None)
    except Exception as e:
        return ("raised", type(e).__name__ + ": " + str(e)[:200])
    return ("ok", fo)


def case_json(c):
    return dict(schema=c["raw"], records_repr=repr(c["records"]), codec=c["codec"], sync_interval=c["si"], metadata=c["meta"],
                sync=c["sync"].hex(), level=c["level"], use_raw=c["use_raw"], piecewise=bool(c.get("piecewise")))


def run(ctx):
    import fastavro
    from fastavro.schema import to_parsing_canonical_form
    n = 260 if ctx.quick() else 6000
    cases = make_cases(ctx, n)
    files, exprs, idx = [], [], []
    for i, c in enumerate(cases):
        w = impl_write_file(c)
        c["w"] = w
        if w[0] != "ok":
            ctx.count("corr:container-bytes", i, nontrivial=bool(c["records"]))
            ctx.violation("corr:container-bytes", case_json(c), impl=w, model="writes a file", found_input=True,
                          signature="C04:writer:raises-on-conforming-records")
            continue
        data = w[1].getvalue()
        c["data"] = data
        try:
            hl, meta, sync = K.split_header(data)
        except K.Malformed as e:
            ctx.violation("corr:container-bytes", case_json(c), impl=data[:200].hex(), model="a header", found_input=True,
                          signature="C04:writer:header-not-parsable")
            continue
        c["sync_used"] = c["sync"] or sync
        schema_arg = c["raw"] if c["use_raw"] else c["parsed"]
        if c.get("piecewise"):
            schema_arg = K.inline_named(c["parsed"], c["named"])      # the header must carry the definitions
        em = K.expected_meta(schema_arg, c["codec"], c["meta"])
        ops = [("write", r) for r in c["records"]] + [("flush",)]
        exprs.append(K.expr_history(c["parsed"], c["named"], em, c["sync_used"], c["si"], ops))
        idx.append(i)
    model = CC.run_model(ctx, exprs, "c04w")
    rexprs, ridx = [], []
    for i, m in zip(idx, model):
        c = cases[i]
        ctx.count("corr:container-bytes", (repr(c["raw"]), repr(c["records"]), c["codec"], c["si"]), nontrivial=bool(c["records"]))
        try:
            hdr, steps = K.parse_history(m)
        except Exception:
            ctx.violation("corr:container-bytes", case_json(c), impl=None, model=m[:300], found_input=False,
                          signature="C04:model-output-unparsable")
            continue
        if any(st != "ok" for st, _ in steps):
            ctx.notes["model_rejected_record"] = ctx.notes.get("model_rejected_record", 0) + 1
            continue
        expect = hdr + b"".join(b for _, b in steps)
        try:
            got = K.to_null(c["data"], c["codec"])
        except Exception as e:
            got = None
        c["null"] = got
        if got != expect:
            ctx.violation("corr:container-bytes", case_json(c), impl=(got or c["data"])[:3000].hex(), model=expect[:3000].hex(),
                          signature="C04:writer:file-bytes-differ-from-specified-layout:" + ("header" if (got or b"")[:len(hdr)] != hdr else "blocks"),
                          found_input=True)
            continue
        rexprs.append(K.expr_readfile(c["parsed"], c["named"], got))
        ridx.append(i)
    rmodel = CC.run_model(ctx, rexprs, "c04r")
    for i, m in zip(ridx, rmodel):
        c = cases[i]
        t, out = K.impl_read_file(c["data"])
        ctx.count("corr:container-read", (repr(c["raw"]), repr(c["records"]), c["codec"]), nontrivial=bool(c["records"]))
        # the statement itself, on the implementation
        ok = t.endswith("|END") and len(out) == len(c["records"]) and all(
            CC.norm_equiv(r, o, c["parsed"], c["named"]) for r, o in zip(c["records"], out))
        why = "records read back differ from the records written" if not ok else ""
        if ok:
            try:
                rd = fastavro.reader(io.BytesIO(c["data"]))
                schema_arg = c["raw"] if c["use_raw"] else c["parsed"]
                if to_parsing_canonical_form(rd.writer_schema) != to_parsing_canonical_form(schema_arg):
                    ok, why = False, "reported writer schema has a different canonical form"
                elif rd.codec != c["codec"]:
                    ok, why = False, "reported codec differs"
                elif any(rd.metadata.get(k) != v for k, v in (c["meta"] or {}).items() if not k.startswith("avro.")):
                    ok, why = False, "metadata not reported as supplied"
            except Exception as e:
                ok, why = False, "reader raised " + type(e).__name__
        if not ok:
            ctx.violation("corr:container-read", case_json(c), impl=t[:1500], model=m[:1500],
                          signature="C04:reader:" + why.replace(" ", "-")[:60], found_input=True, detail=why)
        elif G.canon_model_text(t) != m:
            ctx.violation("corr:container-read", case_json(c), impl=t[:1500], model=m[:1500], signature="C04:model-differs",
                          found_input=False)
    # ---- corr:io-trace: sequential reads only / write+flush(+seekable) only
    for c in cases[: (60 if ctx.quick() else 1500)]:
        if "data" not in c:
            continue
        ro = ReadOnly(c["data"])
        try:
            out = list(fastavro.reader(ro))
            ok = len(out) == len(c["records"]) and not [x for x in ro.trace if x.startswith("ATTR")]
        except Exception as e:
            ok = False
        ctx.count("corr:io-trace", ("r", repr(c["raw"]), repr(c["records"])[:200], c["codec"]), nontrivial=bool(c["records"]))
        if not ok:
            ctx.violation("corr:io-trace", case_json(c), impl=sorted(set(ro.trace)), model=["read"],
                          signature="C04:reader:needs-more-than-sequential-read", found_input=True)
        wo = WriteOnly()
        w = impl_write_file(c, wo)
        bad = [x for x in wo.trace if x not in ("write", "flush", "seekable")]
        same = w[0] == "ok" and (bytes(wo.data) == c["data"] if c["sync"] else len(wo.data) == len(c["data"]))
        ctx.count("corr:io-trace", ("w", repr(c["raw"]), repr(c["records"])[:200], c["codec"]), nontrivial=bool(c["records"]))
        if w[0] != "ok" or bad or not same:
            ctx.violation("corr:io-trace", case_json(c), impl=dict(result=str(w[0]), calls=sorted(set(wo.trace))),
                          model=["seekable", "write", "flush"], signature="C04:writer:needs-more-than-write-flush-on-non-seekable-output",
                          found_input=True)
    # ---- real files and pipes (thorough)
    if not ctx.quick():
        d = tempfile.mkdtemp(prefix="c04_")
        try:
            for k, c in enumerate(cases[:400]):
                if "data" not in c or not c["sync"]:
                    continue
                p = os.path.join(d, "f.avro")
                with open(p, "wb") as fo:
                    impl_write_file(c, fo)
                same = open(p, "rb").read() == c["data"]
                with open(p, "rb") as fi:
                    out = list(fastavro.reader(fi))
                rfd, wfd = os.pipe()
                ctx.count("corr:real-file", k, nontrivial=bool(c["records"]))
                os.close(rfd); os.close(wfd)
                if not same or len(out) != len(c["records"]):
                    ctx.violation("corr:real-file", case_json(c), impl="file differs from in-memory stream", model="same bytes",
                                  signature="C04:real-file:differs-from-memory-stream", found_input=True)
        finally:
            import shutil
            shutil.rmtree(d, ignore_errors=True)
    ctx.notes["codec_histogram"] = {k: sum(1 for c in cases if c["codec"] == k) for k in K.CODECS}
    ctx.notes["record_count_histogram"] = {str(k): sum(1 for c in cases if len(c["records"]) == k) for k in sorted({len(c["records"]) for c in cases})}
    for c in cases[:200:60]:
        ctx.sample(dict(schema=c["raw"], n_records=len(c["records"]), codec=c["codec"], sync_interval=c["si"], metadata=c["meta"]))


def replay(ctx, rep):
    c = rep["case"]
    import fastavro
    named = {}
    if c.get("piecewise"):
        fastavro.parse_schema({"type": "enum", "name": "pc.Tag", "symbols": ["X", "Y"]}, named)
        fastavro.parse_schema({"type": "record", "name": "pc.Item", "fields": [{"name": "n", "type": "long"}, {"name": "t", "type": "pc.Tag"}]}, named)
    parsed = fastavro.parse_schema(c["schema"], named)
    recs = eval(c["records_repr"], dict(CC.EVAL_ENV))
    cc = dict(raw=c["schema"], parsed=parsed, named=named, records=recs, codec=c["codec"], si=c["sync_interval"], meta=c["metadata"],
              sync=bytes.fromhex(c["sync"]), level=c["level"], use_raw=c["use_raw"])
    w = impl_write_file(cc)
    if w[0] != "ok":
        print("writer:", w); return False
    data = w[1].getvalue()
    t, out = K.impl_read_file(data)
    ok = t.endswith("|END") and len(out) == len(recs) and all(CC.norm_equiv(r, o, parsed, named) for r, o in zip(recs, out))
    hl, meta, sync = K.split_header(data)
    em = K.expected_meta(K.inline_named(parsed, named) if c.get("piecewise") else c["schema"] if c["use_raw"] else parsed, c["codec"], c["metadata"])
    m = CC.run_model(ctx, [K.expr_history(parsed, named, em, cc["sync"] or sync, cc["si"], [("write", r) for r in recs] + [("flush",)])], "rp")[0]
    hdr, steps = K.parse_history(m)
    same = K.to_null(data, c["codec"]) == hdr + b"".join(b for _, b in steps)
    print("round trip on implementation:", ok, "; file equals specified layout:", same)
    return ok and same
