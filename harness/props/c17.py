"""C17 - results depend only on arguments: no state leaks across calls, inputs intact.

corr:fresh-vs-history  every call of a random history is also executed, with (a pickled copy of) exactly the
                       argument objects it received, first thing in a FRESH interpreter; observable results
                       must be identical.  This is the property's own predicate evaluated on the implementation.
corr:globals           deep snapshot of every module-level binding, class attribute and function default of every
                       fastavro.* module before/after every call; only the cells the model says may change
                       (decimal_context.prec and its sticky Inexact/Rounded flags) may, and they must equal the
                       model's gstate after the same abstract call (model/Globals.v, evaluated inside Coq).
corr:model-result      decimals returned by reads equal the model's (round-half-even to the schema's precision).
corr:args-intact       canonical deep form of every argument before vs after the call (named_schemas exempt).
"""
import base64, json, os, pickle, re, shutil, subprocess, sys, tempfile, time
from concurrent.futures import ThreadPoolExecutor
from .. import core
from . import c17_gen as G

SRCFACTS = ["inventory"]
RULE = ("histories of 15-25 public calls (parse_schema incl. caller-supplied/shared named_schemas dicts, piecewise parses, "
        "re-parsing parsed schemas; schemaless_writer/reader; writer/reader container files null+deflate; validate/"
        "validate_many with raise_errors both ways; canonical form; fingerprint; json_writer/json_reader; generate_many "
        "(seeded); load_schema from a scratch directory) over schemas that reuse the type names R/Inner/E/F/D with "
        "different definitions, parsed-schema objects and raw schema objects shared between calls, decimals of different "
        "precisions (also precision 0: rejected by the context midway), calls designed to raise midway (non-conforming "
        "record inside writer(), truncated reader input, unknown type, unknown codec); non-trivial = a call that returned "
        "normally in the history interpreter")
TRUSTED = ["subprocess isolation: 'fresh interpreter' = a new /venv/bin/python process importing fastavro from the tree under test",
           "pickle round trip of argument objects preserves everything the calls can observe except object identity",
           "the independent Avro binary/container/JSON encoder of harness/props/c17_gen.py (only feeds reader inputs; a defect "
           "there lowers the share of non-trivial cases, it cannot hide a leak)",
           "decimal module of CPython (Context.create_decimal / scaleb / flags) as modelled in model/Globals.v: ROUND_HALF_EVEN, "
           "sticky Inexact/Rounded; exponent limits and the MAX_PREC bound are not modelled"]
ASSUMPTIONS = ["the caller-supplied named_schemas dictionary is exempt from the inputs-intact clause, as the property says",
               "O2 (writer(..., metadata=md) adds avro.schema/avro.codec to md) is recorded as an observation: metadata is "
               "neither a schema nor a data object",
               "state outside fastavro's own modules (the random module's generator, stdlib caches) is not part of the snapshot; "
               "generate_many is called with random.seed(k) inside the call"]
PARTIAL = ["inputs-intact clause: object identity/mutation is not expressible in the pure model; decided by corr:args-intact only",
           "api_call abstracts every argument except the decimals a read decodes; the dependence of results on arguments "
           "is checked by corr:fresh-vs-history, not proved"]

IMPORTS = "From Coq Require Import String.\nFrom FA Require Import model.Base model.Globals.\n"
REPO = os.environ.get("VERIF_REPO", core.REPO)
HERE = os.path.dirname(os.path.abspath(__file__))
WORKER = os.path.join(HERE, "c17_worker.py")
PY = sys.executable
LR_CTX = "fastavro._logical_readers_py.decimal_context"
MODEL_CELLS = [LR_CTX + ".prec", LR_CTX + ".flags.Inexact", LR_CTX + ".flags.Rounded"]


def env_for(scratch):
    return dict(os.environ, PYTHONPATH=REPO, PYTHONHASHSEED="0", TZ="UTC", PYTHONDONTWRITEBYTECODE="1", C17_SCRATCH=scratch)


def source_variant():
    """Current / Fixed, by the same rule as coq/srcfacts/SF_inventory.v, from the tree under test"""
    from .. import srcfacts
    p = subprocess.run([PY, srcfacts.PROBE], stdout=subprocess.PIPE, stderr=subprocess.PIPE,
                       env=dict(os.environ, PYTHONPATH=REPO, PYTHONHASHSEED="0", PYTHONDONTWRITEBYTECODE="1"), timeout=120)
    if p.returncode != 0:
        raise RuntimeError("srcfacts probe failed on %s: %s" % (REPO, p.stderr.decode()[-800:]))
    f = json.loads(p.stdout.decode())
    # (a tree with OTHER new write sites breaks SF_inventory anyway; the decimal-context variant only depends on this one)
    cur = any("read_decimal" in x and "decimal_context" in x for x in f["shared_write_sites"])
    return ("Current" if cur else "Fixed"), f


def run_history(calls, scratch, tag):
    inp = os.path.join(scratch, tag + ".in.pkl")
    outp = os.path.join(scratch, tag + ".out.jsonl")
    with open(inp, "wb") as fh:
        pickle.dump(calls, fh, protocol=4)
    p = subprocess.run([PY, WORKER, "history", inp, outp], env=env_for(scratch), stdout=subprocess.PIPE,
                       stderr=subprocess.PIPE, timeout=300)
    if p.returncode != 0:
        raise RuntimeError("history worker failed: " + p.stderr.decode()[-1500:])
    with open(outp) as fh:
        recs = [json.loads(l) for l in fh]
    os.remove(inp)
    os.remove(outp)
    return recs


def run_fresh(pickled_b64, scratch, tag):
    if pickled_b64 is None:
        return None
    inp = os.path.join(scratch, tag + ".in.pkl")
    outp = os.path.join(scratch, tag + ".out.json")
    with open(inp, "wb") as fh:
        fh.write(base64.b64decode(pickled_b64))
    p = subprocess.run([PY, WORKER, "fresh", inp, outp], env=env_for(scratch), stdout=subprocess.PIPE,
                       stderr=subprocess.PIPE, timeout=120)
    if p.returncode != 0:
        return {"st": "worker-crashed", "val": p.stderr.decode()[-600:], "extra": None}
    with open(outp) as fh:
        r = json.load(fh)["res"]
    os.remove(inp)
    os.remove(outp)
    return r


def slot_refs(c):
    return [v["$slot"] for v in c.values() if isinstance(v, dict) and len(v) == 1 and "$slot" in v]


MUTATING = {"writer_write": "writer", "writer_flush": "writer"}     # calls that change the object in that argument


def closure(calls, k, force=False, failed=()):
    """The calls before k that BUILD the objects call k is handed (parsed schemas, caller-supplied named_schemas
    dictionaries and everything parsed into them, opened readers), in order, followed by call k itself."""
    need = set(slot_refs(calls[k]))
    if not need:
        # data objects shared with earlier calls: the call alone, data as the caller made (and later edited) them
        return ([c for c in calls[:k] if c["api"] == "mutate"] + [calls[k]]) if force else None
    changed = True
    while changed:
        changed = False
        for j in range(k):
            c = calls[j]
            ns = c.get("named_schemas")
            touches = c.get("$out") in need or (isinstance(ns, dict) and ns.get("$slot") in need)
            if touches:
                for sl in slot_refs(c) + ([c["$out"]] if "$out" in c else []):
                    if sl not in need:
                        need.add(sl)
                        changed = True
    def mutates(c):
        a = MUTATING.get(c["api"])
        return a is not None and isinstance(c.get(a), dict) and c[a].get("$slot") in need
    # Writer.write calls that RAISED in the history are left out: a call that failed midway must leave no trace in the
    # object, so the later calls must give what they give when the failed call never happened
    idx = [j for j in range(k) if calls[j].get("$out") in need or
           (isinstance(calls[j].get("named_schemas"), dict) and calls[j]["named_schemas"].get("$slot") in need) or
           (mutates(calls[j]) and j not in failed) or calls[j]["api"] == "mutate"]     # the caller's own edits of its data
    return [calls[j] for j in idx] + [calls[k]]


def run_rebuilt(calls, k, scratch, tag, force=False, failed=()):
    """call k in a fresh interpreter that first rebuilds the argument objects by the calls that built them
    (data objects come from the generator's pristine copy: the pickled history is written before anything ran)"""
    sub = closure(calls, k, force, failed)
    if sub is None:
        return None
    try:
        recs = run_history(sub, scratch, tag)
    except Exception as e:
        return {"st": "worker-crashed", "val": str(e)[-400:], "extra": None}
    last = [r for r in recs if r["i"] == len(sub) - 1]
    return last[0]["res"] if last else {"st": "worker-crashed", "val": "no record", "extra": None}


def describe(call):
    """short human-readable form of a call description (replay files)"""
    def d(v):
        if isinstance(v, bytes):
            return "bytes:" + v.hex()
        r = repr(v)
        return r if len(r) < 1500 else r[:1500] + "..."
    return {k: d(v) for k, v in call.items()}


DEC_RE = re.compile(r"D\((\d),(\d+),(-?\d+)\)")


def impl_decimals(res):
    return [(int(a), int(b), int(c)) for a, b, c in DEC_RE.findall(json.dumps([res["val"], res["extra"]]))]


def parse_model_trace(s):
    out = []
    for part in s.split("/"):
        if not part:
            continue
        g, r = part.split("|", 1)
        cells = [int(x) for x in g.split(",")]
        if r == "raised":
            out.append((cells, None))
        else:
            body = r[3:]
            decs = [tuple(int(x) for x in d.split(",")) for d in body.split(";")] if body else []
            out.append((cells, decs))
    return out


def model_segments(ctx, variant, hist_abstract, hist_cells):
    """The model is run call by call from the OBSERVED state before the call (so one unpredicted call does not
    shadow the rest): for call k, `show_trace v (mkG p i r []) [c_k]`.  Calls in a row are batched per history."""
    exprs, index = [], []
    for h, (abstract, cells) in enumerate(zip(hist_abstract, hist_cells)):
        for k, a in enumerate(abstract):
            if not a:
                continue
            p, i, r = cells[k]          # state before call k
            b = lambda x: "true" if x else "false"
            exprs.append("show_trace %s (mkG %d %s %s []) [%s]" % (variant, p, b(i), b(r), a))
            index.append((h, k))
    vals = core.coq_eval(exprs, IMPORTS, ctx.workdir, tag="c17m", shard=300)
    return {ix: parse_model_trace(v)[0] for ix, v in zip(index, vals)}


def run(ctx):
    t0 = time.time()
    quick = ctx.quick()
    nh = int(os.environ.get("C17_HISTORIES", 24 if quick else 800))
    scratch = tempfile.mkdtemp(prefix="c17.", dir=ctx.workdir)
    try:
        _run(ctx, nh, scratch)
    finally:
        shutil.rmtree(scratch, ignore_errors=True)
    ctx.notes["wall_run_s"] = round(time.time() - t0, 1)


def _run(ctx, nh, scratch):
    rng = ctx.rng
    variant, facts = source_variant()
    ctx.notes["tree_under_test"] = REPO
    ctx.notes["model_variant_selected_by_source_facts"] = variant
    T = G.HistoryGen.TARGETED
    hists = [G.HistoryGen(rng, rng.randrange(15, 26), must=[T[(3 * h + j) % len(T)] for j in range(3)]).build() for h in range(nh)]

    # ---- 1. every history in ONE interpreter
    with ThreadPoolExecutor(max_workers=16) as ex:
        hrecs = list(ex.map(lambda a: run_history(a[1].calls, scratch, "h%d" % a[0]), enumerate(hists)))

    # ---- 2. every call first thing in a FRESH interpreter
    jobs = [(h, r["i"], r["pickled"]) for h, recs in enumerate(hrecs) for r in recs]      # pickled None: live objects
    with ThreadPoolExecutor(max_workers=16) as ex:
        fresh = list(ex.map(lambda j: run_fresh(j[2], scratch, "f%d_%d" % (j[0], j[1])), jobs))
    fresh = {(h, i): f for (h, i, _), f in zip(jobs, fresh)}
    # ---- 2b. every call that is handed objects built by earlier calls: again in a fresh interpreter that only
    #          rebuilds those objects (what did the calls in between do to them?)
    jobs2 = [(h, r["i"]) for h, recs in enumerate(hrecs) for r in recs
             if slot_refs(hists[h].calls[r["i"]]) or hists[h].meta[r["i"]].get("shared_data")]
    failed = [{r["i"] for r in recs if r["api"] == "writer_write" and r["res"]["st"] == "raised"} for recs in hrecs]
    with ThreadPoolExecutor(max_workers=16) as ex:
        reb = list(ex.map(lambda j: run_rebuilt(hists[j[0]].calls, j[1], scratch, "b%d_%d" % j, force=True, failed=failed[j[0]]), jobs2))
    rebuilt = dict(zip(jobs2, reb))

    # ---- 3. the model, call by call from the observed state
    hist_cells, hist_abs = [], []
    for h, (hg, recs) in enumerate(zip(hists, hrecs)):
        byi = {r["i"]: r for r in recs}
        hist_cells.append([(byi[k]["ctx_before"] if k in byi and byi[k]["ctx_before"] is not None else [28, 0, 0])
                           for k in range(len(hg.calls))])
        hist_abs.append([a if (a and (k in byi)) else "" for k, a in enumerate(hg.abstract)])
    ctx_present = any(r["ctx"] is not None for recs in hrecs for r in recs)
    ctx.notes["module_level_decimal_context_present"] = ctx_present
    model = model_segments(ctx, variant, hist_abs, hist_cells)

    # ---- 4. compare
    stats = dict(calls=0, raised=0, ok=0, unpredicted=0, decimal_reads=0, rounded_reads=0, by_api={}, o2=0,
                 prec_changes=0, raised_where_generator_expected_ok=0, raised_by={}, rebuilt_runs=0, model_returns_but_call_raised=0)
    minimised = set()
    for h, (hg, recs) in enumerate(zip(hists, hrecs)):
        leaked = None              # first cell outside the model's frame that an earlier call of this history changed
        modified = None            # first argument (other than the exempt ones) that an earlier call of this history modified
        for r in recs:
            k, api = r["i"], r["api"]
            call = hg.calls[k]
            res, fr = r["res"], fresh[(h, k)]
            stats["calls"] += 1
            stats["by_api"][api] = stats["by_api"].get(api, 0) + 1
            nontrivial = res["st"] == "ok"
            stats["ok" if nontrivial else "raised"] += 1
            if not nontrivial:
                kx = "%s:%s%s" % (api, res["val"], "" if hg.meta[k].get("expect") != "ok" else ":UNEXPECTED")
                stats["raised_by"][kx] = stats["raised_by"].get(kx, 0) + 1
            if hg.meta[k].get("expect") == "ok" and not nontrivial:
                stats["raised_where_generator_expected_ok"] += 1
            case_key = (h, k, (r["pickled"] or "")[:64], res["val"][:64] if isinstance(res["val"], str) else None)

            def case(extra=None):
                d = dict(history_index=h, call_index=k, api=api, call=describe(call),
                         history=[describe(c) for c in hg.calls[:k + 1]],
                         history_pickled=base64.b64encode(pickle.dumps(hg.calls[:k + 1], protocol=4)).decode())
                if extra:
                    d.update(extra)
                return d

            # corr:fresh-vs-history  (the property's predicate itself)
            ctx.count("corr:fresh-vs-history", case_key, nontrivial=nontrivial)
            rb = rebuilt.get((h, k))
            if rb is not None:
                stats["rebuilt_runs"] += 1
                if rb != res:
                    sig = "C17:result-differs-from-fresh-interpreter-with-rebuilt-arguments:%s" % (
                        ("state-leak-through:" + leaked) if leaked else
                        ("argument-modified-by-earlier-call:" + modified) if modified else api)
                    extra = dict(comparison="fresh interpreter running only the calls that build this call's argument objects, then this call",
                                 cell_changed_earlier_in_this_history=leaked, argument_modified_earlier_in_this_history=modified)
                    if sig not in minimised and len(minimised) < 2:
                        minimised.add(sig)
                        small = minimise(hg.calls[:k + 1], scratch, rebuilt=True)
                        extra["minimised_history"] = [describe(c) for c in small]
                        extra["history_pickled"] = base64.b64encode(pickle.dumps(small, protocol=4)).decode()
                        extra["call_index"] = len(small) - 1
                    ctx.violation("corr:fresh-vs-history", case(extra), impl=dict(after_history=res),
                                  model=dict(fresh_interpreter_rebuilt_arguments=rb), signature=sig, found_input=True)
            if fr is not None and fr != res:
                what = "exception-vs-value" if fr.get("st") != res.get("st") else (
                    "side-output" if fr.get("val") == res.get("val") else ("exception-class" if res["st"] == "raised" else "value"))
                sig = ("C17:state-leak-through:%s:result-differs-from-fresh-interpreter" % leaked) if leaked else (
                    "C17:%s:result-differs-from-fresh-interpreter" % api)
                extra = dict(difference=what, cell_changed_earlier_in_this_history=leaked)
                if sig not in minimised and len(minimised) < 2:
                    minimised.add(sig)
                    small = minimise(hg.calls[:k + 1], scratch)
                    extra["minimised_history"] = [describe(c) for c in small]
                    extra["history_pickled"] = base64.b64encode(pickle.dumps(small, protocol=4)).decode()
                    extra["call_index"] = len(small) - 1
                ctx.violation("corr:fresh-vs-history", case(extra),
                              impl=dict(after_history=res), model=dict(fresh_interpreter=fr), signature=sig, found_input=True)

            # corr:args-intact
            ctx.count("corr:args-intact", None, nontrivial=False)
            for name, before, after in r["args_changed"]:
                ctx.violation("corr:args-intact", case(dict(argument=name)), impl=dict(after_call=after), model=dict(before_call=before),
                              signature="C17:argument-modified:%s" % name, found_input=True)
                modified = modified or "%s(%s)" % (api, name)
            if r["args_observed"]:
                stats["o2"] += 1

            # corr:globals + corr:model-result
            ctx.count("corr:globals", None, nontrivial=False)
            m = model.get((h, k))
            changed = {kk: (a, b) for kk, a, b in r["globals_changed"]}
            for kk, (a, b) in changed.items():
                if kk in MODEL_CELLS and variant == "Current":
                    continue
                ctx.violation("corr:globals", case(dict(cell=kk)), impl=dict(before=a, after=b),
                              model="the model's frame: no API step writes this cell (variant %s)" % variant,
                              signature="C17:global-state-changed:%s" % kk.replace(LR_CTX, "decimal_context"),
                              found_input=False)
                leaked = leaked or kk.replace(LR_CTX, "decimal_context")
            if changed:
                stats["prec_changes"] += 1
            if m is None:
                if hg.abstract[k] is None:
                    stats["unpredicted"] += 1
                continue
            cells, decs = m
            if decs is not None and res["st"] == "raised":
                # the call raised where the model call says it returns (e.g. the tree under test rejects the schema at parse
                # time, or an object built by an earlier call is missing): how far it got is not predicted - other properties
                # (C03/C11/C16) own that question; the frame (no cell outside the model's) was still checked above
                if api in ("schemaless_reader", "reader", "json_reader") and hg.meta[k].get("decimals"):
                    stats["model_returns_but_call_raised"] += 1
                continue
            if r["ctx"] is not None and variant == "Current" and r["ctx"] != cells:
                ctx.violation("corr:globals", case(), impl=dict(decimal_context_prec_inexact_rounded=r["ctx"]),
                              model=dict(gstate_after=cells, abstract_call=hg.abstract[k]),
                              signature="C17:%s:decimal-context-differs-from-model" % api, found_input=False)
            if api in ("schemaless_reader", "reader", "json_reader") and hg.meta[k].get("decimals"):
                ctx.count("corr:model-result", (h, k, "dec"), nontrivial=decs is not None)
                stats["decimal_reads"] += 1
                got = impl_decimals(res)
                if decs is None:
                    okm = res["st"] == "raised"
                else:
                    okm = res["st"] == "ok" and got == decs
                    if any(len(str(c)) < len(str(abs(u))) for (_, c, _), (_, _, u) in zip(decs, _trace_of(hg.abstract[k]))):
                        stats["rounded_reads"] += 1
                if not okm:
                    ctx.violation("corr:model-result", case(), impl=dict(status=res["st"], decimals=got, value=res["val"][:300]),
                                  model=dict(decimals=decs if decs is not None else "raised", abstract_call=hg.abstract[k]),
                                  signature="C17:%s:decimal-value-differs-from-model" % api, found_input=False)
    # ---- notes
    ctx.notes["histories"] = len(hists)
    ctx.notes["input_distribution"] = stats
    ctx.notes["share_raised"] = round(stats["raised"] / max(1, stats["calls"]), 3)
    if stats["o2"]:
        ctx.notes["observation_O2"] = ("writer(..., metadata=md) added avro.schema/avro.codec to the caller's md in %d calls "
                                       "(metadata is neither schema nor data: recorded, not flagged)" % stats["o2"])
    if stats["model_returns_but_call_raised"] > 0.4 * max(20, stats["decimal_reads"] + stats["model_returns_but_call_raised"]):
        raise RuntimeError("model tie degenerate: %d predicted-returning calls raised" % stats["model_returns_but_call_raised"])
    if stats["raised"] > 0.45 * stats["calls"]:
        raise RuntimeError("generator degenerate: %d of %d calls raised" % (stats["raised"], stats["calls"]))
    hg, recs = hists[0], hrecs[0]
    for r in recs[:3]:
        ctx.sample(dict(api=r["api"], call=describe(hg.calls[r["i"]]), result=r["res"]["st"], fresh_equal=fresh[(0, r["i"])] == r["res"],
                        decimal_context=r["ctx"], model=hg.abstract[r["i"]]))


def differs_at_end(calls, scratch, tag, rebuilt=False):
    """does the LAST call of this history give a result different from its fresh-interpreter run?"""
    try:
        recs = run_history(calls, scratch, tag)
    except Exception:
        return False
    last = [r for r in recs if r["i"] == len(calls) - 1]
    if not last:
        return False
    if rebuilt:
        fl = {r["i"] for r in recs if r["api"] == "writer_write" and r["res"]["st"] == "raised"}
        rb = run_rebuilt(calls, len(calls) - 1, scratch, tag + "b", force=True, failed=fl)
        return rb is not None and rb != last[0]["res"]
    fr = run_fresh(last[0]["pickled"], scratch, tag + "f")
    return fr is not None and fr != last[0]["res"]


def minimise(calls, scratch, budget=22, rebuilt=False):
    """greedy removal of earlier calls while the last call still differs from its fresh run"""
    cur = list(calls)
    j = len(cur) - 2
    while j >= 0 and budget > 0:
        cand = cur[:j] + cur[j + 1:]
        budget -= 1
        if differs_at_end(cand, scratch, "min", rebuilt):
            cur = cand
        j -= 1
    return cur


def _trace_of(abstract):
    return [tuple(int(x.strip("()")) for x in m) for m in re.findall(r"mkDF (\(?-?\d+\)?) (\(?-?\d+\)?) (\(?-?\d+\)?)", abstract or "")]


def replay(ctx, rep):
    c = rep["case"]
    calls = pickle.loads(base64.b64decode(c["history_pickled"]))
    scratch = tempfile.mkdtemp(prefix="c17r.", dir=ctx.workdir)
    try:
        recs = run_history(calls, scratch, "rp")
        r = [x for x in recs if x["i"] == c["call_index"]][0]
        fr = run_fresh(r["pickled"], scratch, "rpf")
        fl = {x["i"] for x in recs if x["api"] == "writer_write" and x["res"]["st"] == "raised"}
        rb = run_rebuilt(calls, c["call_index"], scratch, "rpb", force=True, failed=fl)
        print("call:", json.dumps(describe(calls[c["call_index"]]))[:600])
        print("after history:", json.dumps(r["res"])[:500])
        print("fresh interpreter (same argument values):", json.dumps(fr)[:500])
        print("fresh interpreter (arguments rebuilt by the calls that built them):", json.dumps(rb)[:500])
        print("arguments modified:", [x[0] for x in r["args_changed"]], " global cells changed:", [x[0] for x in r["globals_changed"]])
        ok = (fr is None or fr == r["res"]) and (rb is None or rb == r["res"]) and not r["args_changed"]
        variant, _ = source_variant()
        extra = [x for x in r["globals_changed"] if not (x[0] in MODEL_CELLS and variant == "Current")]
        if rep.get("name") == "corr:globals":
            ok = ok and not extra
        return ok
    finally:
        shutil.rmtree(scratch, ignore_errors=True)
