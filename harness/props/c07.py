"""C07 - any history of write / flush / write_block / failed write / reopen-for-append reads back as the records submitted."""
import io, itertools, json
from .. import core, gallina as G, codec_common as CC, container_common as K, gen
from . import c04

SRCFACTS = ["container"]
RULE = ("histories = sequences over {write small / large (>= interval) / zero-byte conforming record, write a non-conforming record (a later "
        "field made None so earlier fields are already encoded when it raises), flush, write_block with a block of a donor file of any codec, "
        "flush + reopen the stream with a new Writer given arbitrary schema / codec / metadata / marker / interval arguments} applied to "
        "fastavro.write.Writer on BytesIO; quick: random histories up to 40 ops + the corpus of past failures; thorough: ALL histories of "
        "length <= 5 over the 7-op alphabet (19607) + random; compared after every op: the bytes on the stream (framing exact, payload after "
        "stdlib decompression) and the raised/ok status; after every flush: the list read back by fastavro.reader vs the submitted records; "
        "non-trivial = history with a flush after at least one successful submission; distinct by history")
TRUSTED = c04.TRUSTED
ASSUMPTIONS = ["appending is exercised on seekable in-memory streams and on real files opened a+b (corr:real-file-append)"]
PARTIAL = []

SCHEMAS = [
    {"type": "record", "name": "R", "fields": [{"name": "a", "type": "int"}, {"name": "b", "type": "string"}]},
    {"type": "record", "name": "Z", "fields": []},
    {"type": "record", "name": "ns.W", "fields": [{"name": "xs", "type": {"type": "array", "items": "long"}},
                                                   {"name": "u", "type": ["null", "string", {"type": "map", "values": "double"}]},
                                                   {"name": "e", "type": {"type": "enum", "name": "E", "symbols": ["A", "B"]}}]},
    "long", ["null", "string"], {"type": "array", "items": "null"},
    {"type": "record", "name": "X", "fields": [{"name": "a", "type": "int"}, {"name": "f", "type": "float"},
                                               {"name": "m", "type": {"type": "map", "values": "int"}}, {"name": "d", "type": "double"}]},
]
OTHER_SCHEMA = {"type": "record", "name": "Other", "fields": [{"name": "q", "type": "bytes"}]}
CORPUS = [  # minimised past failures (F3) and seeded defects (C07_1: rollback must not depend on the exception class)
    (0, ["w", "bad", "w", "flush"]),
    (6, ["w", "bad", "w", "flush"]), (6, ["w", "bad", "bad", "w", "bad", "w", "flush"]), (6, ["bad", "w", "bad", "w", "reopen", "bad", "w", "flush"]),
    (0, ["w", "bad", "flush", "w", "reopen", "w", "flush"]),
]


def mutate_bad(parsed, named, rec, rng=None):
    """a record whose LAST non-nullable, non-boolean field is None (None when the schema is not a record)"""
    s = CC.resolve(parsed, named)
    if isinstance(s, dict) and s.get("type") == "record" and isinstance(rec, dict) and rng is not None and rng.random() < 0.6:
        # failures of OTHER exception classes than TypeError/ValueError, after earlier fields were encoded
        exotic = []
        for i, f in enumerate(s["fields"]):
            ft = CC.resolve(f["type"], named)
            if i == 0:
                continue
            if ft == "float":
                exotic.append((f["name"], 1e40))                 # OverflowError: float too large to pack
            elif ft == "double":
                exotic.append((f["name"], 1 << 1100))            # OverflowError: int too large to convert to float
            elif isinstance(ft, dict) and ft.get("type") == "map":
                exotic.append((f["name"], [1, 2]))               # AttributeError: 'list' object has no attribute 'items'
        if exotic:
            k, v = rng.choice(exotic)
            r = dict(rec)
            r[k] = v
            return r
    if isinstance(s, dict) and s.get("type") == "record" and isinstance(rec, dict):
        for f in reversed(s["fields"]):
            ft = CC.resolve(f["type"], named)
            nullable = ft == "null" or (isinstance(ft, list) and "null" in ft) or ft == "boolean" or \
                (isinstance(ft, dict) and ft.get("type") in ("null", "boolean"))
            if not nullable:
                r = dict(rec)
                r[f["name"]] = None
                return r
        return None
    if s in ("long", "int", "string", "bytes") or (isinstance(s, dict) and s.get("type") in ("array", "map", "enum", "fixed")):
        return None if s != "null" else 5
    if isinstance(s, list) and "null" not in s:
        return None
    return "no-bad-record"


def build_history(rng, kinds, parsed, named, donor_blocks, si):
    ops = []
    dg = gen.DataGen(rng, named, hints=False, max_depth=3, big=False)
    for k in kinds:
        if k in ("w", "wl", "wz"):
            rec = dg.datum(parsed)
            if k == "wl" and isinstance(rec, dict) and "b" in rec:
                rec["b"] = "L" * max(1, min(si, 3000))
            ops.append(("write", rec))
        elif k == "bad":
            rec = dg.datum(parsed)
            bad = mutate_bad(parsed, named, rec, rng)
            if isinstance(bad, str) and bad == "no-bad-record":
                ops.append(("flush",))
            else:
                ops.append(("write", bad))
        elif k == "flush":
            ops.append(("flush",))
        elif k == "block":
            if donor_blocks:
                b = rng.choice(donor_blocks)
                ops.append(("block", b[0], b[1], b[2], b[3]))
            else:
                ops.append(("flush",))
        elif k == "reopen":
            ops.append(("reopen", rng.choice([1, 7, 50, 16000]), rng.choice([None, "other"]), rng.choice(K.CODECS),
                        rng.choice([None, {"x": "y"}])))
    return ops


def make_donor(rng, raw, parsed, named):
    import fastavro
    out = []
    for codec in K.CODECS:
        try:
            recs = K.gen_records(rng, parsed, named, rng.choice([1, 2, 4]))
            fo = io.BytesIO()
            fastavro.writer(fo, parsed, recs, codec=codec, sync_interval=rng.choice([1, 16000]))
            fo.seek(0)
            for blk in fastavro.block_reader(fo):
                raw_bytes = blk.bytes_.getvalue()
                recs_in_block = list(blk)                 # iterating consumes the block's stream; write_block uses getvalue()
                out.append((blk.num_records, raw_bytes, blk, recs_in_block))
        except Exception:
            continue
    return out


SHADOW_SCHEMA = {"type": "record", "name": "ShadowRec", "fields": [{"name": "i", "type": "long"}, {"name": "t", "type": "string"}]}
SHADOW_RESULT = []


def rng_shadow_interval(n):
    return [1, 40, 16000][n % 3]


def run_impl(raw, parsed, codec, si0, sync, ops, meta0=None):
    """returns list of (status, stream bytes after the op)"""
    import fastavro
    from fastavro.write import Writer
    fo = io.BytesIO()
    w = Writer(fo, parsed, codec=codec, sync_interval=si0, sync_marker=sync, metadata=(dict(meta0) if meta0 is not None else None))
    hdr = fo.getvalue()
    trace = []
    # a second, unrelated writer is alive on another stream during the whole history and is fed one record per operation:
    # neither stream may see anything of the other (records pending in one writer are that writer's own)
    fo2 = io.BytesIO()
    shadow = Writer(fo2, SHADOW_SCHEMA, codec="null", sync_interval=rng_shadow_interval(len(ops)))
    SHADOW_RESULT.clear()
    for k, op in enumerate(ops):
        try:
            shadow.write({"i": k, "t": "shadow"})
        except Exception as e:
            SHADOW_RESULT.append("shadow write raised " + type(e).__name__)
        st = "ok"
        try:
            if op[0] == "write":
                w.write(op[1])
            elif op[0] == "flush":
                w.flush()
            elif op[0] == "block":
                w.write_block(op[3])
            elif op[0] == "reopen":
                w.flush()
                # the stream may have been read in between: any non-zero position must do (the writer seeks to the end)
                end = fo.tell()
                fo.seek([end, 1, min(end, len(hdr)), max(1, end // 2), max(1, end - 3)][op[1] % 5])
                w = Writer(fo, OTHER_SCHEMA if op[2] == "other" else raw, codec=op[3], sync_interval=op[1],
                           metadata=(dict(op[4]) if op[4] else None), sync_marker=b"\x07" * 16)
        except Exception as e:
            st = "raised"
        trace.append((st, fo.getvalue()))
    try:
        w.flush()
    except Exception:
        pass
    try:
        shadow.flush()
        t2, out2 = K.impl_read_file(fo2.getvalue())
        if not t2.endswith("|END") or out2 != [{"i": k, "t": "shadow"} for k in range(len(ops))]:
            SHADOW_RESULT.append("the other writer's file reads back as %s" % t2[:300])
    except Exception as e:
        SHADOW_RESULT.append("shadow flush raised " + type(e).__name__)
    return hdr, trace, fo.getvalue()


def model_ops(ops):
    out = []
    for op in ops:
        if op[0] == "block":
            out.append(("block", op[1], op[2]))
        elif op[0] == "reopen":
            out.append(("reopen", op[1]))
        else:
            out.append(op)
    return out


def real_file_family(ctx):
    """corr:real-file-append: histories on REAL files opened in append mode ("a+b"), including a path that is re-created with
    another schema / codec / marker and appended to again: after every session the file reads back as the records submitted
    to THAT file, and every block ends with the marker its own header announces (independent splitter)."""
    import fastavro, os, tempfile, shutil
    rng = ctx.rng
    A = fastavro.parse_schema({"type": "record", "name": "FileA", "fields": [{"name": "a", "type": "long"}, {"name": "s", "type": "string"}]})
    B = fastavro.parse_schema({"type": "record", "name": "FileB", "fields": [{"name": "b", "type": ["null", "double"]}, {"name": "k", "type": "bytes"}]})
    d = tempfile.mkdtemp(prefix="c07f_", dir=ctx.workdir)
    try:
        for it in range(4 if ctx.quick() else 60):
            path = os.path.join(d, "data_%d.avro" % (it % 2))          # two paths, each re-created several times
            expect, sessions = [], []
            for gen_i in range(rng.choice([2, 3])):                    # generations of the file at this path
                schema = [A, B][(it + gen_i) % 2]
                mk = (lambda i: {"a": i, "s": "r%d" % i}) if schema is A else (lambda i: {"b": [None, i / 2][i % 2], "k": bytes([i % 256]) * (i % 4)})
                codec, marker = rng.choice(K.CODECS), bytes(rng.randrange(256) for _ in range(16))
                expect = []
                for sess in range(rng.choice([1, 2, 3])):
                    recs = [mk(rng.randrange(1000)) for _ in range(rng.choice([0, 1, 3, 20]))]
                    mode = "wb" if sess == 0 else "a+b"
                    kw = dict(codec=codec, sync_marker=marker) if sess == 0 else \
                        dict(codec=rng.choice(K.CODECS), sync_marker=rng.choice([None, bytes(16), b"\x09" * 16]), sync_interval=rng.choice([1, 100, 16000]))
                    kw = {k: v for k, v in kw.items() if v is not None}
                    sessions.append((path, mode, codec, len(recs)))
                    try:
                        with open(path, mode) as fo:
                            fastavro.writer(fo, schema, recs, **kw)
                    except Exception as e:
                        ctx.violation("corr:real-file-append", dict(real_file=True, sessions=repr(sessions)), impl="writer raised " + type(e).__name__ + ": " + str(e)[:200],
                                      model="appends", signature="C07:real-file:append-raises", found_input=True)
                        return
                    expect += recs
                    data = open(path, "rb").read()
                    t, out = K.impl_read_file(data)
                    ctx.count("corr:real-file-append", (it, gen_i, sess), nontrivial=bool(expect))
                    ok = t.endswith("|END") and out == expect
                    why = "" if ok else "reads back as %s, expected %d records" % (t[-60:], len(expect))
                    if ok:
                        try:
                            hl, meta, sync = K.split_header(data)
                            blocks = K.split_blocks(data, hl)
                            cname = meta.get(b"avro.codec", meta.get("avro.codec", b"null"))
                            cname = cname.decode() if isinstance(cname, bytes) else cname
                            if sync != marker or cname != codec or any(b[2] != sync for b in blocks):
                                ok, why = False, "header or block markers are not those the file was created with"
                        except Exception as e:
                            ok, why = False, "independent splitter failed: " + type(e).__name__
                    if not ok:
                        ctx.violation("corr:real-file-append", dict(real_file=True, sessions=repr(sessions)), impl=why, model="records submitted to this file, in order; header kept",
                                      signature="C07:real-file:append-does-not-read-back-as-submitted", found_input=True)
                        return
        # ---- a Writer on a real BUFFERED file, observed through a second handle after every flush (also flushes with nothing
        # pending: header only, after a write that itself crossed the interval, after write_block, after an append reopen)
        from fastavro.write import Writer
        donor = io.BytesIO()
        fastavro.writer(donor, A, [{"a": 900, "s": "donor"}], codec="null")
        donor.seek(0)
        donor_block = next(iter(fastavro.block_reader(donor)))
        for it in range(3 if ctx.quick() else 40):
            path = os.path.join(d, "live_%d.avro" % it)
            si = rng.choice([1, 30, 16000])
            fo = open(path, "wb")
            w = Writer(fo, A, codec=rng.choice(K.CODECS), sync_interval=si)
            submitted, steps_done = [], []

            def observe(label):
                steps_done.append(label)
                data = open(path, "rb").read()
                t, out = K.impl_read_file(data)
                ctx.count("corr:real-file-live", (it, len(steps_done)), nontrivial=bool(submitted))
                if not t.endswith("|END") or out != submitted:
                    ctx.violation("corr:real-file-live", dict(real_file=True, live=True, sync_interval=si, steps=list(steps_done)),
                                  impl="after %s the file on disk reads back as %s (%d records), submitted %d" % (label, t[-40:], len(out), len(submitted)),
                                  model="after each flush the file reads back as the records submitted so far",
                                  signature="C07:real-file:flush-does-not-reach-the-file", found_input=True)
                    return False
                return True
            try:
                w.flush()
                good = observe("flush (header only)")
                for k in range(rng.choice([2, 4])):
                    if not good:
                        break
                    r = {"a": k, "s": "x" * rng.choice([1, 40])}
                    w.write(r); submitted.append(r)
                    w.flush()
                    good = observe("write + flush") and (w.flush() or True) and observe("second flush, nothing pending")
                if good:
                    w.write_block(donor_block); submitted.append({"a": 900, "s": "donor"})
                    w.flush()
                    good = observe("write_block + flush")
                if good:
                    big = {"a": 7, "s": "B" * 200}
                    w.write(big); submitted.append(big)       # crosses the interval when si <= 200: dumped by write itself
                    w.flush()
                    good = observe("large write + flush")
            finally:
                fo.close()
            if not good:
                return
    finally:
        shutil.rmtree(d, ignore_errors=True)


def run(ctx):
    import fastavro
    rng = ctx.rng
    quick = ctx.quick()
    real_file_family(ctx)
    parsed_pool = []
    for raw in SCHEMAS:
        named = {}
        parsed = fastavro.parse_schema(json.loads(json.dumps(raw)), named)
        parsed_pool.append((raw, parsed, named, make_donor(rng, raw, parsed, named)))
    alphabet = ["w", "wl", "wz", "bad", "flush", "block", "reopen"]
    plans = [(si, ks) for si, ks in CORPUS]
    for _ in range(140 if quick else 3000):
        plans.append((rng.randrange(len(parsed_pool)), [rng.choice(alphabet) for _ in range(rng.choice([3, 6, 10, 20, 40]))]))
    if not quick:
        for L in range(1, 6):
            for ks in itertools.product(alphabet, repeat=L):
                plans.append((0, list(ks)))
        ctx.notes["exhaustive_histories_upto_length"] = 5
    jobs, exprs = [], []
    for pi, kinds in plans:
        raw, parsed, named, donors = parsed_pool[pi]
        codec = rng.choice(K.CODECS)
        si0 = rng.choice([1, 5, 40, 16000])
        sync = bytes(rng.randrange(256) for _ in range(16))
        try:
            ops = build_history(rng, kinds, parsed, named, donors, si0)
        except (gen.TooDeep, RecursionError):
            continue
        # metadata given at creation: none, plain user entries, or a dict that ALREADY carries avro.* entries (reused from an
        # earlier writer, which stores its header entries into the caller's dict, or copied from a donor's reader.metadata):
        # the header must state the codec and schema actually used
        other = rng.choice([c for c in K.CODECS if c != codec])
        meta0 = rng.choice([None, None, {"k": "v"}, {"avro.codec": other, "note": "copied"},
                            {"avro.codec": other, "avro.schema": '"long"', "z": ""}])
        em = K.expected_meta(parsed, codec, meta0)
        exprs.append(K.expr_history(parsed, named, em, sync, si0, model_ops(ops) + [("flush",)]))
        jobs.append(dict(raw=raw, parsed=parsed, named=named, codec=codec, si=si0, sync=sync, ops=ops, kinds=kinds, meta0=meta0))
    model = CC.run_model(ctx, exprs, "c07h")
    rex, rmeta = [], []
    for j, m in zip(jobs, model):
        hdr_m, steps = K.parse_history(m)
        if any(st in ("U", "FUEL") for st, _ in steps):
            ctx.notes["model_unspecified_histories"] = ctx.notes.get("model_unspecified_histories", 0) + 1
            continue
        hdr_i, trace, final = run_impl(j["raw"], j["parsed"], j["codec"], j["si"], j["sync"], j["ops"], j.get("meta0"))
        case = dict(schema=j["raw"], codec=j["codec"], sync_interval=j["si"], sync=j["sync"].hex(), kinds=j["kinds"], metadata_at_creation=j.get("meta0"),
                    ops=[(o[0],) + tuple(repr(x)[:200] for x in o[1:3]) for o in j["ops"]])
        if SHADOW_RESULT:
            ctx.violation("corr:writer-trace", case, impl="; ".join(SHADOW_RESULT)[:600], model="a second writer on another stream is unaffected",
                          signature="C07:history:two-writers-alive:streams-interfere", found_input=True)
        nsub = sum(1 for (st, _), o in zip(steps, j["ops"]) if o[0] in ("write", "block") and st == "ok")
        ctx.count("corr:writer-trace", (repr(j["raw"]), repr(j["ops"])[:3000], j["codec"], j["si"]),
                  nontrivial=nsub > 0)
        cum = hdr_m
        bad = None
        for i, ((st_m, app), (st_i, stream)) in enumerate(zip(steps, trace)):
            cum += app
            if st_m != st_i:
                bad = (i, "status: implementation %s, model %s" % (st_i, st_m))
                break
            try:
                if K.to_null(stream, j["codec"]) != cum:
                    bad = (i, "stream bytes after the operation differ")
                    break
            except Exception as e:
                bad = (i, "stream is not a sequence of whole blocks after the operation (%s)" % type(e).__name__)
                break
            if stream[:len(hdr_i)] != hdr_i:
                bad = (i, "header changed")
                break
        if bad is None:
            cum += steps[-1][1]          # the final flush
            try:
                if K.to_null(final, j["codec"]) != cum:
                    bad = (len(trace), "stream bytes after the final flush differ")
            except Exception:
                bad = (len(trace), "final stream not framable")
        # the statement itself on the implementation: after the final flush the stream reads back as the submitted records
        t, out = K.impl_read_file(final)
        expect = []
        for (st_i, _), o in zip(trace, j["ops"]):
            if o[0] == "write" and st_i == "ok":
                expect.append(("w", o[1]))
            elif o[0] == "block" and st_i == "ok":
                expect.extend(("d", r) for r in o[4])
        holds = t.endswith("|END") and len(out) == len(expect) and all(
            (CC.norm_equiv(x, o, j["parsed"], j["named"]) if k == "w" else G.show_py(x) == G.show_py(o)) for (k, x), o in zip(expect, out))
        if not holds:
            sig = "C07:writer:failed-write-leaves-partial-record" if "bad" in j["kinds"] and not t.endswith("|END") or \
                ("bad" in j["kinds"] and len(out) == len(expect)) else "C07:history:stream-does-not-read-back-as-submitted"
            ctx.violation("corr:writer-trace", case, impl=t[:800], model="%d submitted records, END" % len(expect), signature=sig,
                          found_input=True, detail=str(bad))
        elif bad is not None:
            ctx.violation("corr:writer-trace", case, impl=bad[1], model="op %d" % bad[0], signature="C07:model-differs", found_input=False)
        elif rng.random() < (0.5 if quick else 0.1):
            try:
                rex.append(K.expr_readfile(j["parsed"], j["named"], K.to_null(final, j["codec"])))
                rmeta.append((case, t))
            except Exception:
                pass
    rmodel = CC.run_model(ctx, rex, "c07r")
    for (case, t), m in zip(rmeta, rmodel):
        ctx.count("corr:read-back", repr(case)[:2000], nontrivial=True)
        if G.canon_model_text(t) != m:
            ctx.violation("corr:read-back", case, impl=t[:800], model=m[:800], signature="C07:model-differs", found_input=False)
    ctx.notes["histories"] = len(jobs)
    ctx.notes["op_histogram"] = {k: sum(j["kinds"].count(k) for j in jobs) for k in alphabet}
    for j in jobs[2:200:70]:
        ctx.sample(dict(schema=j["raw"], codec=j["codec"], sync_interval=j["si"], history=j["kinds"]))


def replay(ctx, rep):
    print("history:", rep["case"].get("kinds"))
    print("re-run ./check C07 with the same seed: histories are regenerated deterministically from it; the corpus holds the minimised F3 history")
    import fastavro
    from fastavro.write import Writer
    s = fastavro.parse_schema(SCHEMAS[0])
    fo = io.BytesIO()
    w = Writer(fo, s)
    w.write({"a": 1, "b": "x"})
    try:
        w.write({"a": 7, "b": None})
    except Exception:
        pass
    w.write({"a": 2, "b": "y"})
    w.flush()
    t, out = K.impl_read_file(fo.getvalue())
    print(t)
    return out == [{"a": 1, "b": "x"}, {"a": 2, "b": "y"}]
