"""C13 - canonical form equals the specification's transformation; fixed point; invariant under cosmetic edits."""
import copy, json
from .. import core, schemagen as sg

SRCFACTS = ["schema"]
RULE = ("schemas from harness/schemagen.py (all 8 primitives in string and dict form, records with 0-6 fields and defaults of "
        "every kind, aliases, doc, order, enums +/- default, fixed, arrays, maps, spec-valid unions, backward and recursive "
        "references, nested / dotted / explicit empty / null namespaces, logical types incl. decimal, custom attributes) and, "
        "for each, a cosmetic rewrite (1-3 edits among doc, aliases, default, order, custom attribute, logicalType, attribute "
        "order, namespace+name vs dotted name, namespace inherited vs spelled out, reference spelling) at random positions; "
        "the Apache vectors of tests/test_canonical_form.py; non-trivial = distinct schema with at least one named type or "
        "one composite node")
TRUSTED = ["json.loads/json.dumps are the standard library's (used only to re-read the canonical text for the fixed-point check)",
           "harness/schemagen.py to_coq: syntactic printing of a Python JSON value as a Gallina term"]
ASSUMPTIONS = ["all text (names, symbols, doc, attribute keys and string values) is printable ASCII without double quote and "
               "backslash, so that Python's f-string printing, json.dumps and the model's naive printer agree; the canonical "
               "form of schemas whose names need JSON escapes is outside the model",
               "name is a string, namespace a string or null, symbols and fields are lists, size is an int, no duplicate keys",
               "the same-encoding clause is a theorem about the codec model (C13_same_encoding); on the implementation it is "
               "exercised on (schema, cosmetic rewrite) pairs with generated data (thm:same-encoding-impl)"]
PARTIAL = ["C13_same_encoding is proved for all values (typed / wire / dec of model/Codec.v through model/Bridge.v) for two raw "
           "schemas in simple_raw with the same canonical JSON (pcf_json) parsed from scratch; the canonical forms are compared "
           "as JSON values, not as printed text (injectivity of the printer is not proved); that the bridge is defined on the "
           "parses is a hypothesis (validated by corr:bridge on every run)",
           "C13_spec / C13_cosmetic / C13_fixed_point are stated for the class simple_raw (field names are strings, fixed "
           "sizes are integers, input not marked as already parsed) and C13_fixed_point for ns_closed (no null-namespace "
           "type nested in a non-null namespace; outside it the statement is false: C13_fixed_point_refuted, known "
           "finding K2); every generated schema is checked to be in simple_raw"]

IMPORTS = ("From Coq Require Import String.\n"
           "From FA Require Import model.Base model.Json model.Parse model.Canon model.Piecewise.\n")


def impl_canon(schema):
    from fastavro.schema import to_parsing_canonical_form
    from fastavro._schema_common import SchemaParseException, UnknownType
    try:
        return "ok:" + core.with_timeout(lambda: to_parsing_canonical_form(copy.deepcopy(schema)), 10)
    except SchemaParseException:
        return "parse"
    except UnknownType as e:
        return "unknown:" + (e.name if isinstance(e.name, str) else "<dict>")
    except core.Timeout:
        return "timeout"
    except Exception as e:
        return "other"


def case(s, **kw):
    """replay files keep the exact JSON text (floats survive)"""
    return dict(schema=s, schema_json=json.dumps(s), **kw)


def unhex(h):
    return None if h is None else bytes.fromhex(h).decode("latin-1")


APACHE = [
    ("null", '"null"'), ({"type": "null"}, '"null"'), ("boolean", '"boolean"'), ({"type": "boolean"}, '"boolean"'),
    ("int", '"int"'), ({"type": "int"}, '"int"'), ("long", '"long"'), ({"type": "long"}, '"long"'),
    ("float", '"float"'), ({"type": "float"}, '"float"'), ("double", '"double"'), ({"type": "double"}, '"double"'),
    ("bytes", '"bytes"'), ({"type": "bytes"}, '"bytes"'), ("string", '"string"'), ({"type": "string"}, '"string"'),
    ([], "[]"), (["null"], '["null"]'), (["null", "boolean"], '["null","boolean"]'),
    ({"type": "array", "items": "boolean"}, '{"type":"array","items":"boolean"}'),
    ({"type": "map", "values": "boolean"}, '{"type":"map","values":"boolean"}'),
    ({"type": "enum", "name": "foo", "symbols": ["A1"]}, '{"name":"foo","type":"enum","symbols":["A1"]}'),
    ({"namespace": "x.y.z", "type": "enum", "name": "a.b.foo", "symbols": ["A1"]}, '{"name":"a.b.foo","type":"enum","symbols":["A1"]}'),
    ({"name": "foo", "type": "fixed", "size": 15}, '{"name":"foo","type":"fixed","size":15}'),
    ({"namespace": "x.y.z", "type": "fixed", "name": "foo", "doc": "foo bar", "size": 32}, '{"name":"x.y.z.foo","type":"fixed","size":32}'),
    ({"size": 32, "namespace": "x.y.z", "type": "fixed", "name": "a.b.foo", "doc": "foo bar"}, '{"name":"a.b.foo","type":"fixed","size":32}'),
    ({"type": "record", "name": "foo", "fields": []}, '{"name":"foo","type":"record","fields":[]}'),
    ({"namespace": "x.y", "type": "record", "name": "foo", "fields": [{"name": "f1", "type": "boolean"}]},
     '{"name":"x.y.foo","type":"record","fields":[{"name":"f1","type":"boolean"}]}'),
    ({"fields": [{"type": "boolean", "aliases": [], "name": "f1", "default": True}, {"order": "descending", "name": "f2", "doc": "Hello", "type": "int"}],
      "type": "record", "name": "foo"}, '{"name":"foo","type":"record","fields":[{"name":"f1","type":"boolean"},{"name":"f2","type":"int"}]}'),
    ({"type": "record", "name": "foo", "fields": [{"name": "f1", "type": {"type": "enum", "name": "e", "symbols": ["A"]}}]},
     '{"name":"foo","type":"record","fields":[{"name":"f1","type":{"name":"e","type":"enum","symbols":["A"]}}]}'),
    ({"type": "record", "name": "ns.foo", "fields": [{"name": "f1", "type": {"type": "record", "name": "bar", "fields": []}},
                                                      {"name": "f2", "type": "bar"}, {"name": "f3", "type": ["null", "ns.foo"]}]},
     '{"name":"ns.foo","type":"record","fields":[{"name":"f1","type":{"name":"ns.bar","type":"record","fields":[]}},{"name":"f2","type":"ns.bar"},{"name":"f3","type":["null","ns.foo"]}]}'),
]


def nontrivial(s):
    return not (isinstance(s, str) or (isinstance(s, dict) and s.get("type") in sg.PRIMS))


def run(ctx):
    rng = ctx.rng
    n = 700 if ctx.quick() else 20000
    cases = []     # (schema, rewrite, edits)
    stats = {}
    edit_hist = {}
    for i in range(n):
        s, g = sg.gen_schema(rng, int_float_defaults=False)
        s2, edits = sg.cosmetic(rng, s, g)
        for k, v in g.stats.items():
            stats[k] = stats.get(k, 0) + v
        for e in edits:
            edit_hist[e] = edit_hist.get(e, 0) + 1
        cases.append((s, s2, edits))
    for a, c in APACHE:
        cases.append((a, a, []))
    # fixed corpus: null-namespace types ("namespace": "" / null) nested in a namespaced type, their children, later references
    for c in sg.NULL_NS_CORPUS:
        cases.append((c, c, []))
    # large fixed sizes (INTEGERS rule: plain decimal, no exponent), alone and nested
    for size in (999999, 1000000, 1000001, 12345678, 2 ** 31 - 1, 10 ** 9):
        c = {"type": "fixed", "name": "n.Big", "size": size}
        cases.append((c, c, []))
        c = {"type": "record", "name": "R", "fields": [{"name": "f", "type": ["null", {"type": "fixed", "name": "Big", "size": size}]}]}
        cases.append((c, c, []))
    # witness of the fixed-point defect, re-run on every run
    w = {"type": "record", "name": "a.P", "fields": [{"name": "f", "type": {"type": "fixed", "name": "R", "namespace": "", "size": 1}}]}
    cases.append((w, w, []))

    # model: canon(parse j) and pcf j for both members of every pair
    exprs = []
    for s, s2, edits in cases:
        t1, t2 = sg.to_coq(s), sg.to_coq(s2)
        exprs += ["show_canon " + t1, "show_pcf " + t1, "show_canon " + t2, "show_pcf " + t2]
    model = [unhex(x) for x in core.coq_eval(exprs, IMPORTS, ctx.workdir, tag="canon", shard=240 if ctx.quick() else 400)]
    # hypotheses of the theorems on the generated schemas: simple_raw (C13_spec, C13_cosmetic) must hold for every
    # schema and rewrite; ns_closed is the class in which the fixed point is proved
    cls_exprs = []
    for s, s2, edits in cases:
        t1, t2 = sg.to_coq(s), sg.to_coq(s2)
        cls_exprs += ["show_simple " + t1, "show_simple " + t2, "show_closed " + t1, "show_simple (pcf_json %s)" % t1]
    classes = core.coq_eval(cls_exprs, IMPORTS, ctx.workdir, tag="cls", shard=400)

    both_raise = 0
    nclosed = 0
    for i, (s, s2, edits) in enumerate(cases):
        mc1, mp1, mc2, mp2 = model[4 * i:4 * i + 4]
        simple1, simple2, closed1, simple_c = classes[4 * i:4 * i + 4]
        if simple1 != "true" or simple2 != "true" or (mc1.startswith("ok:") and simple_c != "true"):
            ctx.violation("hyp:simple_raw", case(s, rewrite=s2, rewrite_json=json.dumps(s2)), impl=None,
                          model=[simple1, simple2, simple_c],
                          signature="C13:harness:generated-schema-outside-simple_raw", found_input=False)
        nclosed += closed1 == "true"
        r1, r2 = impl_canon(s), impl_canon(s2)
        ctx.count("corr:canon", json.dumps(s, sort_keys=True) if nontrivial(s) else None, nontrivial=nontrivial(s))
        ctx.count("corr:canon", json.dumps(s2, sort_keys=True) if edits and nontrivial(s2) else None, nontrivial=bool(edits))
        for sch, r, mc, mp in ((s, r1, mc1, mp1), (s2, r2, mc2, mp2)):
            if r != mc:
                # the model of the code and the code differ
                spec_says = "ok:" + mp
                ctx.violation("corr:canon", case(sch), impl=r, model=mc,
                              signature="C13:to_parsing_canonical_form:differs-from-model:" + ("spec-agrees-with-model" if mc == spec_says else "spec-differs-too"),
                              found_input=(r != spec_says))      # the code differs from the specification's form on this concrete schema
            elif r.startswith("ok:") and r[3:] != mp:
                # code == model of the code, but both differ from the specification's transformation
                ctx.violation("corr:canon", case(sch), impl=r, model="ok:" + mp,
                              signature="C13:to_parsing_canonical_form:differs-from-spec-rules")
        if not r1.startswith("ok:"):
            both_raise += 1
            continue
        # invariance under the cosmetic rewrite
        if edits:
            ctx.count("pred:cosmetic", (json.dumps(s, sort_keys=True), json.dumps(s2, sort_keys=True)))
            if r2.startswith("ok:") and r2 != r1:
                ctx.violation("pred:cosmetic", case(s, rewrite=s2, rewrite_json=json.dumps(s2), edits=edits), impl=[r1, r2], model=[mc1, mc2],
                              signature="C13:to_parsing_canonical_form:cosmetic-edit-changes-canonical-form:" + "+".join(sorted(set(edits))))
            elif not r2.startswith("ok:"):
                ctx.violation("pred:cosmetic", case(s, rewrite=s2, rewrite_json=json.dumps(s2), edits=edits), impl=[r1, r2], model=[mc1, mc2],
                              signature="C13:harness:cosmetic-rewrite-rejected", found_input=False)
        # fixed point: the canonical text, read back, canonicalises to itself
        text = r1[3:]
        ctx.count("pred:fixed-point", text, nontrivial=nontrivial(s))
        try:
            back = json.loads(text)
        except Exception as e:
            ctx.violation("pred:fixed-point", case(s, canonical=text), impl="not JSON: %s" % e, model=None,
                          signature="C13:to_parsing_canonical_form:output-not-json")
            continue
        r3 = impl_canon(back)
        if r3 != r1 or closed1 == "true":
            ctx.count("pred:fixed-point-in-ns_closed", text, nontrivial=nontrivial(s))
        if r3 != r1:
            null_ns_nested = closed1 != "true"       # outside the class in which C13_fixed_point is proved
            ctx.violation("pred:fixed-point", case(s, canonical=text), impl=r3, model=r1,
                          signature="C13:to_parsing_canonical_form:fixed-point:" +
                                    ("null-namespace-type-nested-in-namespaced-record" if null_ns_nested else "other"))
    run_piecewise(ctx)
    run_bridge(ctx, [s for s, s2, e in cases[:(400 if ctx.quick() else 6000)]])
    run_same_encoding(ctx, [(s, s2, e) for s, s2, e in cases if e][:(120 if ctx.quick() else 6000)])
    ctx.notes["generator"] = stats
    ctx.notes["cosmetic_edits"] = edit_hist
    ctx.notes["rejected_schemas"] = both_raise
    ctx.notes["schemas_in_ns_closed"] = nclosed
    if both_raise * 10 > len(cases) * 3:
        raise RuntimeError("generator broken: %d of %d schemas rejected" % (both_raise, len(cases)))
    for s, s2, edits in cases[:3]:
        ctx.sample(dict(schema=s, rewrite=s2, edits=edits, canonical=impl_canon(s)))


SAME_IMPORTS = ("From Coq Require Import String.\n"
                "From FA Require Import model.Base model.Value model.Schema model.Json model.Parse model.Canon model.Bridge "
                "proofs.SameEncodingProofs.\n")
BRIDGE_IMPORTS = ("From Coq Require Import String.\n"
                  "From FA Require Import model.Base model.Value model.Schema model.Json model.Parse model.Canon model.Bridge.\n")


def run_bridge(ctx, schemas):
    """corr:bridge: the Python printer harness/gallina.py schema_to_coq / env_to_coq (the glue every codec check uses to
    hand fastavro's parsed schema to the model) against the in-Coq bridge schema_of_json / env_of_table applied to the
    MODEL's parse output: the two terms must be equal (schema_eqb, env_eqb evaluated inside Coq)."""
    from fastavro.schema import parse_schema
    from .. import gallina
    todo = []
    for s in schemas:
        named = {}
        try:
            parsed = parse_schema(copy.deepcopy(s), named)
            ts, te = gallina.schema_to_coq(parsed), gallina.env_to_coq(named)
        except Exception:
            continue
        todo.append((s, "show_bool (bridge_check %s %s %s)" % (sg.to_coq(s), ts, te)))
    exprs = []
    for s, e in todo:
        # same_encoding_check: the hypothesis C13_same_encoding_partial leaves open (equal erased tables), evaluated
        exprs += [e, "show_bool (same_encoding_check %s)" % sg.to_coq(s), "show_closed %s" % sg.to_coq(s)]
    out = core.coq_eval(exprs, BRIDGE_IMPORTS, ctx.workdir, tag="bridge", shard=90 if ctx.quick() else 300)
    for i, (s, e) in enumerate(todo):
        m, same, closed = out[3 * i:3 * i + 3]
        ctx.count("corr:bridge", json.dumps(s, sort_keys=True), nontrivial=nontrivial(s))
        if m != "true":
            ctx.violation("corr:bridge", case(s), impl="harness/gallina.py schema_to_coq(fastavro.parse_schema(s))", model=m,
                          signature="C13:harness:gallina-printer-differs-from-bridge", found_input=False)
        if closed == "true":
            ctx.count("thm:same-encoding-instance", None, nontrivial=False)
            if same != "true":
                ctx.violation("thm:same-encoding-instance", case(s), impl=None, model=same,
                              signature="C13:model:same-encoding-check-false", found_input=False)


def run_same_encoding(ctx, pairs):
    """thm:same-encoding-impl (C13_same_encoding on the implementation): a schema and its cosmetic rewrite have the same
    canonical form, so they must accept the same data, write the same bytes and read each other's bytes to the same
    value.  Model side: same_canon_check (all hypotheses of the theorem, computed) on the same pairs."""
    import io, random
    import fastavro
    from fastavro.schema import parse_schema, to_parsing_canonical_form
    from .. import gen
    exprs = ["show_bool (same_canon_hyps %s %s)" % (sg.to_coq(a), sg.to_coq(b)) for a, b, e in pairs]
    hyps = core.coq_eval(exprs, SAME_IMPORTS, ctx.workdir, tag="sameenc", shard=90 if ctx.quick() else 300)
    data_rng = random.Random(ctx.seed + 5)
    holds = 0
    for (a, b, edits), h in zip(pairs, hyps):
        key = json.dumps([a, b], sort_keys=True)
        ctx.count("thm:same-encoding-impl", key, nontrivial=nontrivial(a))
        try:
            na, nb = {}, {}
            pa, pb = parse_schema(copy.deepcopy(a), na), parse_schema(copy.deepcopy(b), nb)
            if to_parsing_canonical_form(pa) != to_parsing_canonical_form(pb):
                continue                      # reported by pred:cosmetic
        except Exception:
            continue
        if h == "true":
            holds += 1
        else:
            continue                          # outside the theorem's hypotheses (counted in the notes)
        if "default" in edits or "logicalType" in edits:
            continue          # generated data may omit defaulted fields (filling them in is elaboration, not encoding); a
                              # logicalType changes the Python-level value (datetime vs int), not the bytes: layers above the codec
        dg = gen.DataGen(data_rng, dict(na), hints=False)
        for _ in range(2):
            try:
                d = dg.datum(pa)
            except Exception:
                break

            def enc(schema):
                fo = io.BytesIO(); fastavro.schemaless_writer(fo, schema, d); return fo.getvalue()

            def attempt(fn):
                try:
                    return ("ok", fn())
                except Exception as ex:
                    return ("raised", type(ex).__name__)
            wa, wb = attempt(lambda: enc(pa)), attempt(lambda: enc(pb))
            ok = wa == wb
            ra = rb = None
            if ok and wa[0] == "ok":
                ra = attempt(lambda: repr(fastavro.schemaless_reader(io.BytesIO(wa[1]), pa)))
                rb = attempt(lambda: repr(fastavro.schemaless_reader(io.BytesIO(wa[1]), pb)))
                ok = ra == rb
            if not ok:
                ctx.violation("thm:same-encoding-impl", dict(schema=a, schema_json=json.dumps(a), rewrite_json=json.dumps(b), edits=edits,
                                                             datum=repr(d)),
                              impl=dict(write_a=str(wa)[:200], write_b=str(wb)[:200], read_a=str(ra)[:200], read_b=str(rb)[:200]),
                              model="equal canonical forms: same typed values, same bytes, same decoding (C13_same_encoding)",
                              signature="C13:schemaless_writer/reader:same-canonical-form:different-encoding")
                break
    ctx.notes["same_encoding_pairs"] = dict(pairs=len(pairs), theorem_hypotheses_hold=holds)
    if pairs and not holds:
        ctx.violation("thm:same-encoding-impl", dict(note="no generated pair satisfies the hypotheses of C13_same_encoding"), impl="-", model="-",
                      signature="C13:harness:same-encoding-theorem-vacuous-on-generated-pairs", found_input=False)


def run_piecewise(ctx):
    """corr:canon-piecewise: chains / diamonds of separately parsed documents sharing one named_schemas dict
    (dependencies first); the canonical form of the last one must equal that of the same types written inline,
    be parseable on its own and be a fixed point"""
    from fastavro.schema import parse_schema, to_parsing_canonical_form
    from . import c19
    rng = ctx.rng
    graphs = [c19.gen_graph(rng) for _ in range(120 if ctx.quick() else 3000)]
    graphs.append(dict(top="A", n=4, deps={"A": ["B"], "B": ["C"], "C": ["D"], "D": []}, files={
        "A": {"type": "record", "name": "A", "fields": [{"name": "b", "type": "B"}]},
        "B": {"type": "record", "name": "B", "fields": [{"name": "c", "type": {"type": "array", "items": "C"}}]},
        "C": {"type": "record", "name": "C", "fields": [{"name": "d", "type": ["null", "D"]}]},
        "D": {"type": "fixed", "name": "D", "size": 2}}))
    cases = []
    for gi, g in enumerate(graphs):
        orders = c19.topo_orders(g["deps"], g["top"], rng=__import__("random").Random(gi))
        order = rng.choice(orders)
        cases.append((g, order, [g["files"][n] for n in order]))
    exprs = ["show_piecewise_canon [%s]" % "; ".join(sg.to_coq(x) for x in pieces) for g, order, pieces in cases]
    model = [unhex(x) for x in core.coq_eval(exprs, IMPORTS, ctx.workdir, tag="pw", shard=60 if ctx.quick() else 150)]
    depth_hist = {}
    for (g, order, pieces), m in zip(cases, model):
        key = json.dumps(pieces, sort_keys=True)
        ctx.count("corr:canon-piecewise", key, nontrivial=len(pieces) >= 2)
        depth_hist[len(pieces)] = depth_hist.get(len(pieces), 0) + 1
        named = {}
        try:
            parsed = [parse_schema(copy.deepcopy(x), named) for x in pieces]
            r = "ok:" + to_parsing_canonical_form(parsed[-1])
        except Exception as e:
            r = "raised:" + type(e).__name__
        inl = impl_canon(c19.inline_first_use(g["files"], g["top"]))
        cs = dict(pieces=pieces, pieces_json=json.dumps(pieces), order=order, top=g["top"])
        if r != inl:
            ctx.violation("pred:canon-piecewise", cs, impl=r, model=inl,
                          signature="C13:to_parsing_canonical_form:piecewise-parsed:differs-from-inline")
        elif r.startswith("ok:"):
            back = impl_canon(json.loads(r[3:]))
            if back != r:
                ctx.violation("pred:canon-piecewise", cs, impl=back, model=r,
                              signature="C13:to_parsing_canonical_form:piecewise-parsed:" +
                                        ("not-self-contained" if not back.startswith("ok:") else "not-a-fixed-point"))
        if r != m:
            ctx.violation("corr:canon-piecewise", cs, impl=r, model=m,
                          signature="C13:to_parsing_canonical_form:piecewise-parsed:differs-from-model",
                          found_input=(r != inl))
    ctx.notes["piecewise_documents"] = depth_hist


def _null_namespace_nested(s):
    """does the schema define, or refer to, a type of the null namespace from inside a non-null namespace?"""
    for p, n, ns, top in sg.walk(s):
        if ns:
            if isinstance(n, dict) and n.get("type") in ("record", "enum", "fixed", "error") and isinstance(n.get("name"), str):
                if sg.spec_fullname(ns, n)[0] == "":
                    return True
    return False


def replay(ctx, rep):
    c = rep["case"]
    if "pieces_json" in c:
        from fastavro.schema import parse_schema, to_parsing_canonical_form
        pieces = json.loads(c["pieces_json"])
        named = {}
        try:
            parsed = [parse_schema(copy.deepcopy(x), named) for x in pieces]
            r = "ok:" + to_parsing_canonical_form(parsed[-1])
        except Exception as e:
            r = "raised:" + type(e).__name__
        m = unhex(core.coq_eval(["show_piecewise_canon [%s]" % "; ".join(sg.to_coq(x) for x in pieces)], IMPORTS, ctx.workdir, tag="rp")[0])
        print("implementation:", r)
        print("model:", m)
        back = impl_canon(json.loads(r[3:])) if r.startswith("ok:") else None
        print("canonical form read back:", back)
        return r == m and back == r
    s = json.loads(c["schema_json"])
    r = impl_canon(s)
    m = [unhex(x) for x in core.coq_eval(["show_canon " + sg.to_coq(s), "show_pcf " + sg.to_coq(s)], IMPORTS, ctx.workdir, tag="rp")]
    print("implementation:", r)
    print("model of the code:", m[0])
    print("specification rules:", "ok:" + m[1])
    ok = (r == m[0]) and (not r.startswith("ok:") or r[3:] == m[1])
    if "rewrite" in c:
        r2 = impl_canon(json.loads(c["rewrite_json"]))
        print("rewrite:", r2)
        ok = ok and (not r2.startswith("ok:") or r2 == r)
    if rep["name"] == "pred:fixed-point" and r.startswith("ok:"):
        r3 = impl_canon(json.loads(r[3:]))
        print("canonical form of the canonical form:", r3)
        ok = ok and r3 == r
    return ok
