"""C01 - binary round trip: reading what was written returns the datum (normalised), consuming exactly the bytes."""
import io
from .. import core, gallina as G, codec_common as CC

SRCFACTS = ["ints", "leaves_enc", "leaves_dec"]
RULE = ("cases = (schema, conforming datum, random suffix): random schemas over all constructs (records, enums, fixed, arrays, maps, "
        "unions, by-name and recursive references, namespaces, dict-form primitives, unknown logicalType annotations) + a fixed pool; "
        "data boundary-dense (varint-length boundaries, int32/int64 extremes, float specials, empty/long/multibyte strings, all byte "
        "values, sizes 0/1/63/64/65/130, every union branch, omitted defaulted fields, tuple/-type hints); raw or pre-parsed schema; "
        "non-trivial = datum has a node beyond depth 0; distinct by (schema, datum)")
TRUSTED = ["struct.pack/unpack, str.encode/bytes.decode are CPython's; the model's float rounding (SpecFloat.binary_round) and UTF-8 "
           "validity are validated against them by the correspondence itself",
           "the schema reaches the model as the parsed dict fastavro.parse_schema returned (naming is C11's business)"]
ASSUMPTIONS = ["recursion limit / memory are not modelled", "bytes/fixed field defaults (JSON strings) are never omitted by the generator (DESIGN O1)"]
PARTIAL = []


def predicate(c, detail):
    """C01's own statement evaluated on the implementation: (holds?, why)."""
    tn = not c.wopts.get("disable_tuple_notation")
    if c.ropts or not CC.conforms(c.datum, c.parsed, c.named, tn):
        return None, "not applicable"
    w = detail if detail[0] in ("raised", "timeout") else detail[0]
    if w[0] != "ok":
        return False, f"writer {w[0]} {w[1]} on a conforming datum"
    r = detail[1]
    if r[0] != "ok":
        return False, f"reader {r[0]} {r[1]} on the writer's own bytes"
    if r[2] != len(w[1]):
        return False, f"reader consumed {r[2]} bytes but the writer produced {len(w[1])}"
    if not CC.norm_equiv(c.datum, r[1], c.parsed, c.named, tn):
        return False, "value read back is not the datum after the documented normalisation"
    return True, "round trip holds"


def classify(c, why):
    """coarse signature of a failing case"""
    feats = []
    r = repr(c.datum)
    if "'-type'" in r:
        feats.append("type-hint")
    return "C01:roundtrip:" + why.split(" on ")[0].replace(" ", "-")[:50] + (":" + "+".join(feats) if feats else "")


def check_case(ctx, c, m, corr="corr:write+read"):
    t, detail = CC.impl_wr_text(c)
    key = (repr(c.raw), repr(c.datum), c.suffix)
    ctx.count(corr, key, nontrivial=CC.has_depth(c.datum))
    holds, why = predicate(c, detail)
    if holds is False:
        ctx.violation(corr, c.to_json(), impl=t[:2000], model=(m or "")[:2000], signature=classify(c, why),
                      found_input=True, detail=why)
        return
    if m == "U":
        ctx.notes["model_unspecified"] = ctx.notes.get("model_unspecified", 0) + 1
        return
    if t != m:
        # the model's read-back value is the datum's normal form by theorem (py_of (elab datum)): a different VALUE coming back
        # from the implementation on a conforming datum is a concrete failure of the statement, not only of the tie
        tv, mv = t.split(";R:", 1)[-1] if ";R:" in t else None, (m or "").split(";R:", 1)[-1] if ";R:" in (m or "") else None
        if holds and tv is not None and mv is not None and tv != mv:
            ctx.violation(corr, c.to_json(), impl=t[:2000], model=(m or "")[:2000], signature="C01:value-read-back-is-not-the-normal-form-of-the-datum",
                          found_input=True, detail="the value read back differs from py_of (elab datum), the normal form the round-trip theorem fixes "
                                                   "(the independent predicate cannot tell: it does not know the union branch rule)")
            return
        ctx.violation(corr, c.to_json(), impl=t[:2000], model=(m or "")[:2000], signature="C01:model-differs",
                      found_input=False, detail="the implementation differs from the model; the round trip itself holds on this case"
                      if holds else "the implementation differs from the model on a case outside the statement's hypothesis")


def run(ctx):
    n = 1400 if ctx.quick() else 12000
    cases = CC.gen_cases(ctx, n, hints=True, big=not ctx.quick())
    model = CC.run_model(ctx, [CC.expr_wr(c) for c in cases], "c01")
    hist = {}
    for c, m in zip(cases, model):
        check_case(ctx, c, m)
        k = type(c.datum).__name__
        hist[k] = hist.get(k, 0) + 1
    ctx.notes["top_level_datum_types"] = hist
    ctx.notes["model_raise_share"] = round(sum(1 for m in model if m == "E") / max(1, len(model)), 4)
    for c, m in list(zip(cases, model))[:400:80]:
        ctx.sample(dict(schema=c.raw, datum=repr(c.datum)[:200], model=m[:200]))
    # ---- corr:stream: k values back to back on one stream are read back one by one (direct predicate)
    import fastavro
    rng = ctx.rng
    for _ in range(60 if ctx.quick() else 1500):
        group = [rng.choice(cases) for _ in range(rng.choice([2, 3, 5]))]
        fo = io.BytesIO()
        ok = True
        for c in group:
            if CC.impl_write(c.parsed, c.datum, **c.wopts)[0] != "ok":
                ok = False
        if not ok:
            continue
        for c in group:
            fastavro.schemaless_writer(fo, c.parsed, c.datum, **c.wopts)
        fo.seek(0)
        outs = []
        try:
            for c in group:
                outs.append(fastavro.schemaless_reader(fo, c.parsed))
            good = fo.tell() == len(fo.getvalue()) and all(
                CC.norm_equiv(c.datum, o, c.parsed, c.named, not c.wopts.get("disable_tuple_notation"))
                for c, o in zip(group, outs))
        except Exception as e:
            good = False
        ctx.count("corr:stream", tuple(id(c) for c in group))
        if not good:
            ctx.violation("corr:stream", [c.to_json() for c in group], impl="values written back to back are not read back one by one",
                          model="stream_roundtrip", signature="C01:stream:not-read-back-one-by-one", found_input=True)
    long_stream(ctx)


def long_stream(ctx):
    """corr:stream-file: several thousand values back to back in a REAL file opened with open(path, "rb") (a buffered reader:
    values straddle every internal buffer boundary), read back one by one; compared with the values and with the byte
    position after each value (an independent encoder gives the positions)."""
    import fastavro, os, tempfile
    rng = ctx.rng
    named = {}
    schema = fastavro.parse_schema({"type": "record", "name": "StreamRec", "fields": [
        {"name": "a", "type": "long"}, {"name": "s", "type": "string"}, {"name": "l", "type": {"type": "array", "items": "long"}},
        {"name": "u", "type": ["null", "int", "double"]}]}, named)
    bounds = [0, -1, 63, 64, -65, 8191, 8192, -8193, 1 << 20, (1 << 21) - 1, -(1 << 27), (1 << 34), -(1 << 41), (1 << 48) + 5, -(1 << 55), (1 << 62), (1 << 63) - 1, -(1 << 63)]
    n = 900 if ctx.quick() else 20000
    recs = []
    for i in range(n):
        recs.append({"a": rng.choice(bounds), "s": "x" * rng.choice([0, 1, 2, 7, 130]), "l": [rng.choice(bounds) for _ in range(rng.choice([0, 1, 3, 9]))],
                     "u": rng.choice([None, rng.choice([-(1 << 31), (1 << 31) - 1, 64, -65]), 0.5])})
    d = tempfile.mkdtemp(prefix="c01s_", dir=ctx.workdir)
    path = os.path.join(d, "stream.bin")
    ends = []
    with open(path, "wb") as fo:
        for r in recs:
            fastavro.schemaless_writer(fo, schema, r)
            ends.append(fo.tell())
    bad = None
    try:
        for bufsize in (-1, 4096, 0):
            with open(path, "rb", buffering=bufsize) as fi:
                for i, r in enumerate(recs):
                    out = fastavro.schemaless_reader(fi, schema)
                    ctx.count("corr:stream-file", None, nontrivial=False)
                    if not CC.norm_equiv(r, out, schema, named, True) or fi.tell() != ends[i]:
                        bad = dict(index=i, buffering=bufsize, expected=repr(r), got=repr(out)[:300], position=fi.tell(), expected_position=ends[i])
                        break
            if bad:
                break
    except Exception as e:
        bad = dict(buffering=bufsize, raised=type(e).__name__ + ": " + str(e)[:200])
    finally:
        import shutil
        shutil.rmtree(d, ignore_errors=True)
    if bad:
        ctx.violation("corr:stream-file", dict(stream_file=True, seed=ctx.seed, n=n, detail=bad), impl=repr(bad)[:600],
                      model="each value read back, stream position = end of that value's encoding",
                      signature="C01:stream:real-file:not-read-back-one-by-one", found_input=True)


def replay(ctx, rep):
    case = rep["case"]
    if isinstance(case, dict) and case.get("stream_file"):
        import types
        before = len(ctx.violations) if hasattr(ctx, "violations") else None
        long_stream(ctx)
        print("stream-file family re-run with the same seed")
        return before is not None and len(ctx.violations) == before
    if isinstance(case, list):
        print("stream case: re-run the check")
        return False
    c = CC.Case.from_json(case)
    m = CC.run_model(ctx, [CC.expr_wr(c)], "rp")[0]
    t, _ = CC.impl_wr_text(c)
    print("implementation:", t[:500]); print("model         :", m[:500])
    return t == m
