"""Regenerate Srcfacts.v from /repo's current working tree (fresh interpreter,
PYTHONPATH=/repo) and check the committed lemmas coq/srcfacts/SF_<group>.v that
compare those facts with the constants the model was proved with."""
import json, os, shutil, subprocess, sys
from . import core

PROBE = os.path.join(os.path.dirname(os.path.abspath(__file__)), "srcfacts_probe.py")


def coq_str(s):
    assert isinstance(s, str)
    if any(ord(c) > 126 or ord(c) < 32 for c in s):
        raise ValueError(f"srcfacts: non-printable string {s!r}")
    return '"' + s.replace('"', '""') + '"'


def coq_strlist(l):
    return "[" + "; ".join(coq_str(x) for x in l) + "]"


def coq_zlist(l):
    return "[" + "; ".join(str(int(x)) for x in l) + "]"


def probe():
    env = dict(os.environ, PYTHONPATH=core.REPO, PYTHONHASHSEED="0", TZ="UTC", PYTHONDONTWRITEBYTECODE="1")
    p = subprocess.run([sys.executable, PROBE], stdout=subprocess.PIPE, stderr=subprocess.PIPE, env=env, timeout=120)
    if p.returncode != 0:
        raise RuntimeError("srcfacts probe failed: " + p.stderr.decode()[-1500:])
    return json.loads(p.stdout.decode())


def render(f):
    L = ["(* generated from /repo on every run by harness/srcfacts.py -- do not edit *)",
         "From Coq Require Import ZArith List String.", "Import ListNotations.",
         "Open Scope Z_scope. Open Scope string_scope."]
    for k, v in sorted(f["consts"].items()):
        L.append(f"Definition {k} : Z := ({v}).")
    L.append(f"Definition magic : list Z := {coq_zlist(f['magic'])}.")
    L.append(f"Definition sync_size : Z := {f['sync_size']}.")
    L.append(f"Definition header_schema : string := {coq_str(f['header_schema'])}.")
    L.append(f"Definition rabin_seed : Z := {f['rabin_seed']}.")
    L.append(f"Definition rabin_name : string := {coq_str(f['rabin_name'])}.")
    L.append("Definition java_mapping : list (string * string) := [" +
             "; ".join(f"({coq_str(a)}, {coq_str(b)})" for a, b in f["java_mapping"]) + "].")
    for k in ["fingerprint_algorithms", "named_types", "avro_types", "primitives", "reserved_properties",
              "optional_field_properties", "reserved_field_properties", "writers", "readers", "skips",
              "validators", "logical_writers", "logical_readers", "block_writers", "block_readers",
              "mutable_globals", "mutable_defaults", "shared_write_sites"]:
        L.append(f"Definition {k} : list string := {coq_strlist(f[k])}.")
    L.append(f"Definition symbol_regex : string := {coq_str(f['symbol_regex'])}.")
    return "\n".join(L) + "\n"


def check(ctx, groups):
    """Returns {group: (ok, message)}."""
    out = {}
    if not groups:
        return out
    try:
        facts = probe()
        text = render(facts)
    except Exception as e:
        return {g: (False, f"cannot regenerate Srcfacts.v: {e}") for g in groups}
    ctx.notes["srcfacts_regenerated_from"] = facts.get("root")
    wd = ctx.workdir
    with open(os.path.join(wd, "Srcfacts.v"), "w") as f:
        f.write(text)
    rc, log = core.sh(["timeout", "120", "coqc"] + core.COQFLAGS + ["-Q", core.COQ, "FA", "-Q", wd, "WK",
                      os.path.join(wd, "Srcfacts.v")], cwd=wd)
    if rc != 0:
        return {g: (False, "generated Srcfacts.v does not compile: " + log[-800:]) for g in groups}
    # translation validation of the integer leaf functions (harness/leaftrans.py), one generated file per group
    from . import leaftrans
    for g in groups:
        if g in leaftrans.PARTS:
            mod, fn = leaftrans.PARTS[g]
            try:
                with open(os.path.join(wd, mod + ".v"), "w") as f:
                    f.write(fn(core.REPO))
                rc, log = core.sh(["timeout", "120", "coqc"] + core.COQFLAGS + ["-Q", core.COQ, "FA", "-Q", wd, "WK",
                                  os.path.join(wd, mod + ".v")], cwd=wd)
                if rc != 0:
                    out[g] = (False, f"translated {mod}.v does not compile: " + log[-600:])
            except Exception as e:
                out[g] = (False, f"leaf translator rejects the current source (statement shape changed): {e}")
    for g in groups:
        if g in out:
            continue
        src = os.path.join(core.COQ, "srcfacts", f"SF_{g}.v")
        dst = os.path.join(wd, f"SF_{g}.v")
        shutil.copy(src, dst)
        rc, log = core.sh(["timeout", "300", "coqc"] + core.COQFLAGS + ["-Q", core.COQ, "FA", "-Q", wd, "WK", dst], cwd=wd)
        if rc == 0 and "Closed under the global context" in log:
            out[g] = (True, "ok")
        else:
            out[g] = (False, f"srcfacts lemma SF_{g} no longer checks against the regenerated source facts: " + log[-1200:])
    ctx.facts = facts
    return out
