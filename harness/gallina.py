"""Syntactic abstraction Python objects <-> Gallina terms / protocol text.
Nothing semantic happens here: name resolution, defaults, union choice are the model's."""
import re, struct

PRIMS = {"null": "SNull", "boolean": "SBool", "int": "SInt", "long": "SLong", "float": "SFloat",
         "double": "SDouble", "bytes": "SBytes", "string": "SString"}


def hx(b):
    return '(hx "%s")' % bytes(b).hex()


def cstr(s):
    return hx(s.encode("utf-8"))


def zlit(z):
    return "(%d)" % z if z < 0 else "%d" % z


def clist(items):
    return "[" + "; ".join(items) + "]"


def fbits(x):
    return struct.unpack("<Q", struct.pack("<d", x))[0]


def bits_to_float(b):
    return struct.unpack("<d", struct.pack("<Q", b))[0]


def py_to_coq(v):
    if v is None:
        return "PNone"
    if isinstance(v, bool):
        return "(PBool %s)" % ("true" if v else "false")
    if isinstance(v, int):
        return "(PInt %s)" % zlit(v)
    if isinstance(v, float):
        return "(PFloat %d)" % fbits(v)
    if isinstance(v, str):
        return "(PStr %s)" % cstr(v)
    if isinstance(v, bytes):
        return "(PBytes %s)" % hx(v)
    if isinstance(v, bytearray):
        return "(PByteArray %s)" % hx(v)
    if isinstance(v, list):
        return "(PList %s)" % clist(py_to_coq(x) for x in v)
    if isinstance(v, tuple):
        return "(PTuple %s)" % clist(py_to_coq(x) for x in v)
    if isinstance(v, dict):
        return "(PDict %s)" % clist("(%s, %s)" % (py_to_coq(k), py_to_coq(x)) for k, x in v.items())
    raise TypeError(f"no abstraction for {type(v)}")


def show_py(v):
    """Same text as Coq's show_py; NaNs print as Dnan."""
    if v is None:
        return "N"
    if isinstance(v, bool):
        return "T" if v else "F"
    if isinstance(v, int):
        return "I%d" % v
    if isinstance(v, float):
        return "Dnan" if v != v else "D%d" % fbits(v)
    if isinstance(v, str):
        return "S" + v.encode("utf-8").hex()
    if isinstance(v, bytes):
        return "B" + v.hex()
    if isinstance(v, bytearray):
        return "A" + bytes(v).hex()
    if isinstance(v, list):
        return "[" + "".join(show_py(x) + "," for x in v) + "]"
    if isinstance(v, tuple):
        return "(" + "".join(show_py(x) + "," for x in v) + ")"
    if isinstance(v, dict):
        return "{" + "".join(show_py(k) + ":" + show_py(x) + "," for k, x in v.items()) + "}"
    return "?" + type(v).__name__


_DRE = re.compile(r"D(\d+)")


def canon_model_text(s):
    """Model output: replace the bit pattern of any NaN by Dnan."""
    def f(m):
        b = int(m.group(1))
        if (b >> 52) & 0x7FF == 0x7FF and b & ((1 << 52) - 1):
            return "Dnan"
        return m.group(0)
    return _DRE.sub(f, s) if s else s


def opt(x, f):
    return "None" if x is None else "(Some %s)" % f(x)


def schema_to_coq(s):
    """A schema as fastavro.parse_schema returns it (markers ignored)."""
    if isinstance(s, str):
        return PRIMS.get(s) or "(SRef %s)" % cstr(s)
    if isinstance(s, list):
        return "(SUnion %s)" % clist(schema_to_coq(b) for b in s)
    t = s["type"]
    lt = s.get("logicalType")
    if isinstance(t, (dict, list)):          # {"type": {...}} nesting
        inner = schema_to_coq(t)
        return "(SAnnot %s %s)" % (cstr(lt if isinstance(lt, str) else ""), inner)
    al = clist(cstr(a) for a in s.get("aliases", []) if isinstance(a, str))
    if t in PRIMS:
        core = PRIMS[t]
        return "(SAnnot %s %s)" % (cstr(lt if isinstance(lt, str) else ""), core)
    if t == "array":
        core = "(SArray %s)" % schema_to_coq(s["items"])
    elif t == "map":
        core = "(SMap %s)" % schema_to_coq(s["values"])
    elif t == "fixed":
        core = "(SFixed %s %s %s)" % (cstr(s["name"]), al, zlit(s["size"]))
    elif t == "enum":
        d = s.get("default")
        core = "(SEnum %s %s %s %s)" % (cstr(s["name"]), al, clist(cstr(x) for x in s["symbols"]),
                                        opt(d if isinstance(d, str) else None, cstr))
    elif t in ("record", "error"):
        fs = []
        for f in s["fields"]:
            d = "(Some %s)" % py_to_coq(f["default"]) if "default" in f else "None"
            fal = clist(cstr(a) for a in f.get("aliases", []) if isinstance(a, str))
            fs.append("(mkField %s %s %s %s)" % (cstr(f["name"]), schema_to_coq(f["type"]), d, fal))
        core = "(SRecord %s %s %s)" % (cstr(s["name"]), al, clist(fs))
    else:
        raise ValueError(f"schema type {t!r} is not modelled")
    if isinstance(lt, str) and lt:
        return "(SAnnot %s %s)" % (cstr(lt), core)
    return core


def env_to_coq(named):
    return clist("(%s, %s)" % (cstr(k), schema_to_coq(v)) for k, v in named.items())


def wopts(strict=False, strict_allow_default=False, disable_tuple_notation=False):
    b = lambda x: "true" if x else "false"
    return "(mkw %s %s %s)" % (b(strict), b(strict_allow_default), b(disable_tuple_notation))


def ropts(return_record_name=False, return_record_name_override=False, return_named_type=False,
          return_named_type_override=False):
    b = lambda x: "true" if x else "false"
    return "(mkr %s %s %s %s)" % (b(return_record_name), b(return_record_name_override), b(return_named_type),
                                  b(return_named_type_override))
