"""Generators and independent predicates for C09 (union branch choice) and C10 (validate):
union-centred schema families, hint-controlled data, a one-position mutator, an independent
binary decoder that exposes union indices, and the statements' own predicates in Python
(written from the property text, not from fastavro's code and not from the model)."""
import copy, json, struct
from . import gen, codec_common as CC

PRIMS = gen.PRIMS
NAMED = ("record", "enum", "fixed", "error")

IMPORTS = ("From Coq Require Import String.\n"
           "From FA Require Import model.Base model.Varint model.Float model.Value model.Schema model.Codec model.Validate "
           "model.Write model.Read model.Conform.\n"
           "Open Scope Z_scope.\n")


# ------------------------------------------------------------------ schema helpers
def resolve(s, named):
    while isinstance(s, str) and s not in PRIMS:
        s = named[s]
    return s


def tname(s, named):
    """type name after resolving by-name references: 'int', 'record', 'union', ..."""
    s = resolve(s, named)
    if isinstance(s, list):
        return "union"
    return s if isinstance(s, str) else s["type"]


def branch_label(b):
    """the name a branch answers to in (name, value) notation: full name of a named type given inline,
    the spelling of a by-name reference, the type name otherwise"""
    if isinstance(b, str):
        return b
    if b["type"] in NAMED:
        return b["name"]
    return b["type"]


# ------------------------------------------------------------------ union-centred schema families
class UnionSchemaGen:
    def __init__(self, rng):
        self.rng = rng
        self.k = 0

    def fresh(self, p):
        self.k += 1
        return "%s%d" % (p, self.k)

    def fullname(self, base):
        r = self.rng.random()
        if r < 0.6:
            return {"name": base}
        if r < 0.8:
            return {"name": base, "namespace": self.rng.choice(["ns", "a.b"])}
        return {"name": self.rng.choice(["d", "p.q"]) + "." + base}

    def prim(self):
        p = self.rng.choice(PRIMS)
        if self.rng.random() < 0.2:
            d = {"type": p}
            if self.rng.random() < 0.4:
                d["logicalType"] = "custom-lt"
            return d
        return p

    def prim_mix(self):
        rng = self.rng
        k = rng.choice([1, 2, 3, 3, 4, 5, 6, 8])
        ps = rng.sample(PRIMS, k)
        return [({"type": p} if rng.random() < 0.15 else p) for p in ps]

    def numeric_mix(self):
        rng = self.rng
        ps = rng.sample(["int", "long", "float", "double"], rng.choice([2, 3, 4]))
        extra = rng.sample(["null", "string", "boolean", "bytes"], rng.choice([0, 1, 2]))
        out = ps + extra
        rng.shuffle(out)
        return [({"type": p} if p in ("float", "double") and rng.random() < 0.25 else p) for p in out]

    POOL = ["a", "b", "c", "d", "e"]

    def overlap_record(self):
        rng = self.rng
        at = self.fullname(self.fresh("R"))
        at["type"] = "record"
        fs = []
        for nm in rng.sample(self.POOL, rng.choice([0, 1, 2, 2, 3, 4])):
            r = rng.random()
            if r < 0.5:
                fs.append({"name": nm, "type": ["null", rng.choice(["int", "string"])], "default": None})
            elif r < 0.77:
                fs.append({"name": nm, "type": rng.choice(["int", "string", "long"])})
            elif r < 0.87:
                fs.append({"name": nm, "type": "int", "default": rng.choice([0, 7])})
            else:
                fs.append({"name": nm, "type": ["null", rng.choice(["int", "string"])]})   # absent allowed without default (not in strict mode)
        at["fields"] = fs
        return at

    def records_overlap(self):
        rng = self.rng
        bs = [self.overlap_record() for _ in range(rng.choice([2, 2, 3, 3, 4]))]
        for extra in rng.sample(["null", "string", {"type": "map", "values": ["null", "int", "string"]},
                                 {"type": "array", "items": "int"}, "long"], rng.choice([0, 0, 1, 2])):
            bs.insert(rng.randrange(len(bs) + 1), extra)
        return bs

    def records_optional(self):
        """records that differ only by optional (nullable, default-less) fields: R_k = the base fields + k optional ones; a
        datum with exactly the base fields fits all of them non-strictly and only the smallest one in strict mode"""
        rng = self.rng
        base = [{"name": nm, "type": rng.choice(["int", "string", "long"])} for nm in rng.sample(self.POOL, rng.choice([1, 2]))]
        rest = [nm for nm in self.POOL if nm not in [f["name"] for f in base]]
        recs = []
        for k in sorted(rng.sample([0, 1, 2, 3], rng.choice([2, 3]))):
            at = self.fullname(self.fresh("R"))
            at["type"] = "record"
            opt = [{"name": nm, "type": ["null", rng.choice(["int", "string"])]} for nm in rest[:k]]
            if opt and rng.random() < 0.3:
                opt[-1]["default"] = None
            fs = base + opt
            if rng.random() < 0.3:
                rng.shuffle(fs)
            at["fields"] = json.loads(json.dumps(fs))
            recs.append(at)
        rng.shuffle(recs)
        if rng.random() < 0.3:
            recs.insert(rng.randrange(len(recs) + 1), rng.choice(["null", "string"]))
        return recs

    def same_short_name(self):
        """named types sharing a SHORT name across namespaces in one union (records / enums / fixed; inline or by reference;
        the namespaced one before or after the null-namespace one): a hint must be matched against the FULL name"""
        rng = self.rng
        short = self.fresh("S")
        kind = rng.choice(["record", "record", "enum", "fixed"])
        nss = [""] + rng.sample(["a", "b.c", "ns"], rng.choice([1, 2])) if rng.random() < 0.85 else rng.sample(["a", "b.c", "ns"], 2)
        same_shape = rng.random() < 0.6
        defs = []
        for k, ns in enumerate(nss):
            if ns and rng.random() < 0.5:
                at = {"name": ns + "." + short}
            else:
                at = {"name": short, "namespace": ns}
            if kind == "record":
                fs = [{"name": "id", "type": "int"}]
                if not same_shape and k:
                    fs.append({"name": "t%d" % k, "type": rng.choice(["string", "long"])})
                at.update(type="record", fields=fs)
            elif kind == "enum":
                at.update(type="enum", symbols=["A", "B"] if same_shape or not k else ["A", "B", "C%d" % k][k % 2:])
            else:
                at.update(type="fixed", size=2 if same_shape or not k else 2 + k)
            defs.append(((ns + "." + short) if ns else short, at))
        rng.shuffle(defs)
        extras = rng.sample(["null", "string", "long"], rng.choice([0, 1, 2]))
        if rng.random() < 0.4:
            # by reference: define the types in earlier fields of a null-namespace record, refer to them by full name
            outer = {"type": "record", "name": self.fresh("O"), "fields": []}
            for k, (full, at) in enumerate(defs):
                outer["fields"].append({"name": "d%d" % k, "type": at})
            order = [full for full, _ in defs]
            rng.shuffle(order)
            u = order + extras
            if rng.random() < 0.5:
                rng.shuffle(u)
            outer["fields"].append({"name": "u", "type": u})
            if rng.random() < 0.4:
                outer["fields"].append({"name": "us", "type": {"type": "array", "items": list(u)}})
            return outer
        u = [at for _, at in defs] + extras
        if rng.random() < 0.5:
            rng.shuffle(u)
        return u

    def named_mix(self):
        rng = self.rng
        bs = []
        for _ in range(rng.choice([1, 2, 3])):
            at = self.fullname(self.fresh("E"))
            at.update(type="enum", symbols=rng.sample(["A", "B", "C", "D"], rng.choice([1, 2, 3])))
            bs.append(at)
        for _ in range(rng.choice([0, 1, 2])):
            at = self.fullname(self.fresh("F"))
            at.update(type="fixed", size=rng.choice([0, 1, 2, 2, 4]))
            bs.append(at)
        bs += rng.sample(["string", "bytes", "null", "int"], rng.choice([0, 1, 2]))
        if rng.random() < 0.4:
            bs.append(self.overlap_record())
        rng.shuffle(bs)
        return bs

    def containers(self):
        rng = self.rng
        bs = [{"type": "array", "items": rng.choice(["int", "string", ["null", "int"], ["int", "string"]])},
              {"type": "map", "values": rng.choice(["int", "string", ["null", "long"]])}]
        bs += rng.sample(["bytes", "string", "null", "long"], rng.choice([1, 2, 3]))
        if rng.random() < 0.5:
            bs.append(self.overlap_record())
        rng.shuffle(bs)
        return bs

    def union(self):
        fam = self.rng.choice(["prim", "prim", "numeric", "numeric", "records", "records", "records", "records-optional", "records-optional", "records-optional", "named", "containers"])
        return {"prim": self.prim_mix, "numeric": self.numeric_mix, "records": self.records_overlap,
                "records-optional": self.records_optional, "named": self.named_mix, "containers": self.containers}[fam](), fam

    def refs(self):
        """records defined once and referred to by name from several unions"""
        rng = self.rng
        a, b = self.overlap_record(), self.overlap_record()
        # a union with NAMED branches nested inside the record that is later reached by name (reader options must survive)
        en = self.fullname(self.fresh("E"))
        en.update(type="enum", symbols=["A", "B"])
        inner = {"type": "record", "name": self.fresh("I"), "fields": [{"name": "k", "type": "int"}]}
        a["fields"].append({"name": "nu", "type": ["null", en, inner], "default": None})
        outer = self.fullname(self.fresh("O"))
        ns = outer.get("namespace") or (outer["name"].rsplit(".", 1)[0] if "." in outer["name"] else "")

        def full(r):
            n = r["name"]
            if "." in n:
                return n
            rns = r.get("namespace", ns)
            return (rns + "." + n) if rns else n
        fa, fb = full(a), full(b)
        outer.update(type="record", fields=[
            {"name": "f1", "type": a},
            {"name": "f2", "type": ["null", fa, b]},
            {"name": "f3", "type": {"type": "array", "items": rng.sample([fa, fb, "string", "null"], rng.choice([2, 3, 4]))}},
            {"name": "f4", "type": {"type": "map", "values": [fb, fa]}},
        ])
        return outer

    def nested(self):
        """hint inside array inside union (and deeper)"""
        u1, _ = self.union()
        u2, _ = self.union()
        inner = {"type": "array", "items": u1}
        top = ["null", inner, {"type": "map", "values": {"type": "array", "items": u2}}]
        self.rng.shuffle(top)
        return top

    def recursive(self):
        nm = self.fresh("N")
        r = self.rng.random()
        if r < 0.5:
            return {"type": "record", "name": nm, "fields": [{"name": "v", "type": ["long", "string"]},
                                                                {"name": "next", "type": ["null", nm]}]}
        return {"type": "record", "name": nm, "namespace": "t", "fields": [
            {"name": "kids", "type": {"type": "array", "items": ["t." + nm, "int"]}}]}

    def schema(self):
        """(raw schema, family)"""
        rng = self.rng
        r = rng.random()
        if r < 0.5:
            u, fam = self.union()
            w = rng.random()
            if w < 0.55:
                return u, fam
            if w < 0.7:
                return {"type": "array", "items": u}, fam + "/array"
            if w < 0.8:
                return {"type": "map", "values": u}, fam + "/map"
            return {"type": "record", "name": self.fresh("W"), "fields": [{"name": "u", "type": u},
                                                                          {"name": "n", "type": "int", "default": 1}]}, fam + "/field"
        if r < 0.58:
            return self.same_short_name(), "same-short-name"
        if r < 0.65:
            return self.refs(), "refs"
        if r < 0.8:
            return self.nested(), "nested"
        if r < 0.87:
            return self.recursive(), "recursive"
        g = gen.SchemaGen(rng, max_depth=4)
        return g.schema(top=True), "random"


# ------------------------------------------------------------------ data with controlled hints
class UDataGen(gen.DataGen):
    """mode: 'none' | 'tuple' | 'type' | 'mixed' | 'named' (tuple hints on named branches only: the closure clause)"""

    def __init__(self, rng, named, mode="mixed", ambiguous=0.35, dt=False, **kw):
        super().__init__(rng, named, hints=False, **kw)
        self.mode, self.ambiguous = mode, ambiguous
        self.dt = dt          # disable_tuple_notation: tuples at union positions are plain sequences, also hint-shaped ones
        self.hints_made = 0

    def record_like(self, s):
        """a dict with a random subset of the field names used by the record branches of union s (may fit several / none)"""
        rng = self.rng
        names, types = [], {}
        for b in s:
            rb = self.resolve(b)
            if isinstance(rb, dict) and rb["type"] == "record":
                for f in rb["fields"]:
                    names.append(f["name"])
                    types.setdefault(f["name"], []).append(f["type"])
        if not names:
            return None
        out = {}
        for nm in sorted(set(names)):
            if rng.random() < 0.5:
                out[nm] = self.datum(rng.choice(types[nm]), 3)
        if rng.random() < 0.15:
            out["zz"] = 1
        return out

    def datum(self, s, depth=0):
        rng = self.rng
        if isinstance(s, list) and s:
            if depth > self.max_depth + 8:
                raise gen.TooDeep()
            if rng.random() < self.ambiguous:
                v = self.record_like(s)
                if v is not None:
                    return v
            if rng.random() < 0.12 and any(tname(b, self.named) in ("float", "double", "int", "long") for b in s):
                return rng.choice([0, 1, -3, 1.5, 2.0 ** 40, 16777217, 0.1, (1 << 31), -(1 << 40), float("inf")])
            order = list(range(len(s)))
            rng.shuffle(order)
            if depth >= self.max_depth:
                order.sort(key=lambda i: 0 if s[i] == "null" else (1 if isinstance(s[i], str) and s[i] in PRIMS else 2))
            b = s[order[0]]
            self._under_union = True
            v = self.datum(b, depth + 1)
            rb = self.resolve(b)
            named_branch = (isinstance(rb, dict) and rb["type"] in NAMED)
            if self.dt:
                q = rng.random()
                if isinstance(v, list) and q < 0.5:
                    return tuple(v)                           # a sequence given as a tuple: conforms to the array branch
                if q < 0.12:
                    return (branch_label(b), v)               # hint-shaped: with tuple notation disabled just a 2-tuple
            r = rng.random()
            mode = self.mode
            if mode == "mixed":
                mode = rng.choice(["none", "none", "tuple", "type"])
            def spell(full):
                """the hint as the branch's full name, or (for the closure-free modes) its bare short name / a wrong namespace"""
                q = rng.random()
                if self.mode == "named" or q < 0.66:
                    return full
                if q < 0.72 and isinstance(rb, dict):
                    return rb["type"]                          # the type KEYWORD of a named branch is not its label
                shortn = full.rsplit(".", 1)[-1]
                return shortn if q < 0.88 else rng.choice(["zz.", "a.b.", "ns2."]) + shortn
            if mode == "tuple" and r < 0.7:
                self.hints_made += 1
                if rng.random() < 0.04:
                    return (rng.choice(["nope", "int", "R0", ""]), v)
                lab = branch_label(b)
                if not named_branch and rng.random() < 0.08:
                    # wrong-but-plausible labels for unnamed branches (Python type names, "union", another type's keyword)
                    return (rng.choice(["list", "dict", "str", "union", "record", "enum", "fixed", "error", "integer", "bool"]), v)
                return (spell(lab) if named_branch else lab, v)
            if mode == "named" and named_branch and r < 0.7:
                self.hints_made += 1
                return (branch_label(b), v)
            if mode == "type" and r < 0.7 and isinstance(rb, dict) and rb["type"] == "record" and isinstance(v, dict):
                self.hints_made += 1
                v = dict(v)
                v["-type"] = spell(rb["name"]) if rng.random() > 0.04 else rb["name"] + "x"
                return v
            return v
        return super().datum(s, depth)


# ------------------------------------------------------------------ the statements' predicates (Python)
def conforms_x(v, s, named, tuple_notation=True, strict=False):
    """the documented mapping incl. the strict flag: an absent field without default is never accepted in strict mode"""
    s = resolve(s, named)
    if isinstance(s, list):
        if isinstance(v, tuple) and tuple_notation:
            if len(v) != 2:
                return False
            for b in s:
                if branch_label(b) == v[0]:
                    return conforms_x(v[1], b, named, tuple_notation, strict)
            return False
        cands = s
        if isinstance(v, dict) and v.get("-type") is not None:     # explicitly hinted: only the record branch of that name
            cands = [b for b in s if tname(b, named) in ("record", "error") and resolve(b, named)["name"] == v["-type"]]
        return any(conforms_x(v, b, named, tuple_notation, strict) for b in cands)
    t = s if isinstance(s, str) else s["type"]
    if t == "array":
        return isinstance(v, (list, tuple, bytes, bytearray)) and all(conforms_x(x, s["items"], named, tuple_notation, strict) for x in v)
    if t == "map":
        return isinstance(v, dict) and all(isinstance(k, str) for k in v) and \
            all(conforms_x(x, s["values"], named, tuple_notation, strict) for x in v.values())
    if t in ("record", "error"):
        if not isinstance(v, dict):
            return False
        if "-type" in v and v["-type"] != s["name"]:
            return False
        for f in s["fields"]:
            if f["name"] in v:
                if not conforms_x(v[f["name"]], f["type"], named, tuple_notation, strict):
                    return False
            elif "default" in f:
                if not conforms_x(f["default"], f["type"], named, tuple_notation, strict):   # the default stands in
                    return False
            elif strict or not conforms_x(None, f["type"], named, tuple_notation, strict):
                return False
        return True
    return CC.conforms(v, s, named, tuple_notation)


def writable_x(v, s, named, tuple_notation=True):
    """conforms_x for the default writer, with the union rule of C09: a dict carrying a "-type" entry (not None) under a
    union may only go to a record branch of that name (it is an error when there is none)"""
    s = resolve(s, named)
    if isinstance(s, list):
        if isinstance(v, tuple) and tuple_notation:
            if len(v) != 2:
                return False
            for b in s:
                if branch_label(b) == v[0]:
                    return writable_x(v[1], b, named, tuple_notation)
            return False
        cands = s
        if isinstance(v, dict) and v.get("-type") is not None:
            cands = [b for b in s if tname(b, named) in ("record", "error") and resolve(b, named)["name"] == v["-type"]]
        return any(writable_x(v, b, named, tuple_notation) for b in cands)
    t = s if isinstance(s, str) else s["type"]
    if t == "array":
        return isinstance(v, (list, tuple, bytes, bytearray)) and all(writable_x(x, s["items"], named, tuple_notation) for x in v)
    if t == "map":
        return isinstance(v, dict) and all(isinstance(k, str) for k in v) and \
            all(writable_x(x, s["values"], named, tuple_notation) for x in v.values())
    if t in ("record", "error"):
        if not isinstance(v, dict):
            return False
        if "-type" in v and v["-type"] != s["name"]:
            return False
        for f in s["fields"]:
            if f["name"] in v:
                if not writable_x(v[f["name"]], f["type"], named, tuple_notation):
                    return False
            elif "default" in f:
                if not writable_x(f["default"], f["type"], named, tuple_notation):
                    return False
            elif not writable_x(None, f["type"], named, tuple_notation):
                return False
        return True
    return CC.conforms(v, s, named, tuple_notation)


def strict_claim(v, s, named, tn, allow_default):
    """the statement 'everything validate accepts the writers encode', for a writer with strict=True (allow_default False) or
    strict_allow_default=True: True when the datum conforms in strict mode AND, at every record the statement's union rule
    sends it to, it has exactly the record's fields (strict) / lacks only fields that have a default (strict_allow_default).
    A '-type' entry counts as an extra field for these writers, so hinted dicts are outside the claim."""
    strict = not allow_default
    conf = lambda x, b: conforms_x(x, b, named, tn, strict)
    s = resolve(s, named)
    if isinstance(s, list):
        if isinstance(v, tuple) and tn:
            if len(v) != 2:
                return False
            for b in s:
                if branch_label(b) == v[0]:
                    return strict_claim(v[1], b, named, tn, allow_default)
            return False
        if isinstance(v, dict) and "-type" in v:
            return False
        allowed = expected_indices(v, s, named, tn, conf)
        if not allowed:
            return False
        return all(strict_claim(v, s[k], named, tn, allow_default) for k in allowed)
    t = s if isinstance(s, str) else s["type"]
    if t == "array":
        return isinstance(v, (list, tuple, bytes, bytearray)) and all(strict_claim(x, s["items"], named, tn, allow_default) for x in v)
    if t == "map":
        return isinstance(v, dict) and all(isinstance(k, str) for k in v) and \
            all(strict_claim(x, s["values"], named, tn, allow_default) for x in v.values())
    if t in ("record", "error"):
        if not isinstance(v, dict):
            return False
        names = [f["name"] for f in s["fields"]]
        if any(k not in names for k in v):
            return False
        for f in s["fields"]:
            if f["name"] in v:
                if not strict_claim(v[f["name"]], f["type"], named, tn, allow_default):
                    return False
            elif not allow_default or "default" not in f:
                return False
            elif not strict_claim(f["default"], f["type"], named, tn, allow_default):
                return False
        return True
    return CC.conforms(v, s, named, tn)


def is_named_branch(b, named):
    return (isinstance(b, str) and b not in PRIMS) or (isinstance(b, dict) and b["type"] in NAMED)


def closure_applicable(pv, s, named, tree):
    """the statement's closure clause covers this value: every union value either sits under a NAMED branch (and came
    back as a (name, value) pair) or is a plain value that re-resolves to the same branch under the statement's rule"""
    s = resolve(s, named)
    if isinstance(s, list):
        _, i, sub = tree
        b = s[i]
        if is_named_branch(b, named):
            if not (isinstance(pv, tuple) and len(pv) == 2):
                return False
            return closure_applicable(pv[1], b, named, sub)
        if isinstance(pv, tuple):
            return False
        if expected_indices(pv, s, named, True) != {i}:
            return False
        return closure_applicable(pv, b, named, sub)
    t = s if isinstance(s, str) else s["type"]
    if t == "array" and isinstance(pv, list) and len(pv) == len(tree):
        return all(closure_applicable(x, s["items"], named, tr) for x, tr in zip(pv, tree))
    if t == "map" and isinstance(pv, dict):
        if len(pv) != len(tree):
            return False               # duplicate keys cannot arise from a dict; be safe
        return all(closure_applicable(x, s["values"], named, tr) for x, tr in zip(pv.values(), tree))
    if t in ("record", "error") and isinstance(pv, dict):
        return all(closure_applicable(pv[f["name"]], f["type"], named, tr) for f, tr in zip(s["fields"], tree))
    return True


def shared(v, rb):
    return len(set(f["name"] for f in rb["fields"]) & set(v)) if isinstance(v, dict) else 0


def expected_indices(v, bs, named, tn, conf_fn=None):
    """indices the statement allows for datum v under union bs (no tuple hint): a set, or None for 'must raise'.
    conf_fn(v, branch) = the conformance notion in force (default: the documented mapping; strict mode for a strict writer)"""
    conf_fn = conf_fn or (lambda x, b: CC.conforms(x, b, named, tn))
    conf = [k for k, b in enumerate(bs) if conf_fn(v, b)]
    if isinstance(v, dict) and v.get("-type") is not None:      # a '-type' hint selects exactly the named record branch
        conf = [k for k in conf if tname(bs[k], named) in ("record", "error") and resolve(bs[k], named)["name"] == v["-type"]]
    if not conf:
        return None
    nonrec = [k for k in conf if tname(bs[k], named) not in ("record", "error")]
    rec = [k for k in conf if tname(bs[k], named) in ("record", "error")]
    allowed = set()
    if nonrec:
        k = nonrec[0]
        if tname(bs[k], named) == "float" and not isinstance(bs[k], list):
            later = [j for j in range(k + 1, len(bs)) if (bs[j] == "double" or (isinstance(bs[j], dict) and bs[j].get("type") == "double"))]
            k = later[0] if later else k
        allowed.add(k)
    if rec:
        best = max(shared(v, resolve(bs[k], named)) for k in rec)
        allowed.add([k for k in rec if shared(v, resolve(bs[k], named)) == best][0])
    return allowed


# ------------------------------------------------------------------ independent binary decoder exposing union indices
class Short(Exception):
    pass


def _long(buf, pos):
    n, shift = 0, 0
    while True:
        if pos >= len(buf):
            raise Short()
        b = buf[pos]
        pos += 1
        n |= (b & 0x7F) << shift
        shift += 7
        if not b & 0x80:
            break
    return (n >> 1) ^ -(n & 1), pos


def decode_tree(s, named, buf, pos=0):
    """(tree, pos): tree mirrors the wire value; unions are ('u', index, subtree)"""
    s = resolve(s, named)
    if isinstance(s, list):
        i, pos = _long(buf, pos)
        if not 0 <= i < len(s):
            raise Short()
        t, pos = decode_tree(s[i], named, buf, pos)
        return ("u", i, t), pos
    t = s if isinstance(s, str) else s["type"]
    if t == "null":
        return None, pos
    if t == "boolean":
        return bool(buf[pos]), pos + 1
    if t in ("int", "long"):
        return _long(buf, pos)
    if t == "float":
        return struct.unpack("<f", buf[pos:pos + 4])[0], pos + 4
    if t == "double":
        return struct.unpack("<d", buf[pos:pos + 8])[0], pos + 8
    if t in ("bytes", "string"):
        n, pos = _long(buf, pos)
        return bytes(buf[pos:pos + n]), pos + n
    if t == "fixed":
        return bytes(buf[pos:pos + s["size"]]), pos + s["size"]
    if t == "enum":
        return _long(buf, pos)
    if t in ("array", "map"):
        out = []
        while True:
            n, pos = _long(buf, pos)
            if n == 0:
                break
            if n < 0:
                n = -n
                _, pos = _long(buf, pos)
            for _ in range(n):
                if t == "map":
                    kl, pos = _long(buf, pos)
                    pos += kl
                x, pos = decode_tree(s["items"] if t == "array" else s["values"], named, buf, pos)
                out.append(x)
        return out, pos
    if t in ("record", "error"):
        out = []
        for f in s["fields"]:
            x, pos = decode_tree(f["type"], named, buf, pos)
            out.append(x)
        return out, pos
    raise ValueError(t)


def union_nodes(v, s, named, tree, tn, out, path=""):
    """walk datum, schema and decoded tree together; collect (path, branches, index, sub-datum, hint) per union node"""
    s = resolve(s, named)
    if isinstance(s, list):
        _, i, sub = tree
        hint = None
        x = v
        if isinstance(v, tuple) and tn and len(v) == 2:
            hint, x = ("tuple", v[0]), v[1]
        elif isinstance(v, dict) and "-type" in v:
            hint = ("type", v["-type"])
        out.append((path, s, i, x, hint))
        union_nodes(x, s[i], named, sub, tn, out, path + "/u%d" % i)
        return
    t = s if isinstance(s, str) else s["type"]
    if t == "array" and isinstance(v, (list, tuple, bytes, bytearray)) and len(v) == len(tree):
        for k, (x, tr) in enumerate(zip(v, tree)):
            union_nodes(x, s["items"], named, tr, tn, out, path + "/%d" % k)
    elif t == "map" and isinstance(v, dict) and len(v) == len(tree):
        for (k, x), tr in zip(v.items(), tree):
            union_nodes(x, s["values"], named, tr, tn, out, path + "/" + str(k)[:8])
    elif t in ("record", "error") and isinstance(v, dict):
        for f, tr in zip(s["fields"], tree):
            x = v[f["name"]] if f["name"] in v else f.get("default")
            union_nodes(x, f["type"], named, tr, tn, out, path + "/" + f["name"])


def U_is_nonrecord(rb):
    return not (isinstance(rb, dict) and rb["type"] in ("record", "error"))


def check_choice(v, schema, named, data, tn):
    """C09's statement evaluated on the bytes the implementation wrote.  (ok, why, feature)"""
    try:
        tree, pos = decode_tree(schema, named, data)
    except (Short, IndexError, struct.error):
        return False, "the written bytes do not decode under the schema", "undecodable"
    if pos != len(data):
        return False, "trailing bytes", "undecodable"
    nodes = []
    union_nodes(v, schema, named, tree, tn, nodes)
    for path, bs, i, x, hint in nodes:
        if hint and hint[0] == "tuple":
            first = [k for k, b in enumerate(bs) if branch_label(b) == hint[1]]
            if not first or first[0] != i:
                return False, f"tuple hint {hint[1]!r} at {path}: index {i} written, first branch of that name is {first[:1]}", "tuple-hint"
            continue
        if not CC.conforms(x, bs[i], named, tn):
            return False, f"index {i} at {path}: the datum does not conform to that branch", "non-conforming-branch"
        if hint and hint[0] == "type" and hint[1] is not None:
            rb = resolve(bs[i], named)
            if not (isinstance(rb, dict) and rb["type"] in ("record", "error") and rb["name"] == hint[1]):
                feat = "type-hint:non-record-branch-chosen" if U_is_nonrecord(rb) else "type-hint:other-record-chosen"
                return False, f"'-type' hint {hint[1]!r} at {path}: index {i} is not the record of that name", feat
            continue
        allowed = expected_indices(x, bs, named, tn)
        if allowed is None or i not in allowed:
            kinds = [tname(b, named) for b in bs]
            feat = "float-double" if tname(bs[i], named) in ("float", "double") else (
                "most-fields" if tname(bs[i], named) == "record" else "first-in-order")
            return False, f"index {i} at {path}: the rule allows {sorted(allowed) if allowed else 'none'} for branches {kinds}", feat
    return True, f"{len(nodes)} union nodes obey the rule", ""


# ------------------------------------------------------------------ one mutation at one position
WRONG_POOL = [None, True, 5, 2.5, "str", b"by", bytearray(b"ba"), [1], {"k": 1}, {1: 2}, [None], ("x", 1)]

KINDS = ["wrong-type", "none-for-non-null", "none-for-defaulted-field", "out-of-range-int", "bool-for-number", "wrong-fixed-size", "bytearray-for-fixed", "unknown-symbol",
         "non-string-key", "missing-required-field", "missing-defaulted-field", "wrong-hint", "tuple-arity", "str-for-sequence"]


def apply_at(v, path, f):
    if not path:
        return f(v)
    p, rest = path[0], path[1:]
    if p[0] == "idx":
        l = list(v)
        l[p[1]] = apply_at(l[p[1]], rest, f)
        return tuple(l) if isinstance(v, tuple) else l
    if p[0] == "key":
        d = dict(v)
        d[p[1]] = apply_at(d[p[1]], rest, f)
        return d
    if p[0] == "hinted":
        return (v[0], apply_at(v[1], rest, f))
    raise ValueError(p)


def sites(v, s, named, tn, rng, out, path=()):
    """collect (kind, path, function) triples: each is one mutation at one position"""
    s0 = s
    s = resolve(s, named)

    def add(kind, f):
        out.append((kind, path, f))

    wrong = [w for w in WRONG_POOL if not CC.conforms(w, s0, named, tn)]
    if wrong:
        w = rng.choice(wrong)
        add("wrong-type", lambda _x, w=w: copy.deepcopy(w))
    if v is not None and not CC.conforms(None, s0, named, tn):
        add("none-for-non-null", lambda _x: None)          # an explicit None where the type does not accept null
    if isinstance(s, list):
        if isinstance(v, tuple) and tn and len(v) == 2:
            names = [branch_label(b) for b in s]
            other = [n for n in names if n != v[0]] + ["NoSuchBranch"]
            if isinstance(v[0], str) and "." in v[0]:
                other += [v[0].rsplit(".", 1)[-1]] * 3          # the bare short name of a namespaced type is not its label
            for b in s:
                rb = resolve(b, named)
                if branch_label(b) == v[0] and isinstance(rb, dict) and rb["type"] in NAMED:
                    other += [rb["type"]] * 2                    # nor is its type keyword
            other = [n for n in other if n not in names] or other
            n2 = rng.choice(other)
            add("wrong-hint", lambda x, n2=n2: (n2, x[1]))
            add("tuple-arity", lambda x: (x[0], x[1], 0))
            for b in s:
                if branch_label(b) == v[0]:
                    sites(v[1], b, named, tn, rng, out, path + (("hinted",),))
                    break
            return
        if tn:
            add("tuple-arity", lambda x: ("a", "b", "c"))
        for b in s:
            if CC.conforms(v, b, named, tn):
                if not isinstance(v, tuple):
                    sites(v, b, named, tn, rng, out, path)
                break
        return
    t = s if isinstance(s, str) else s["type"]
    if t in ("int", "long"):
        hi = (1 << 31) if t == "int" else (1 << 63)
        add("out-of-range-int", lambda _x, z=rng.choice([hi, -hi - 1, hi + 12345, 1 << 70]): z)
        add("bool-for-number", lambda _x, b=rng.choice([True, False]): b)
    elif t in ("float", "double"):
        add("bool-for-number", lambda _x, b=rng.choice([True, False]): b)
    elif t == "fixed" and isinstance(v, bytes):
        add("wrong-fixed-size", lambda x, up=rng.random() < 0.5: (x + b"\x00") if up or not x else x[:-1])
        add("bytearray-for-fixed", lambda x: bytearray(x))
    elif t == "enum":
        add("unknown-symbol", lambda x, k=rng.choice(["ZZ", "", " "]): (x.lower() if k == "" and isinstance(x, str) and x.lower() != x else "ZZ" + k))
    elif t == "array" and isinstance(v, (list, tuple)):
        add("str-for-sequence", lambda _x: "abc")
        idx = list(range(len(v)))
        rng.shuffle(idx)
        for k in idx[:3]:
            sites(v[k], s["items"], named, tn, rng, out, path + (("idx", k),))
    elif t == "map" and isinstance(v, dict):
        if v:
            k0 = rng.choice(list(v.keys()))
            nk = rng.choice([7, None, b"k", 1.5])

            def rekey(x, k0=k0, nk=nk):
                return {(nk if k == k0 else k): val for k, val in x.items()}
            add("non-string-key", rekey)
            ks = list(v.keys())
            rng.shuffle(ks)
            for k in ks[:3]:
                sites(v[k], s["values"], named, tn, rng, out, path + (("key", k),))
    elif t in ("record", "error") and isinstance(v, dict):
        wrongname = rng.choice([s["name"] + "x", "Other", "", s["name"].split(".")[-1] + "_"])
        if wrongname != s["name"]:
            add("wrong-hint", lambda x, w=wrongname: dict(x, **{"-type": w}))
        for f in s["fields"]:
            if "default" in f and not CC.conforms(None, f["type"], named, tn):
                # explicit None in a field that HAS a default and does not accept null (present or not before)
                add("none-for-defaulted-field", lambda x, n=f["name"]: dict(x, **{n: None}))
            if f["name"] in v:
                kind = "missing-defaulted-field" if "default" in f else "missing-required-field"
                add(kind, lambda x, n=f["name"]: {k: val for k, val in x.items() if k != n})
                sites(v[f["name"]], f["type"], named, tn, rng, out, path + (("key", f["name"]),))


def mutate(rng, v, schema, named, tn=True, kinds=None):
    """(mutated datum, kind) with exactly one position changed, or None when the datum offers no site"""
    out = []
    sites(v, schema, named, tn, rng, out)
    if kinds:
        out = [o for o in out if o[0] in kinds]
    if not out:
        return None
    avail = sorted(set(o[0] for o in out))
    kind = rng.choice(avail)
    cand = [o for o in out if o[0] == kind]
    _, path, f = rng.choice(cand)
    try:
        return apply_at(v, path, f), kind
    except Exception:
        return None


# ------------------------------------------------------------------ cases
def make_cases(ctx, n, mode_weights=None, disable_share=0.25, family_filter=None):
    """list of CC.Case with .family / .mode attributes in case.tag"""
    import fastavro
    rng = ctx.rng
    cases, rejected, deep = [], 0, 0
    fams = {}
    while len(cases) < n:
        g = UnionSchemaGen(rng)
        try:
            raw, fam = g.schema()
            raw = json.loads(json.dumps(raw))
            named = {}
            parsed = fastavro.parse_schema(raw, named)
        except Exception:
            rejected += 1
            continue
        for _ in range(rng.choice([2, 3, 4])):
            c = CC.Case()
            c.raw, c.parsed, c.named = raw, parsed, named
            dt = rng.random() < disable_share
            c.wopts = {"disable_tuple_notation": True} if dt else {}
            mode = rng.choice(mode_weights or ["none", "none", "tuple", "type", "mixed", "mixed", "named"])
            if dt and mode in ("tuple", "named", "mixed"):
                mode = rng.choice(["none", "type"])
            try:
                c.datum = UDataGen(rng, named, mode=mode, dt=dt).datum(parsed)
            except (gen.TooDeep, RecursionError):
                deep += 1
                continue
            c.suffix, c.ropts, c.use_raw = b"", {}, rng.random() < 0.3
            c.tag = fam + ":" + mode
            fams[fam.split("/")[0]] = fams.get(fam.split("/")[0], 0) + 1
            cases.append(c)
    ctx.notes["schemas_rejected_by_parse"] = rejected
    ctx.notes["data_generation_too_deep"] = deep
    ctx.notes["schema_families"] = fams
    return cases
