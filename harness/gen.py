"""Generators for the codec-level properties: schemas (raw JSON as a user would
write them), conforming data (boundary-dense), layouts (block partitions),
non-conforming mutations.  Every choice comes from the rng passed in."""
import json
import math, struct

PRIMS = ["null", "boolean", "int", "long", "float", "double", "bytes", "string"]

INT_BOUNDS = []
for k in range(1, 11):
    b = 1 << (7 * k - 1)
    INT_BOUNDS += [b - 1, b, b + 1, -(b - 1), -b, -(b + 1)]
INT_BOUNDS += [0, 1, -1, 2, -2, 63, 64, -64, -65, (1 << 31) - 1, -(1 << 31), (1 << 63) - 1, -(1 << 63), 1 << 31, -(1 << 31) - 1]

F32_BITS = [0x00000000, 0x80000000, 0x00000001, 0x007FFFFF, 0x00800000, 0x7F7FFFFF, 0x7F800000, 0xFF800000,
            0x3F800000, 0x3F8CCCCD, 0xBF800001, 0x7FC00000, 0x34000000, 0x4B800000]
F64_BITS = [0x0, 0x8000000000000000, 0x1, 0x000FFFFFFFFFFFFF, 0x0010000000000000, 0x7FEFFFFFFFFFFFFF,
            0x7FF0000000000000, 0xFFF0000000000000, 0x3FF0000000000000, 0x3FF199999999999A, 0x7FF8000000000000,
            0x36A0000000000000, 0x3690000000000001, 0x47EFFFFFEFFFFFFF, 0x3FF0000010000000, 0x3FF0000030000000,
            0x3810000000000000, 0x380FFFFFFFFFFFFF]


def f32(bits):
    return struct.unpack("<f", struct.pack("<I", bits))[0]


def f64(bits):
    return struct.unpack("<d", struct.pack("<Q", bits))[0]


def fits_f32(x):
    try:
        struct.pack("<f", x)
        return True
    except (OverflowError, struct.error):
        return False


class SchemaGen:
    """Raw schemas.  `names` collects the full names defined so far (for references)."""

    def __init__(self, rng, max_depth=4, logical=False):
        self.rng = rng
        self.max_depth = max_depth
        self.counter = 0
        self.defined = []          # (fullname, kind, namespace)
        self.open_records = []     # full names of records being defined (recursive references)

    KEYWORDISH = ["null_able", "longer", "Subfields", "typeOf", "itemsList", "recordKeeper", "mapped", "fixedUp", "enumerate",
                  "unionized", "symbolsOf", "valuesOf", "stringy", "bytesOf", "intern", "doubled", "floaty", "booleanish", "named"]

    def fresh(self, kind):
        self.counter += 1
        if self.rng.random() < 0.2:          # identifiers that CONTAIN Avro keywords (substring / key tests in the code)
            return self.rng.choice(self.KEYWORDISH) + str(self.counter)
        return {"record": "R", "enum": "E", "fixed": "F"}[kind] + str(self.counter)

    def name_attrs(self, kind, ns):
        """returns (attrs, fullname, namespace for children)"""
        rng = self.rng
        if self.defined and rng.random() < 0.1:
            # the SHORT name of an already defined type again, in another namespace (full names stay distinct)
            short = rng.choice(self.defined)[0].rsplit(".", 1)[-1]
            taken = {f for f, _, _ in self.defined} | set(self.open_records)
            for n2 in rng.sample(["", "ns", "a.b", "x", "d"], 5):
                full = (n2 + "." + short) if n2 else short
                if full not in taken:
                    self.counter += 1
                    return {"name": short, "namespace": n2}, full, n2
        base = self.fresh(kind)
        r = rng.random()
        if r < 0.55:
            full = (ns + "." + base) if ns else base
            return {"name": base}, full, ns
        if r < 0.75:
            n2 = rng.choice(["ns", "a.b", "x"])
            return {"name": base, "namespace": n2}, n2 + "." + base, n2
        if r < 0.9:
            n2 = rng.choice(["d", "p.q"])
            return {"name": n2 + "." + base}, n2 + "." + base, n2
        return {"name": base, "namespace": ""}, base, ""

    def confusable(self, ns):
        """unions whose branches admit overlapping Python values (str vs array<string>, bytes vs fixed of several sizes vs
        array<int>, int vs long, float vs double also in dict form, enum vs string, map vs record): which branch is written is
        decided by the writer's first-conforming rule -- a validator that is too lax or too strict on one of them shows here"""
        rng = self.rng

        def fx(n):
            at, full, _ = self.name_attrs("fixed", ns)
            at.update(type="fixed", size=n)
            self.defined.append((full, "fixed", ns))
            return at

        def en(syms):
            at, full, _ = self.name_attrs("enum", ns)
            at.update(type="enum", symbols=syms)
            self.defined.append((full, "enum", ns))
            return at
        t = rng.choice(["str", "bytes", "ints", "floats", "enum", "mix"])
        if t == "str":
            u = [{"type": "array", "items": rng.choice(["string", ["string", "int"], "bytes"])}, "string", {"type": "map", "values": "string"}]
        elif t == "bytes":
            u = [fx(rng.choice([1, 2])), fx(rng.choice([3, 4])), "bytes", {"type": "array", "items": "int"}]
        elif t == "ints":
            u = ["int", rng.choice(["long", {"type": "long"}]), rng.choice(["double", {"type": "double", "logicalType": "zzz"}])]
        elif t == "floats":
            u = ["float", rng.choice(["double", {"type": "double"}, {"type": "double", "customAttr": 1}])]
        elif t == "enum":
            u = [en(["a", "b"]), "string", {"type": "array", "items": en(["c", "d"])}]
        else:
            u = ["boolean", "int", "string", {"type": "array", "items": "string"}, "bytes", fx(2)]
        if rng.random() < 0.5:
            rng.shuffle(u)
        if rng.random() < 0.4:
            u.insert(rng.randrange(len(u) + 1), "null")
        return u[:rng.choice([2, 3, 4, 5])] if len(u) > 2 and rng.random() < 0.3 else u

    def family(self, depth, ns):
        """A record holding 2-3 records whose field lists extend one another (every datum of a later member also conforms
        to the earlier ones) and unions that name them BY REFERENCE in random order: the writer's most-fields rule decides."""
        rng = self.rng
        at, full, cns = self.name_attrs("record", ns)
        at["type"] = "record"

        def simple():
            return rng.choice(["int", "long", "string", "boolean", "double", ["null", "int"], {"type": "array", "items": "int"},
                               {"type": "map", "values": "string"}])
        fields_so_far = [{"name": "b%d" % i, "type": simple()} for i in range(rng.choice([0, 1, 2, 3]))]
        members, wrapper_fields = [], []
        for j in range(rng.choice([2, 2, 3])):
            mat, mfull, _ = self.name_attrs("record", cns)
            mat["type"] = "record"
            mat["fields"] = json.loads(json.dumps(fields_so_far))
            self.defined.append((mfull, "record", cns))
            members.append(mfull)
            wrapper_fields.append({"name": "m%d" % j, "type": mat})
            extra = {"name": "e%d" % j, "type": simple()}
            if rng.random() < 0.4:
                ok, d = self.default_for(extra["type"], cns)
                if ok:
                    extra["default"] = d
            fields_so_far = fields_so_far + [extra]
        rng.shuffle(wrapper_fields)
        refs = [r for r in (self.ref_spelling(m, cns) for m in members) if r is not None]
        rng.shuffle(refs)
        if refs:
            u = list(refs)
            if rng.random() < 0.5:
                u.insert(rng.randrange(len(u) + 1), "null")
            wrapper_fields.append({"name": "u", "type": u})
            if rng.random() < 0.5:
                u2 = list(refs)
                rng.shuffle(u2)
                wrapper_fields.append({"name": "l", "type": {"type": "array", "items": u2}})
        at["fields"] = wrapper_fields
        self.defined.append((full, "record", ns))
        return at

    def ref_spelling(self, full, ns):
        """how a reference to `full` may be written from namespace ns"""
        if "." in full:
            fns, short = full.rsplit(".", 1)
            if fns == ns and self.rng.random() < 0.5:
                return short
            return full
        # null-namespace type: only reachable by bare name from the null namespace
        return full if not ns else None

    def schema(self, depth=0, ns="", allow_union=True, top=False):
        rng = self.rng
        kinds = ["prim"] * 6 + ["primdict", "fixed", "enum", "array", "map", "record", "record"]
        if allow_union:
            kinds += ["union", "union"]
        if self.defined or self.open_records:
            kinds += ["ref", "ref"]
        if depth < self.max_depth - 1:
            kinds += ["family"]
        if allow_union and depth < self.max_depth:
            kinds += ["confusable"]
        if depth >= self.max_depth:
            kinds = ["prim"] * 4 + ["fixed", "enum"] + (["ref"] if self.defined else [])
        k = rng.choice(kinds)
        if k == "prim":
            return rng.choice(PRIMS)
        if k == "primdict":
            d = {"type": rng.choice(PRIMS)}
            if rng.random() < 0.5:
                d["logicalType"] = rng.choice(["custom-lt", "zzz"])
            if rng.random() < 0.3:
                d["customAttr"] = rng.choice([1, "x", [1, 2], {"a": None}])
            return d
        if k == "ref":
            cands = [f for f, kd, _ in self.defined] + [f for f in self.open_records if depth > 0]
            rng.shuffle(cands)
            for full in cands:
                sp = self.ref_spelling(full, ns)
                if sp is not None:
                    return sp
            return rng.choice(PRIMS)
        if k == "family":
            return self.family(depth, ns)
        if k == "confusable":
            return self.confusable(ns)
        if k == "fixed":
            at, full, _ = self.name_attrs("fixed", ns)
            at.update(type="fixed", size=rng.choice([0, 1, 2, 3, 4, 8, 16, 20]))
            if rng.random() < 0.2:
                at["aliases"] = ["OldF"]
            self.defined.append((full, "fixed", ns))
            return at
        if k == "enum":
            at, full, _ = self.name_attrs("enum", ns)
            n = rng.choice([1, 2, 3, 4])
            syms = ["A", "B", "C_1", "_d"][:n]
            if rng.random() < 0.5:
                rng.shuffle(syms)          # the same enum name recurs across schemas with another symbol order (cross-call state)
            at.update(type="enum", symbols=syms)
            if rng.random() < 0.3:
                at["default"] = rng.choice(syms)
            if rng.random() < 0.2:
                at["doc"] = "an enum"
            self.defined.append((full, "enum", ns))
            return at
        if k == "array":
            return {"type": "array", "items": self.schema(depth + 1, ns)}
        if k == "map":
            return {"type": "map", "values": self.schema(depth + 1, ns)}
        if k == "union":
            n = rng.choice([1, 2, 2, 3, 3, 4, 5])
            out, seen = [], set()
            for _ in range(n):
                b = self.schema(depth + 1, ns, allow_union=False)
                key = self.branch_key(b, ns)
                if key in seen:
                    continue
                seen.add(key)
                out.append(b)
            if rng.random() < 0.5 and "null" not in seen:
                out.insert(rng.randrange(len(out) + 1), "null")
            return out
        # record
        at, full, cns = self.name_attrs("record", ns)
        at["type"] = "record"
        self.open_records.append(full)
        fields = []
        for i in range(rng.choice([0, 1, 1, 2, 2, 3, 4, 5])):
            ft = self.field_type(depth + 1, cns)
            f = {"name": rng.choice(["f%d" % i, "x%d" % i, "k%d" % i] +
                                    (["type", "name", "fields", "items", "values", "symbols", "size", "default", "namespace", "null",
                                      "logicalType", "aliases", "doc"][i:i + 1] if rng.random() < 0.15 else [])), "type": ft}
            if rng.random() < 0.35:
                ok, d = self.default_for(ft, cns)
                if ok:
                    f["default"] = d
            if rng.random() < 0.15:
                f["aliases"] = ["old_" + f["name"]]
            if rng.random() < 0.15:
                f["doc"] = "doc"
            if rng.random() < 0.1:
                f["order"] = rng.choice(["ascending", "descending", "ignore"])
            fields.append(f)
        at["fields"] = fields
        if rng.random() < 0.2:
            at["aliases"] = ["OldR"]
        if rng.random() < 0.2:
            at["doc"] = "a record"
        self.open_records.pop()
        self.defined.append((full, "record", ns))
        return at

    def field_type(self, depth, ns):
        rng = self.rng
        s = self.schema(depth, ns)
        # direct reference to an open record is not a finite type: wrap it
        if isinstance(s, str) and s not in PRIMS:
            full = s if "." in s or not ns else ns + "." + s
            if full in self.open_records or s in self.open_records:
                w = rng.choice(["union", "array", "map"])
                if w == "union":
                    return ["null", s]
                if w == "array":
                    return {"type": "array", "items": s}
                return {"type": "map", "values": s}
        return s

    def branch_key(self, b, ns):
        if isinstance(b, str):
            if b in PRIMS:
                return b
            return "named:" + (b if "." in b or not ns else ns + "." + b)
        t = b["type"]
        if t in ("record", "enum", "fixed"):
            return "named:" + b["name"] + str(self.counter)
        return t

    def kind_of(self, s, ns):
        """('prim', name) / ('named', definition) ... for default generation"""
        return s

    def default_for(self, ft, ns):
        """(ok, json default) for types whose JSON default is also the Python datum"""
        rng = self.rng
        if isinstance(ft, list):
            if not ft:
                return False, None
            return self.default_for(ft[0], ns)
        if isinstance(ft, dict):
            t = ft["type"]
            if t in PRIMS:
                return self.default_for(t, ns)
            if t == "array":
                return True, []
            if t == "map":
                return True, {}
            if t == "enum":
                return True, ft["symbols"][0]
            return False, None
        if ft == "null":
            return True, None
        if ft == "boolean":
            return True, rng.choice([True, False])
        if ft == "int":
            return True, rng.choice([0, 7, -1, 2147483647])
        if ft == "long":
            return True, rng.choice([0, -5, 1 << 40])
        if ft in ("float", "double"):
            return True, rng.choice([0.0, 1.5, -2.25, 3])
        if ft == "string":
            return True, rng.choice(["", "dflt", "hé"])
        return False, None


# ------------------------------------------------------------------ data
class TooDeep(Exception):
    pass


class DataGen:
    def __init__(self, rng, named, hints=True, max_depth=5, big=False):
        self.rng, self.named, self.hints, self.max_depth, self.big = rng, named, hints, max_depth, big
        # total size budget of one datum (bytes of string/bytes content): keeps the Gallina terms and the text the model
        # prints small enough to evaluate inside Coq in a few hundred MB
        self.budget = (9000 if big and rng.random() < 0.15 else 3000) if big else 2500

    def string(self):
        rng = self.rng
        n = rng.choice([0, 1, 1, 2, 3, 5, 8, 63, 64] + ([8191, 8192] if self.big and rng.random() < 0.3 else []))
        if 4 * n > self.budget and not (n >= 8191 and self.budget >= 2400 and self.big):
            n = rng.choice([0, 1, 2, 3])
        self.budget = 0 if n >= 8191 else self.budget - 4 * n       # one long string is cheap; many medium ones are not
        al = rng.choice(["ascii", "latin", "bmp", "astral", "mixed"])
        def ch():
            a = al if al != "mixed" else rng.choice(["ascii", "latin", "bmp", "astral"])
            if a == "ascii":
                return chr(rng.randrange(0x20, 0x7F))
            if a == "latin":
                return chr(rng.randrange(0x80, 0x800))
            if a == "bmp":
                return chr(rng.choice([rng.randrange(0x800, 0xD800), rng.randrange(0xE000, 0x10000)]))
            return chr(rng.randrange(0x10000, 0x110000))
        out = "".join(ch() for _ in range(n))
        if n and rng.random() < 0.12:
            # characters that codecs / text layers like to treat specially, at the START (BOM, NUL, line and paragraph separators,
            # a combining mark, the replacement character) -- they are ordinary string content for Avro
            out = rng.choice(["\ufeff", "\ufeff\ufeff", "\x00", "\u2028", "\u2029", "\x85", "\u0301", "\ufffd", "\ufffe", " ", "\n", "\t"]) + out[1:]
        return out

    def bytes_(self, n=None):
        rng = self.rng
        if n is None:
            n = rng.choice([0, 1, 2, 3, 7, 63, 64, 65, 256] + ([8192] if self.big and rng.random() < 0.2 else []))
            if n > self.budget and not (n >= 8192 and self.budget >= 2400 and self.big):
                n = rng.choice([0, 1, 2, 3])
            self.budget = 0 if n >= 8192 else self.budget - n
        if n == 256:
            return bytes(range(256))
        return bytes(rng.randrange(256) for _ in range(n))

    def size(self):
        if self.budget < 500:
            return self.rng.choice([0, 1, 2])
        self.budget -= 100
        return self.rng.choice([0, 0, 1, 1, 2, 3, 4] + ([63, 64, 65] if self.rng.random() < 0.25 else []) +
                               ([130] if self.big and self.rng.random() < 0.2 else []))

    def resolve(self, s):
        while isinstance(s, str) and s not in PRIMS:
            s = self.named[s]
        return s

    def datum(self, s, depth=0):
        rng = self.rng
        if depth > self.max_depth + 8:
            raise TooDeep()
        if isinstance(s, str) and s not in PRIMS:
            return self.datum(self.named[s], depth)
        if isinstance(s, list):
            order = list(range(len(s)))
            rng.shuffle(order)
            if depth >= self.max_depth:
                order.sort(key=lambda i: 0 if s[i] == "null" else (1 if isinstance(s[i], str) and s[i] in PRIMS else 2))
            i = order[0]
            b = s[i]
            self._under_union = True
            v = self.datum(b, depth + 1)
            if self.hints:
                r = rng.random()
                rb = self.resolve(b)
                if r < 0.12:
                    return (self.branch_name(b), v)
                if r < 0.2 and isinstance(rb, dict) and rb["type"] == "record" and isinstance(v, dict):
                    v = dict(v)
                    v["-type"] = rb["name"]
                    return v
            return v
        t = s if isinstance(s, str) else s["type"]
        if t != "array":
            self._under_union = False
        if t == "null":
            return None
        if t == "boolean":
            return rng.choice([True, False])
        if t == "int":
            c = [x for x in INT_BOUNDS if -(1 << 31) <= x < (1 << 31)]
            return rng.choice(c) if rng.random() < 0.6 else rng.randrange(-(1 << 31), 1 << 31)
        if t == "long":
            c = [x for x in INT_BOUNDS if -(1 << 63) <= x < (1 << 63)]
            return rng.choice(c) if rng.random() < 0.6 else rng.randrange(-(1 << 63), 1 << 63)
        if t == "float":
            r = rng.random()
            if r < 0.15:
                return rng.choice([0, 1, -3, 16777217, 1 << 40, -(1 << 62)])
            if r < 0.5:
                return f32(rng.choice(F32_BITS))
            if r < 0.75:
                return f32(rng.getrandbits(32))
            x = rng.choice([f64(b) for b in F64_BITS] + [1.1, -2.7, 1e-40, 3.4028235e38, 1e-46, 0.1])
            return x if fits_f32(x) else 1.25
        if t == "double":
            r = rng.random()
            if r < 0.15:
                return rng.choice([0, 1, -3, (1 << 53) + 1, -(1 << 63), 1 << 100])
            if r < 0.6:
                return f64(rng.choice(F64_BITS))
            return f64(rng.getrandbits(64))
        if t == "bytes":
            b = self.bytes_()
            return bytearray(b) if rng.random() < 0.15 else b
        if t == "string":
            return self.string()
        if t == "fixed":
            return self.bytes_(s["size"])
        if t == "enum":
            return rng.choice(s["symbols"])
        if t == "array":
            uu, self._under_union = self._under_union, False
            n = 0 if depth >= self.max_depth else self.size()
            l = [self.datum(s["items"], depth + 1) for _ in range(n)]
            return tuple(l) if rng.random() < 0.1 and not uu else l
        if t == "map":
            n = 0 if depth >= self.max_depth else self.size()
            out = {}
            for i in range(n):
                k = self.string() if rng.random() < 0.4 else rng.choice(["k", "key", "f0", "x1", "-type", ""]) + str(i)
                out[k] = self.datum(s["values"], depth + 1)
            return out
        if t in ("record", "error"):
            items = []
            for f in s["fields"]:
                if "default" in f and omittable(f["type"], self.named) and rng.random() < 0.4:
                    if f.get("aliases") and rng.random() < 0.6:
                        # the field is omitted, but the datum carries a key spelled like one of the field's ALIASES
                        # (aliases are for schema resolution only: the writer must ignore the key and write the default)
                        try:
                            items.append((f["aliases"][0], self.datum(f["type"], depth + 1)))
                        except TooDeep:
                            pass
                    continue
                items.append((f["name"], self.datum(f["type"], depth + 1)))
            if rng.random() < 0.3:
                rng.shuffle(items)
            if rng.random() < 0.1:
                items.append(("extra_key", 1))
            return dict(items)
        raise ValueError(t)

    _under_union = False

    def branch_name(self, b):
        if isinstance(b, str):
            return b
        if b["type"] in ("record", "enum", "fixed", "error"):
            return b["name"]
        return b["type"]


def omittable(ft, named):
    """field types whose JSON default is also the Python datum (O1: not bytes/fixed)"""
    if isinstance(ft, list):
        return bool(ft) and omittable(ft[0], named)
    if isinstance(ft, str):
        if ft in PRIMS:
            return ft != "bytes"
        return omittable(named[ft], named)
    t = ft["type"]
    if t in PRIMS:
        return t != "bytes"
    return t in ("array", "map", "enum")
